#!/bin/sh
# usage: check.sh <property> <quick|thorough>
# Rebuilds nothing from /repo ahead of time: govc loads /repo's current working
# tree (build tag `verif`) on every invocation.
set -u
PROP="$1"; TIER="${2:-quick}"
export GOFLAGS=-mod=mod GOPROXY=off GOSUMDB=off GOTOOLCHAIN=local
cd /verif
if [ ! -x /verif/bin/govc ] || [ -n "$(find /verif/engine -name '*.go' -newer /verif/bin/govc 2>/dev/null | head -1)" ]; then
  (cd /verif/engine && go build -o /verif/bin/govc .) || { echo "ENGINE-ERROR cannot build govc"; exit 3; }
fi
exec /verif/bin/govc check -property "$PROP" -tier "$TIER"
