//go:build verif

// Contracts for the protoc plugin (protoc-gen-grpchan.go), read by
// /verif/engine (govc). Comment-only; compiled only with the `verif` tag.

package main

// ---- C19: generated stubs ----
//
// serviceDescVarName: the Go name of a service's description variable is a
// function of that service (and the naming option) only.
//@ func serviceDescVarName
//@   ensures[C19] name_of_this_services_description: result == ite(legacyNames, legacy_desc_name(sd), exported_desc_name(sd))
//@   modifies nothing
//
// makeTemplate: parses each distinct template text once; the template returned
// is the one for the given text.
//@ func (templates).makeTemplate
//@   requires t != nil
//@   ensures[C19] result == t$entry[templateText] || called("template.Must")
//@   ensures[C19] an_uncached_text_is_parsed_and_yields_a_template: !old(has(t, templateText)) ==> called("(*template.Template).Parse") && result != nil
//@   modifies mapof(t)
//@   assert_call[C19] (*template.Template).Parse : parses_the_given_text: arg1 == templateText
//
// generateChanStubs. The inner loop (loop#2) runs over the methods of one
// service in declaration order; streamCount is the number of streaming methods
// among those already handled, so the index bound into a streaming method's
// code is its position among the service's streaming methods.
//@ func generateChanStubs
//@   loop loop#2 invariant[C19] stream_counter_counts_earlier_streaming_methods: streamCount == nstream(sd, rangeindex#2 + 1) && 0 <= streamCount && streamCount <= rangeindex#2 + 1
//@   assert_call[C19] (*gopoet.FuncSpec).Printlnf : registration_uses_this_services_description: lit_equals(arg1, "return &%s{ch: ch}") || (lit_equals(arg1, "reg.RegisterService(&%s, srv)") && len(arg2) == 1 && typeis(arg2[0], "string") && unbox(arg2[0], "string") == ite(args.legacyDescNames, legacy_desc_name(sd), exported_desc_name(sd)))
//@   assert_call[C19] (*gopoet.FuncSpec).RenderCode : rendered_with_the_template_just_made_and_this_methods_info: arg1 == lastresult("(templates).makeTemplate") && arg2 == boxed(&methodInfo)
//@   assert_call[C19] (*gopoet.FuncSpec).RenderCode : bound_to_own_path: methodInfo.ServiceName == sd_fqn(sd) && methodInfo.MethodName == md_name(md) && md == sd_method(sd, rangeindex#2)
//@   assert_call[C19] (*gopoet.FuncSpec).RenderCode : bound_to_own_service_description: methodInfo.ServiceDesc == ite(args.legacyDescNames, legacy_desc_name(sd), exported_desc_name(sd))
//@   assert_call[C19] (*gopoet.FuncSpec).RenderCode : bound_to_own_stream_index: methodInfo.StreamIndex == nstream(sd, rangeindex#2)
//@   assert_call[C19] (templates).makeTemplate : call_shape_matches_the_streaming_flags: (md_cs(md) ==> lit_contains(arg1, "c.ch.NewStream(ctx, &{{.ServiceDesc}}.Streams[{{.StreamIndex}}], \"/{{.ServiceName}}/{{.MethodName}}\", opts...)") && !lit_contains(arg1, "SendMsg(") && !lit_contains(arg1, "CloseSend(") && !lit_contains(arg1, "Invoke(")) && (!md_cs(md) && md_ss(md) ==> lit_contains(arg1, "c.ch.NewStream(ctx, &{{.ServiceDesc}}.Streams[{{.StreamIndex}}], \"/{{.ServiceName}}/{{.MethodName}}\", opts...)") && lit_contains(arg1, "x.ClientStream.SendMsg(in)") && lit_contains(arg1, "x.ClientStream.CloseSend()") && !lit_contains(arg1, "Invoke(")) && (!md_cs(md) && !md_ss(md) ==> lit_contains(arg1, "c.ch.Invoke(ctx, \"/{{.ServiceName}}/{{.MethodName}}\", in, out, opts...)") && !lit_contains(arg1, "NewStream("))
//@   loop loop#1 invariant[C19] every_method_is_rendered_and_added_every_service_registered: calls("(*gopoet.FuncSpec).RenderCode") == calls("(*desc.MethodDescriptor).IsClientStreaming") && calls("(*gopoet.GoFile).AddElement") == calls("(*gopoet.FuncSpec).RenderCode") + calls("(*gopoet.FuncSpec).Printlnf") && (!args.legacyStubs ==> calls("(*gopoet.FuncSpec).Printlnf") == rangeindex + 1 && !called("(*gopoet.FuncSpec).RenderCode")) && (args.legacyStubs ==> calls("(*gopoet.FuncSpec).Printlnf") == 2 * (rangeindex + 1) && calls("(*gopoet.GoFile).AddType") == rangeindex + 1)
//@   loop loop#2 invariant[C19] every_method_so_far_is_rendered_and_added: calls("(*gopoet.FuncSpec).RenderCode") == calls("(*desc.MethodDescriptor).IsClientStreaming") && calls("(*gopoet.GoFile).AddElement") == calls("(*gopoet.FuncSpec).RenderCode") + calls("(*gopoet.FuncSpec).Printlnf") && args.legacyStubs && calls("(*gopoet.FuncSpec).Printlnf") == 2 * (rangeindex + 1)
//@   assert_call[C19] (*gopoet.FuncSpec).SetVariadic : call_options_are_variadic: arg1
//@   ensures[C19] a_file_with_services_is_written_once: len(lastresult("(*desc.FileDescriptor).GetServices")) > 0 ==> calls("gopoet.WriteGoFile") == 1 && result == lastresult("gopoet.WriteGoFile")
//@   ensures[C19] a_file_without_services_emits_nothing: calls("(*desc.FileDescriptor).GetServices") >= 1 && !called("gopoet.WriteGoFile") ==> result == nil
//@   assert_call[C19] gopoet.NewGoFile : in_the_package_of_the_proto_file: arg1 == pkg.ImportPath && arg2 == pkg.Name && arg0 == lastresult("path.Base")
//@   assert_call[C19] gopoet.WriteGoFile : this_file_to_its_own_output: arg0 == lastresult("(*plugins.CodeGenResponse).OutputFile") && arg1 == f
//@   loop loop#1 invariant[C19] one_rendering_per_template_use: calls("(*gopoet.FuncSpec).RenderCode") == calls("(templates).makeTemplate")
//@   loop loop#2 invariant[C19] one_rendering_per_template_use: calls("(*gopoet.FuncSpec).RenderCode") == calls("(templates).makeTemplate")

// ---- C19: plugin options ----
//
//@ func boolVal
//@   requires len(vals) >= 1
//@   ensures[C19] option_without_value_is_true: len(vals) == 1 ==> result0 && result1 == nil
//@   ensures[C19] true_words: len(vals) > 1 && (str_lower(vals[1]) == "true" || str_lower(vals[1]) == "on" || str_lower(vals[1]) == "yes" || str_lower(vals[1]) == "1") ==> result0 && result1 == nil
//@   ensures[C19] false_words: len(vals) > 1 && (str_lower(vals[1]) == "false" || str_lower(vals[1]) == "off" || str_lower(vals[1]) == "no" || str_lower(vals[1]) == "0") ==> !result0 && result1 == nil
//@   ensures[C19] anything_else_is_an_error: len(vals) > 1 && !(str_lower(vals[1]) == "true" || str_lower(vals[1]) == "on" || str_lower(vals[1]) == "yes" || str_lower(vals[1]) == "1" || str_lower(vals[1]) == "false" || str_lower(vals[1]) == "off" || str_lower(vals[1]) == "no" || str_lower(vals[1]) == "0") ==> !result0 && result1 != nil
//@   modifies nothing
//
// parseArgs: every option is split at the first '='; boolean options go through
// boolVal with that split; the incompatible combination is refused. (The
// per-option assignment is not under a functional contract: see DESIGN.md.)
//@ func parseArgs
//@   loop loop#1 invariant[C19] import_map_is_this_calls_own: result.importMap == nil || fresh(result.importMap)
//@   assert_call[C19] strings.SplitN : option_split_at_the_first_equals_sign: arg1 == "=" && arg2 == 2 && arg0 == args[rangeindex]
//@   loop loop#1 invariant[C19] a_string_option_just_processed_is_stored: rangeindex >= 0 ==> (split_head(args[rangeindex], "=") == "import_path" ==> result.importPath == split_tail(args[rangeindex], "=")) && (split_head(args[rangeindex], "=") == "module" ==> result.moduleRoot == split_tail(args[rangeindex], "="))
//@   loop loop#1 invariant[C19] a_paths_option_just_processed_is_stored: rangeindex >= 0 && split_head(args[rangeindex], "=") == "paths" ==> (split_tail(args[rangeindex], "=") == "import" ==> !result.sourceRelative) && (split_tail(args[rangeindex], "=") == "source_relative" ==> result.sourceRelative)
//@   loop loop#1 invariant[C19] a_boolean_option_just_processed_is_stored: rangeindex >= 0 ==> (split_head(args[rangeindex], "=") == "debug" ==> result.debug == lastresult(boolVal, 0)) && (split_head(args[rangeindex], "=") == "legacy_stubs" ==> result.legacyStubs == lastresult(boolVal, 0)) && (split_head(args[rangeindex], "=") == "legacy_desc_names" ==> result.legacyDescNames == lastresult(boolVal, 0))
//@   loop loop#1 invariant[C19] an_import_mapping_just_processed_is_stored: rangeindex >= 0 && split_head(args[rangeindex], "=") != "debug" && split_head(args[rangeindex], "=") != "legacy_stubs" && split_head(args[rangeindex], "=") != "legacy_desc_names" && split_head(args[rangeindex], "=") != "import_path" && split_head(args[rangeindex], "=") != "module" && split_head(args[rangeindex], "=") != "paths" ==> len(split_head(args[rangeindex], "=")) > 1 && byteat(split_head(args[rangeindex], "="), 0) == 'M' && result.importMap != nil && has(result.importMap, substr(split_head(args[rangeindex], "="), 1, len(split_head(args[rangeindex], "=")))) && result.importMap[substr(split_head(args[rangeindex], "="), 1, len(split_head(args[rangeindex], "=")))] == split_tail(args[rangeindex], "=")
//@   assert_call[C19] boolVal : of_the_split_option: arg0 == lastresult("strings.SplitN")
//@   ensures[C19] module_root_and_source_relative_are_exclusive: result1 == nil ==> !(result0.sourceRelative && result0.moduleRoot != "")

// doCodeGen: options are parsed first (an option error generates nothing), then stubs
// are generated for every file of the request, in order, with the parsed options.
//@ func doCodeGen
//@   assert_call[C19] parseArgs : of_the_requests_parameter: arg0 == req.Args
//@   ensures[C19] option_error_generates_nothing: lastresult(parseArgs, 1) != nil ==> result == lastresult(parseArgs, 1) && !called(generateChanStubs)
//@   loop loop#2 invariant[C19] generation_continues_only_while_it_succeeds: called(generateChanStubs) ==> lastresult(generateChanStubs) == nil
//@   ensures[C19] success_means_every_file_was_generated_without_error: result == nil ==> lastresult(parseArgs, 1) == nil && (called(generateChanStubs) ==> lastresult(generateChanStubs) == nil)
//@   ensures[C19] failure_has_a_cause: result != nil ==> lastresult(parseArgs, 1) != nil || (called(generateChanStubs) && lastresult(generateChanStubs) != nil)
//@   assert_call[C19] (*plugins.GoNames).GoPackageForFileWithOverride : import_path_override_only_for_unmapped_files: arg2 == lastresult(parseArgs, 0).importPath && arg2 != "" && !has(lastresult(parseArgs, 0).importMap, fd_name(arg1))
//@   assert_call[C19] generateChanStubs : each_file_with_the_parsed_options: arg1 == &names && arg2 == resp && arg3 == lastresult(parseArgs, 0) && lastresult(parseArgs, 1) == nil
//@   modifies everything

//@ func main
//@   ensures[C19] runs_the_plugin_with_this_generator: calls("plugins.PluginMain") == 1
//@   assert_call[C19] plugins.PluginMain : isfunc(arg0, "doCodeGen")
//@   modifies everything
