//go:build verif

// Contracts for package internal, read by /verif/engine (govc). Comment-only.

package internal

// ---- call options (C03, C13) ----
//
//@ func (*CallOptions).SetHeaders
//@   loop loop#1 invariant[C03] forall i int :: 0 <= i && i <= rangeindex ==> *co.Headers[i] == md
//@   ensures[C03] every_header_target_set: forall i int :: 0 <= i && i < len(co.Headers) ==> *co.Headers[i] == md
//@   modifies mem("metadata.MD")
//
//@ func (*CallOptions).SetTrailers
//@   loop loop#1 invariant[C03] forall i int :: 0 <= i && i <= rangeindex ==> *co.Trailers[i] == md
//@   ensures[C03] every_trailer_target_set: forall i int :: 0 <= i && i < len(co.Trailers) ==> *co.Trailers[i] == md
//@   modifies mem("metadata.MD")
//
//@ func (*CallOptions).SetPeer
//@   loop loop#1 invariant[C13] source_unchanged: *p == old(*p)
//@   loop loop#1 invariant[C13] forall i int :: 0 <= i && i <= rangeindex ==> *co.Peer[i] == old(*p)
//@   ensures[C13] every_peer_target_set: forall i int :: 0 <= i && i < len(co.Peer) ==> *co.Peer[i] == old(*p)
//@   modifies mem("peer.Peer")

// ---- misc.go ----
//
//@ func TranslateContextError
//@   ensures[C04] deadline: err == context.DeadlineExceeded ==> is_status_err(result) && err_status_code(result) == 4
//@   ensures[C04] canceled: err == context.Canceled ==> is_status_err(result) && err_status_code(result) == 1
//@   ensures[C04,C02] other_errors_unchanged: err != context.DeadlineExceeded && err != context.Canceled ==> result == err
//@   ensures[C04] nil_iff_nil: (result == nil) <==> (err == nil)
//@   modifies nothing
//
//@ func FindUnaryMethod
//@   loop loop#1 invariant[C12] no_earlier_match: forall j int :: 0 <= j && j <= rangeindex ==> methods[j].MethodName != methodName
//@   ensures[C12] absent_means_nil: result == nil ==> (forall j int :: 0 <= j && j < len(methods) ==> methods[j].MethodName != methodName)
//@   ensures[C12] found_is_named: result != nil ==> result.MethodName == methodName
//@   ensures[C12] found_is_first_element: result != nil ==> 0 <= i && i < len(methods) && result == &methods[i] && (forall j int :: 0 <= j && j < i ==> methods[j].MethodName != methodName)
//@   modifies nothing
//
//@ func FindStreamingMethod
//@   loop loop#1 invariant[C12] no_earlier_match: forall j int :: 0 <= j && j <= rangeindex ==> methods[j].StreamName != methodName
//@   ensures[C12] absent_means_nil: result == nil ==> (forall j int :: 0 <= j && j < len(methods) ==> methods[j].StreamName != methodName)
//@   ensures[C12] found_is_named: result != nil ==> result.StreamName == methodName
//@   ensures[C12] found_is_first_element: result != nil ==> 0 <= i && i < len(methods) && result == &methods[i] && (forall j int :: 0 <= j && j < i ==> methods[j].StreamName != methodName)
//@   modifies nothing

// ---- call_options.go: per-RPC credentials (C13) ----
//
//@ define RTS = "credentials.PerRPCCredentials.RequireTransportSecurity"
//@ func ApplyPerRPCCreds
//@   ensures[C13] no_creds_passthrough: old(copts.Creds) == nil ==> result0 == ctx && result1 == nil
//@   ensures[C13] no_creds_no_credential_calls: old(copts.Creds) == nil ==> !called("credentials.PerRPCCredentials.GetRequestMetadata") && !called("credentials.PerRPCCredentials.RequireTransportSecurity")
//@   ensures[C13] error_returns_no_context: result1 != nil ==> result0 == nil
//@   ensures[C13] insecure_transport_refused: called("credentials.PerRPCCredentials.RequireTransportSecurity") && lastresult("credentials.PerRPCCredentials.RequireTransportSecurity") && !isChannelSecure ==> result1 != nil && !called("credentials.PerRPCCredentials.GetRequestMetadata")
//@   ensures[C13] a_secure_or_undemanding_call_asks_the_credentials: called("credentials.PerRPCCredentials.RequireTransportSecurity") && (!lastresult("credentials.PerRPCCredentials.RequireTransportSecurity") || isChannelSecure) ==> called("credentials.PerRPCCredentials.GetRequestMetadata")
//@   ensures[C13] security_always_consulted: old(copts.Creds) != nil ==> called("credentials.PerRPCCredentials.RequireTransportSecurity")
//@   assert_call[C13] credentials.PerRPCCredentials.GetRequestMetadata : security_checked_first: called("credentials.PerRPCCredentials.RequireTransportSecurity") && (!lastresult("credentials.PerRPCCredentials.RequireTransportSecurity") || isChannelSecure)
//@   assert_call[C13] credentials.PerRPCCredentials.GetRequestMetadata : asked_for_this_call: arg0 == copts.Creds && arg1 == ctx && len(arg2) == 1 && arg2[0] == uri
//@   ensures[C13] creds_error_returned: called("credentials.PerRPCCredentials.GetRequestMetadata") && lastresult("credentials.PerRPCCredentials.GetRequestMetadata", 1) != nil ==> result1 == lastresult("credentials.PerRPCCredentials.GetRequestMetadata", 1)
//@   ensures[C13] empty_metadata_keeps_context: result1 == nil && called("credentials.PerRPCCredentials.GetRequestMetadata") && len(lastresult("credentials.PerRPCCredentials.GetRequestMetadata", 0)) == 0 ==> result0 == ctx
//@   ensures[C13] metadata_attached: result1 == nil && called("credentials.PerRPCCredentials.GetRequestMetadata") && len(lastresult("credentials.PerRPCCredentials.GetRequestMetadata", 0)) > 0 ==> called("metadata.NewOutgoingContext") && result0 == lastresult("metadata.NewOutgoingContext")
//@   assert_call[C13] metadata.NewOutgoingContext : onto_callers_context: arg0 == ctx
//@   assert_call[C13] metadata.NewOutgoingContext : merged_with_callers_metadata: lastresult("metadata.FromOutgoingContext", 1) ==> called("metadata.Join") && arg1 == lastresult("metadata.Join")
//@   assert_call[C13] metadata.NewOutgoingContext : creds_only_when_caller_has_none: !lastresult("metadata.FromOutgoingContext", 1) ==> arg1 == lastresult("metadata.New")
//@   assert_call[C13] metadata.Join : callers_values_first_then_creds: len(arg0) == 2 && arg0[0] == lastresult("metadata.FromOutgoingContext", 0) && arg0[1] == lastresult("metadata.New")
//@   assert_call[C13] metadata.New : from_credentials: arg0 == lastresult("credentials.PerRPCCredentials.GetRequestMetadata", 0)
//@   assert_call[C13] metadata.FromOutgoingContext : of_callers_context: arg0 == ctx
//@   modifies external
//
// GetCallOptions: every option kind lands in its own slot. The loop invariant pins the
// effect of the option just processed (appended last / stored), which is what a dropped or
// misdirected assignment breaks; sizes only ever count processed options.
//@ func GetCallOptions
//@   ensures[C03,C13] result != nil && fresh(result)
//@   loop loop#1 invariant[C03] header_option_just_processed_is_the_last_target: rangeindex >= 0 && typeis(opts[rangeindex], "grpc.HeaderCallOption") ==> len(copts.Headers) > 0 && copts.Headers[len(copts.Headers) - 1] == unbox(opts[rangeindex], "grpc.HeaderCallOption").HeaderAddr
//@   loop loop#1 invariant[C03] trailer_option_just_processed_is_the_last_target: rangeindex >= 0 && typeis(opts[rangeindex], "grpc.TrailerCallOption") ==> len(copts.Trailers) > 0 && copts.Trailers[len(copts.Trailers) - 1] == unbox(opts[rangeindex], "grpc.TrailerCallOption").TrailerAddr
//@   loop loop#1 invariant[C13] peer_option_just_processed_is_the_last_target: rangeindex >= 0 && typeis(opts[rangeindex], "grpc.PeerCallOption") ==> len(copts.Peer) > 0 && copts.Peer[len(copts.Peer) - 1] == unbox(opts[rangeindex], "grpc.PeerCallOption").PeerAddr
//@   loop loop#1 invariant[C13] credentials_option_just_processed_wins: rangeindex >= 0 && typeis(opts[rangeindex], "grpc.PerRPCCredsCallOption") ==> copts.Creds == unbox(opts[rangeindex], "grpc.PerRPCCredsCallOption").Creds
//@   loop loop#1 invariant[C03] size_options_just_processed_win: rangeindex >= 0 ==> (typeis(opts[rangeindex], "grpc.MaxRecvMsgSizeCallOption") ==> copts.MaxRecv == unbox(opts[rangeindex], "grpc.MaxRecvMsgSizeCallOption").MaxRecvMsgSize) && (typeis(opts[rangeindex], "grpc.MaxSendMsgSizeCallOption") ==> copts.MaxSend == unbox(opts[rangeindex], "grpc.MaxSendMsgSizeCallOption").MaxSendMsgSize)
//@   loop loop#1 invariant[C03,C13] never_more_targets_than_options: len(copts.Headers) <= rangeindex + 1 && len(copts.Trailers) <= rangeindex + 1 && len(copts.Peer) <= rangeindex + 1 && (rangeindex == -1 ==> copts.Creds == nil)
//@   ensures[C03,C13] no_options_no_targets: len(opts) == 0 ==> len(result.Headers) == 0 && len(result.Trailers) == 0 && len(result.Peer) == 0 && result.Creds == nil
//@   modifies nothing

// ---- transport_stream.go: UnaryServerTransportStream (C03) ----
//
//@ type UnaryServerTransportStream
//@   guarded_by mu : hdrs, hdrsSent, tlrs, tlrsSent
//
//@ func (*UnaryServerTransportStream).GetHeaders
//@   ensures[C03] result == sts.hdrs
//@   modifies nothing
//@ func (*UnaryServerTransportStream).GetTrailers
//@   ensures[C03] result == sts.tlrs
//@   modifies nothing
//@ func (*UnaryServerTransportStream).Finish
//@   ensures[C03] sts.hdrsSent && sts.tlrsSent
//@   modifies sts.hdrsSent, sts.tlrsSent
//@ func (*UnaryServerTransportStream).Method
//@   ensures[C10] result == sts.Name
//@   modifies nothing

// Header / trailer accumulators (C03): per key the value list grows by exactly
// the number of values given (append, never overwrite), keys not mentioned keep
// their list, and once sent a further set fails and changes nothing. (Stated
// for a metadata argument that is not the accumulator map itself.)
//@ func (*UnaryServerTransportStream).setHeaderLocked
//@   requires held(&sts.mu)
//@   ensures[C03] sent_headers_refused_and_nothing_changes: old(sts.hdrsSent) ==> result != nil && sts.hdrs == old(sts.hdrs) && (forall k string :: has(sts.hdrs, k) == old(has(sts.hdrs, k)) && sts.hdrs[k] == old(sts.hdrs[k]))
//@   loop loop#1 invariant[C03] map_ready: md != old(sts.hdrs) ==> sts.hdrs != nil && sts.hdrs != md && !(sts.hdrsSent) && held(&sts.mu) && (old(sts.hdrs) != nil ==> sts.hdrs == old(sts.hdrs))
//@   loop loop#1 invariant[C03] visited_keys_grew_others_unchanged: md != old(sts.hdrs) ==> (forall k string :: (iter_visited(k) && has(md, k) ==> has(sts.hdrs, k) && len(sts.hdrs[k]) == old(len(sts.hdrs[k])) + len(md[k])) && (!iter_visited(k) ==> has(sts.hdrs, k) == old(has(sts.hdrs, k)) && (has(sts.hdrs, k) ==> sts.hdrs[k] == old(sts.hdrs[k]))))
//@   loop loop#1 invariant[C03] values_of_new_keys_are_copies: md != old(sts.hdrs) ==> (forall k string :: iter_visited(k) && has(md, k) && len(md[k]) > 0 && !old(has(sts.hdrs, k)) ==> fresh_backing(sts.hdrs[k]))
//@   loop loop#1 invariant[C03] source_map_unchanged: md != old(sts.hdrs) ==> (forall k string :: has(md, k) == old(has(md, k)) && md[k] == old(md[k]) && (iter_visited(k) ==> has(md, k)))
//@   ensures[C03] every_given_key_grows_by_its_values: !old(sts.hdrsSent) && md != old(sts.hdrs) ==> (forall k string :: has(md, k) ==> has(sts.hdrs, k) && len(sts.hdrs[k]) == old(len(sts.hdrs[k])) + len(md[k]))
//@   ensures[C03] other_keys_keep_their_values: !old(sts.hdrsSent) && md != old(sts.hdrs) ==> (forall k string :: !has(md, k) ==> has(sts.hdrs, k) == old(has(sts.hdrs, k)) && (has(sts.hdrs, k) ==> sts.hdrs[k] == old(sts.hdrs[k])))
//@   ensures[C03] sent_headers_accepted_otherwise: !old(sts.hdrsSent) ==> result == nil
//@   ensures[C03,C10] values_of_new_keys_never_share_the_handlers_slices: !old(sts.hdrsSent) && md != old(sts.hdrs) ==> (forall k string :: has(md, k) && len(md[k]) > 0 && !old(has(sts.hdrs, k)) ==> fresh_backing(sts.hdrs[k]))
//@   ensures[C03,C10] the_accumulator_is_the_streams_own_map_never_the_handlers: !old(sts.hdrsSent) && md != old(sts.hdrs) ==> sts.hdrs != nil && sts.hdrs != md && (old(sts.hdrs) != nil ==> sts.hdrs == old(sts.hdrs))
//@   modifies sts.hdrs, maps("metadata.MD"), mem("string")
//
//@ func (*UnaryServerTransportStream).SetTrailer
//@   ensures[C03] sent_trailers_refused_and_nothing_changes: at_lock(sts.tlrsSent) ==> result != nil && sts.tlrs == at_lock(sts.tlrs) && (forall k string :: has(sts.tlrs, k) == at_lock(has(sts.tlrs, k)) && sts.tlrs[k] == at_lock(sts.tlrs[k]))
//@   loop loop#1 invariant[C03] map_ready: md != at_lock(sts.tlrs) ==> sts.tlrs != nil && sts.tlrs != md && !(sts.tlrsSent) && held(&sts.mu) && (at_lock(sts.tlrs) != nil ==> sts.tlrs == at_lock(sts.tlrs))
//@   loop loop#1 invariant[C03] visited_keys_grew_others_unchanged: md != at_lock(sts.tlrs) ==> (forall k string :: (iter_visited(k) && has(md, k) ==> has(sts.tlrs, k) && len(sts.tlrs[k]) == at_lock(len(sts.tlrs[k])) + len(md[k])) && (!iter_visited(k) ==> has(sts.tlrs, k) == at_lock(has(sts.tlrs, k)) && (has(sts.tlrs, k) ==> sts.tlrs[k] == at_lock(sts.tlrs[k]))))
//@   loop loop#1 invariant[C03] values_of_new_keys_are_copies: md != at_lock(sts.tlrs) ==> (forall k string :: iter_visited(k) && has(md, k) && len(md[k]) > 0 && !at_lock(has(sts.tlrs, k)) ==> fresh_backing(sts.tlrs[k]))
//@   loop loop#1 invariant[C03] source_map_unchanged: md != at_lock(sts.tlrs) ==> (forall k string :: has(md, k) == at_lock(has(md, k)) && md[k] == at_lock(md[k]) && (iter_visited(k) ==> has(md, k)))
//@   ensures[C03] every_given_key_grows_by_its_values: !at_lock(sts.tlrsSent) && md != at_lock(sts.tlrs) ==> (forall k string :: has(md, k) ==> has(sts.tlrs, k) && len(sts.tlrs[k]) == at_lock(len(sts.tlrs[k])) + len(md[k]))
//@   ensures[C03] other_keys_keep_their_values: !at_lock(sts.tlrsSent) && md != at_lock(sts.tlrs) ==> (forall k string :: !has(md, k) ==> has(sts.tlrs, k) == at_lock(has(sts.tlrs, k)) && (has(sts.tlrs, k) ==> sts.tlrs[k] == at_lock(sts.tlrs[k])))
//@   ensures[C03] sent_trailers_accepted_otherwise: !at_lock(sts.tlrsSent) ==> result == nil
//@   ensures[C03,C10] values_of_new_keys_never_share_the_handlers_slices: !at_lock(sts.tlrsSent) && md != at_lock(sts.tlrs) ==> (forall k string :: has(md, k) && len(md[k]) > 0 && !at_lock(has(sts.tlrs, k)) ==> fresh_backing(sts.tlrs[k]))
//@   ensures[C03,C10] the_accumulator_is_the_streams_own_map_never_the_handlers: !at_lock(sts.tlrsSent) && md != at_lock(sts.tlrs) ==> sts.tlrs != nil && sts.tlrs != md && (at_lock(sts.tlrs) != nil ==> sts.tlrs == at_lock(sts.tlrs))
//@   modifies sts.tlrs, maps("metadata.MD"), mem("string")
//
//@ func (*UnaryServerTransportStream).SetHeader
//@   ensures[C03] same_as_setHeaderLocked_under_the_lock: calls("(*UnaryServerTransportStream).setHeaderLocked") == 1 && result == lastresult("(*UnaryServerTransportStream).setHeaderLocked")
//@   assert_call[C03] (*UnaryServerTransportStream).setHeaderLocked : arg0 == sts && arg1 == md
//@   modifies sts.hdrs, maps("metadata.MD"), mem("string")
//
//@ func (*UnaryServerTransportStream).SendHeader
//@   ensures[C03] accepted_headers_are_marked_sent: lastresult("(*UnaryServerTransportStream).setHeaderLocked") == nil ==> sts.hdrsSent && result == nil
//@   ensures[C03] sets_then_marks_sent: calls("(*UnaryServerTransportStream).setHeaderLocked") == 1 && (lastresult("(*UnaryServerTransportStream).setHeaderLocked") != nil ==> result == lastresult("(*UnaryServerTransportStream).setHeaderLocked")) && (lastresult("(*UnaryServerTransportStream).setHeaderLocked") == nil ==> result == nil)
//@   assert_call[C03] (*UnaryServerTransportStream).setHeaderLocked : arg0 == sts && arg1 == md
//@   modifies sts.hdrs, sts.hdrsSent, maps("metadata.MD"), mem("string")
//
//@ func (*ServerTransportStream).SetHeader
//@   ensures[C03] delegates_once: calls("grpc.ServerStream.SetHeader") == 1 && result == lastresult("grpc.ServerStream.SetHeader")
//@   assert_call[C03] grpc.ServerStream.SetHeader : arg0 == sts.Stream && arg1 == md
//@   modifies everything
//@ func (*ServerTransportStream).SendHeader
//@   ensures[C03] delegates_once: calls("grpc.ServerStream.SendHeader") == 1 && result == lastresult("grpc.ServerStream.SendHeader")
//@   assert_call[C03] grpc.ServerStream.SendHeader : arg0 == sts.Stream && arg1 == md
//@   modifies everything
//@ func (*ServerTransportStream).SetTrailer
//@   ensures[C03] the_in_process_stream_which_can_refuse_trailers_is_asked_that_way: typeis(old(sts.Stream), "*inprocgrpc.inProcessServerStream") ==> called("internal.trailerWithErrors.TrySetTrailer")
//@   ensures[C03] error_reporting_setter_preferred: called("internal.trailerWithErrors.TrySetTrailer") ==> result == lastresult("internal.trailerWithErrors.TrySetTrailer") && !called("grpc.ServerStream.SetTrailer")
//@   ensures[C03] otherwise_plain_setter_once: !called("internal.trailerWithErrors.TrySetTrailer") ==> calls("grpc.ServerStream.SetTrailer") == 1 && result == nil
//@   modifies everything

// ---- misc.go: message copy helpers (C18, C06) ----
//
//@ func CopyMessage
//@   ensures[C18] a_source_that_is_not_a_message_is_refused: !implements(in, "proto.Message") ==> result != nil && !called(".Reset") && !called("dynamic.TryMerge")
//@   ensures[C18] a_destination_that_is_not_a_message_is_refused_untouched: !implements(out, "proto.Message") ==> result != nil && !called(".Reset") && !called("dynamic.TryMerge")
//@   ensures[C18,C06] messages_are_reset_then_merged_exactly_once: implements(in, "proto.Message") && implements(out, "proto.Message") ==> calls(".Reset") == 1 && calls("dynamic.TryMerge") == 1 && result == lastresult("dynamic.TryMerge")
//@   assert_call[C18,C06] .Reset : destination_is_cleared_before_merging: arg0 == out && !called("dynamic.TryMerge")
//@   assert_call[C18,C06] dynamic.TryMerge : source_into_the_cleared_destination: arg0 == out && arg1 == in && calls(".Reset") == 1
//@   modifies external
//
//@ func CloneMessage
//@   ensures[C18] a_value_that_is_not_a_message_is_refused: !implements(m, "proto.Message") ==> result0 == nil && result1 != nil && !called("proto.Clone")
//@   ensures[C18,C06] messages_are_deep_cloned_once: implements(m, "proto.Message") ==> calls("proto.Clone") == 1 && result1 == nil && result0 == lastresult("proto.Clone")
//@   assert_call[C18,C06] proto.Clone : of_the_given_message: arg0 == m
//@   modifies nothing

//@ func (*ServerTransportStream).Method
//@   ensures[C10,C12] result == sts.Name
//@   modifies nothing
//
//@ func ClearMessage
//@   ensures[C18] unsettable_destination_is_refused: called("(reflect.Value).CanSet") && !lastresult("(reflect.Value).CanSet") ==> result != nil && !called("(reflect.Value).Set")
//@   ensures[C18] otherwise_set_to_the_zero_value_once: called("(reflect.Value).CanSet") && lastresult("(reflect.Value).CanSet") ==> result == nil && calls("(reflect.Value).Set") == 1
//@   ensures[C18] success_means_it_was_set: result == nil ==> calls("(reflect.Value).Set") == 1
//@   assert_call[C18] (reflect.Value).Set : the_destination_to_zero_of_its_own_type: arg0 == dest && arg1 == lastresult("reflect.Zero")
//@   modifies external
