//go:build verif

// Contracts for package internal, read by /verif/engine (govc). Comment-only.

package internal

// ---- call options (C03, C13) ----
//
//@ func (*CallOptions).SetHeaders
//@   loop loop#1 invariant[C03] forall i int :: 0 <= i && i <= rangeindex ==> *co.Headers[i] == md
//@   ensures[C03] every_header_target_set: forall i int :: 0 <= i && i < len(co.Headers) ==> *co.Headers[i] == md
//@   modifies mem("metadata.MD")
//
//@ func (*CallOptions).SetTrailers
//@   loop loop#1 invariant[C03] forall i int :: 0 <= i && i <= rangeindex ==> *co.Trailers[i] == md
//@   ensures[C03] every_trailer_target_set: forall i int :: 0 <= i && i < len(co.Trailers) ==> *co.Trailers[i] == md
//@   modifies mem("metadata.MD")
//
//@ func (*CallOptions).SetPeer
//@   loop loop#1 invariant[C13] source_unchanged: *p == old(*p)
//@   loop loop#1 invariant[C13] forall i int :: 0 <= i && i <= rangeindex ==> *co.Peer[i] == old(*p)
//@   ensures[C13] every_peer_target_set: forall i int :: 0 <= i && i < len(co.Peer) ==> *co.Peer[i] == old(*p)
//@   modifies mem("peer.Peer")

// ---- misc.go ----
//
//@ func TranslateContextError
//@   ensures[C04] deadline: err == context.DeadlineExceeded ==> is_status_err(result) && err_status_code(result) == 4
//@   ensures[C04] canceled: err == context.Canceled ==> is_status_err(result) && err_status_code(result) == 1
//@   ensures[C04,C02] other_errors_unchanged: err != context.DeadlineExceeded && err != context.Canceled ==> result == err
//@   ensures[C04] nil_iff_nil: (result == nil) <==> (err == nil)
//@   modifies nothing
//
//@ func FindUnaryMethod
//@   loop loop#1 invariant[C12] no_earlier_match: forall j int :: 0 <= j && j <= rangeindex ==> methods[j].MethodName != methodName
//@   ensures[C12] absent_means_nil: result == nil ==> (forall j int :: 0 <= j && j < len(methods) ==> methods[j].MethodName != methodName)
//@   ensures[C12] found_is_named: result != nil ==> result.MethodName == methodName
//@   ensures[C12] found_is_first_element: result != nil ==> 0 <= i && i < len(methods) && result == &methods[i] && (forall j int :: 0 <= j && j < i ==> methods[j].MethodName != methodName)
//@   modifies nothing
//
//@ func FindStreamingMethod
//@   loop loop#1 invariant[C12] no_earlier_match: forall j int :: 0 <= j && j <= rangeindex ==> methods[j].StreamName != methodName
//@   ensures[C12] absent_means_nil: result == nil ==> (forall j int :: 0 <= j && j < len(methods) ==> methods[j].StreamName != methodName)
//@   ensures[C12] found_is_named: result != nil ==> result.StreamName == methodName
//@   ensures[C12] found_is_first_element: result != nil ==> 0 <= i && i < len(methods) && result == &methods[i] && (forall j int :: 0 <= j && j < i ==> methods[j].StreamName != methodName)
//@   modifies nothing

// ---- call_options.go: per-RPC credentials (C13) ----
//
//@ define RTS = "credentials.PerRPCCredentials.RequireTransportSecurity"
//@ func ApplyPerRPCCreds
//@   ensures[C13] no_creds_passthrough: old(copts.Creds) == nil ==> result0 == ctx && result1 == nil
//@   ensures[C13] no_creds_no_credential_calls: old(copts.Creds) == nil ==> !called("credentials.PerRPCCredentials.GetRequestMetadata") && !called("credentials.PerRPCCredentials.RequireTransportSecurity")
//@   ensures[C13] error_returns_no_context: result1 != nil ==> result0 == nil
//@   ensures[C13] insecure_transport_refused: called("credentials.PerRPCCredentials.RequireTransportSecurity") && lastresult("credentials.PerRPCCredentials.RequireTransportSecurity") && !isChannelSecure ==> result1 != nil && !called("credentials.PerRPCCredentials.GetRequestMetadata")
//@   ensures[C13] security_always_consulted: old(copts.Creds) != nil ==> called("credentials.PerRPCCredentials.RequireTransportSecurity")
//@   assert_call[C13] credentials.PerRPCCredentials.GetRequestMetadata : security_checked_first: called("credentials.PerRPCCredentials.RequireTransportSecurity") && (!lastresult("credentials.PerRPCCredentials.RequireTransportSecurity") || isChannelSecure)
//@   assert_call[C13] credentials.PerRPCCredentials.GetRequestMetadata : asked_for_this_call: arg0 == copts.Creds && arg1 == ctx && len(arg2) == 1 && arg2[0] == uri
//@   ensures[C13] creds_error_returned: called("credentials.PerRPCCredentials.GetRequestMetadata") && lastresult("credentials.PerRPCCredentials.GetRequestMetadata", 1) != nil ==> result1 == lastresult("credentials.PerRPCCredentials.GetRequestMetadata", 1)
//@   ensures[C13] empty_metadata_keeps_context: result1 == nil && called("credentials.PerRPCCredentials.GetRequestMetadata") && len(lastresult("credentials.PerRPCCredentials.GetRequestMetadata", 0)) == 0 ==> result0 == ctx
//@   ensures[C13] metadata_attached: result1 == nil && called("credentials.PerRPCCredentials.GetRequestMetadata") && len(lastresult("credentials.PerRPCCredentials.GetRequestMetadata", 0)) > 0 ==> called("metadata.NewOutgoingContext") && result0 == lastresult("metadata.NewOutgoingContext")
//@   assert_call[C13] metadata.NewOutgoingContext : onto_callers_context: arg0 == ctx
//@   assert_call[C13] metadata.NewOutgoingContext : merged_with_callers_metadata: lastresult("metadata.FromOutgoingContext", 1) ==> called("metadata.Join") && arg1 == lastresult("metadata.Join")
//@   assert_call[C13] metadata.NewOutgoingContext : creds_only_when_caller_has_none: !lastresult("metadata.FromOutgoingContext", 1) ==> arg1 == lastresult("metadata.New")
//@   assert_call[C13] metadata.Join : callers_values_first_then_creds: len(arg0) == 2 && arg0[0] == lastresult("metadata.FromOutgoingContext", 0) && arg0[1] == lastresult("metadata.New")
//@   assert_call[C13] metadata.New : from_credentials: arg0 == lastresult("credentials.PerRPCCredentials.GetRequestMetadata", 0)
//@   assert_call[C13] metadata.FromOutgoingContext : of_callers_context: arg0 == ctx
//@   modifies external
//
//@ func GetCallOptions
//@   ensures[C03,C13] result != nil && fresh(result)
//@   modifies nothing

// ---- transport_stream.go: UnaryServerTransportStream (C03) ----
//
//@ type UnaryServerTransportStream
//@   guarded_by mu : hdrs, hdrsSent, tlrs, tlrsSent
//
//@ func (*UnaryServerTransportStream).GetHeaders
//@   ensures[C03] result == sts.hdrs
//@   modifies nothing
//@ func (*UnaryServerTransportStream).GetTrailers
//@   ensures[C03] result == sts.tlrs
//@   modifies nothing
//@ func (*UnaryServerTransportStream).Finish
//@   ensures[C03] sts.hdrsSent && sts.tlrsSent
//@   modifies sts.hdrsSent, sts.tlrsSent
//@ func (*UnaryServerTransportStream).Method
//@   ensures[C10] result == sts.Name
//@   modifies nothing
