//go:build verif

// Contracts for package internal, read by /verif/engine (govc). Comment-only.

package internal

// ---- call options (C03, C13) ----
//
//@ func (*CallOptions).SetHeaders
//@   loop loop#1 invariant[C03] forall i int :: 0 <= i && i <= rangeindex ==> *co.Headers[i] == md
//@   ensures[C03] every_header_target_set: forall i int :: 0 <= i && i < len(co.Headers) ==> *co.Headers[i] == md
//@   modifies mem("metadata.MD")
//
//@ func (*CallOptions).SetTrailers
//@   loop loop#1 invariant[C03] forall i int :: 0 <= i && i <= rangeindex ==> *co.Trailers[i] == md
//@   ensures[C03] every_trailer_target_set: forall i int :: 0 <= i && i < len(co.Trailers) ==> *co.Trailers[i] == md
//@   modifies mem("metadata.MD")
//
//@ func (*CallOptions).SetPeer
//@   loop loop#1 invariant[C13] source_unchanged: *p == old(*p)
//@   loop loop#1 invariant[C13] forall i int :: 0 <= i && i <= rangeindex ==> *co.Peer[i] == old(*p)
//@   ensures[C13] every_peer_target_set: forall i int :: 0 <= i && i < len(co.Peer) ==> *co.Peer[i] == old(*p)
//@   modifies mem("peer.Peer")
