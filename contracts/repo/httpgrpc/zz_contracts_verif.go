//go:build verif

// Contracts for package httpgrpc, read by /verif/engine (govc). This file is
// compiled only with the `verif` build tag and contains nothing but comments.

package httpgrpc

// ---- C14: status-code mapping (codes.go, DefaultErrorRenderer) ----
//
// http_of_code is the table documented on DefaultErrorRenderer, transcribed.
//
//@ define http_of_code(c) = ite(c == 0, 200, ite(c == 1, 502, ite(c == 2, 500, ite(c == 3, 400, ite(c == 4, 504, ite(c == 5, 404, ite(c == 6, 409, ite(c == 7, 403, ite(c == 16, 401, ite(c == 8, 429, ite(c == 9, 412, ite(c == 10, 409, ite(c == 11, 422, ite(c == 12, 501, ite(c == 13, 500, ite(c == 14, 503, 500))))))))))))))))
//
//@ func httpStatusFromCode
//@   ensures[C14] table: result == http_of_code(code)
//@   ensures[C14] error_status_for_error_code: code != 0 ==> 400 <= result && result <= 599
//@   modifies nothing
//
//@ func codeFromHttpStatus
//@   ensures[C14] ok_iff_2xx: (result == 0) <==> (stat >= 200 && stat < 300)
//@   ensures[C14] valid_code: 0 <= result && result <= 16
//@   modifies nothing
//
//@ func DefaultErrorRenderer
//@   ensures[C14] one_error_reply: calls(http.Error) == 1
//@   assert_call[C14] http.Error : writer: arg0 == w
//@   assert_call[C14] http.Error : code_is_table_or_499: arg2 == 499 || arg2 == http_of_code(status_code(st))
//@   assert_call[C14] http.Error : only_cancel_gets_499: arg2 == 499 ==> (status_code(st) == 1 || status_code(st) == 4) && ctx_err(ctx) != nil
//@   assert_call[C14] http.Error : done_request_gets_499: (status_code(st) == 1 || status_code(st) == 4) && old(ctx_err(ctx)) != nil ==> arg2 == 499
//@   modifies everything
