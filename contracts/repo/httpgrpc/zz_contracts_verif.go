//go:build verif

// Contracts for package httpgrpc, read by /verif/engine (govc). This file is
// compiled only with the `verif` build tag and contains nothing but comments.

package httpgrpc

// ---- C14: status-code mapping (codes.go, DefaultErrorRenderer) ----
//
// http_of_code is the table documented on DefaultErrorRenderer, transcribed.
//
//@ define http_of_code(c) = ite(c == 0, 200, ite(c == 1, 502, ite(c == 2, 500, ite(c == 3, 400, ite(c == 4, 504, ite(c == 5, 404, ite(c == 6, 409, ite(c == 7, 403, ite(c == 16, 401, ite(c == 8, 429, ite(c == 9, 412, ite(c == 10, 409, ite(c == 11, 422, ite(c == 12, 501, ite(c == 13, 500, ite(c == 14, 503, 500))))))))))))))))
//
//@ func httpStatusFromCode
//@   ensures[C14] table: result == http_of_code(code)
//@   ensures[C14] error_status_for_error_code: code != 0 ==> 400 <= result && result <= 599
//@   modifies nothing
//
//@ func codeFromHttpStatus
//@   ensures[C14] ok_iff_2xx: (result == 0) <==> (stat >= 200 && stat < 300)
//@   ensures[C14] valid_code: 0 <= result && result <= 16
//@   modifies nothing
//
//@ func DefaultErrorRenderer
//@   ensures[C14] one_error_reply: calls(http.Error) == 1
//@   assert_call[C14] http.Error : writer: arg0 == w
//@   assert_call[C14] http.Error : code_is_table_or_499: arg2 == 499 || arg2 == http_of_code(status_code(st))
//@   assert_call[C14] http.Error : only_cancel_gets_499: arg2 == 499 ==> (status_code(st) == 1 || status_code(st) == 4) && ctx_err(ctx) != nil
//@   assert_call[C14] http.Error : done_request_gets_499: (status_code(st) == 1 || status_code(st) == 4) && old(ctx_err(ctx)) != nil ==> arg2 == 499
//@   modifies everything

// ---- C09: deadlines across HTTP (contextFromHeaders, headersFromContext) ----
//
// hdr1(h, k): what http.Header.Get(k) returns.
//@ define hdr1(h, k) = ite(len(h[canon_key(k)]) > 0, h[canon_key(k)][0], "")
//@ define grpc_timeout(h) = hdr1(h, "GRPC-Timeout")
//@ define timeout_digits(t) = substr(t, 0, len(t) - 1)
//@ define timeout_unit(c) = ite(c == 'H', 3600000000000, ite(c == 'M', 60000000000, ite(c == 'S', 1000000000, ite(c == 'm', 1000000, ite(c == 'u', 1000, ite(c == 'n', 1, 0))))))
//@ define sat_mul(v, u) = ite(v * u > 9223372036854775807, 9223372036854775807, v * u)
//
//@ func contextFromHeaders
//@   ensures[C09] no_header_no_timeout: grpc_timeout(h) == "" ==> calls(context.WithTimeout) == 0
//@   ensures[C09] malformed_is_ignored: grpc_timeout(h) != "" && (!parse_ok(timeout_digits(grpc_timeout(h)), 64) || timeout_unit(byteat(grpc_timeout(h), len(grpc_timeout(h)) - 1)) == 0) ==> calls(context.WithTimeout) == 0
//@   ensures[C09] valid_gives_one_timeout: result2 == nil && grpc_timeout(h) != "" && parse_ok(timeout_digits(grpc_timeout(h)), 64) && timeout_unit(byteat(grpc_timeout(h), len(grpc_timeout(h)) - 1)) != 0 ==> calls(context.WithTimeout) == 1
//@   assert_call[C09] context.WithTimeout : saturating: parse_val(timeout_digits(grpc_timeout(h))) >= 0 ==> arg1 == sat_mul(parse_val(timeout_digits(grpc_timeout(h))), timeout_unit(byteat(grpc_timeout(h), len(grpc_timeout(h)) - 1)))
//@   assert_call[C09] context.WithTimeout : only_for_valid: parse_ok(timeout_digits(grpc_timeout(h)), 64) && timeout_unit(byteat(grpc_timeout(h), len(grpc_timeout(h)) - 1)) != 0
//@   modifies nothing
//
// headersFromContext: with d = time.Until(deadline) the header is "<M>m" with
// M = max(1, d / 1ms) (Go truncation); no deadline => no GRPC-Timeout header.
//@ define millis_of(d) = ite(d / 1000000 <= 0, 1, d / 1000000)
//@ func headersFromContext
//@   ensures[C09] no_deadline_no_header: !lastresult("context.Context.Deadline", 1) ==> !called("(http.Header).Set")
//@   ensures[C09] deadline_sets_header_once: lastresult("context.Context.Deadline", 1) ==> calls("(http.Header).Set") == 1
//@   assert_call[C09] (http.Header).Set : key: arg1 == "GRPC-Timeout"
//@   assert_call[C09] (http.Header).Set : into_result: arg0 == h
//@   assert_call[C09] (http.Header).Set : value: arg2 == fmt_dm(millis_of(lastresult("time.Until")))
//@   assert_call[C09] (http.Header).Set : never_later_than_caller: millis_of(lastresult("time.Until")) >= 1 && (lastresult("time.Until") >= 1000000 ==> millis_of(lastresult("time.Until")) * 1000000 <= lastresult("time.Until") && lastresult("time.Until") - millis_of(lastresult("time.Until")) * 1000000 < 1000000)
//@   ensures[C09,C03] result_is_the_header_map: result == h
//@   modifies everything

// ---- C07 / C01: framing (io.go) ----
//
//@ func writeProtoMessage
//@   ensures[C01,C07] marshal_error_writes_nothing: lastresult("encoding.Codec.Marshal", 1) != nil ==> result == lastresult("encoding.Codec.Marshal", 1) && !called("binary.Write") && !called("io.Writer.Write")
//@   assert_call[C01] encoding.Codec.Marshal : the_message_with_the_given_codec: arg0 == codec && arg1 == m
//@   assert_call[C01,C07] writeSizePreface : size_prefix_first_negative_for_the_final_frame: arg0 == w && !called("io.Writer.Write") && len(lastresult("encoding.Codec.Marshal", 0)) <= 2147483647 && (end ==> arg1 == 0 - len(lastresult("encoding.Codec.Marshal", 0))) && (!end ==> arg1 == len(lastresult("encoding.Codec.Marshal", 0)))
//@   assert_call[C01] io.Writer.Write : then_exactly_the_marshalled_bytes: arg0 == w && arg1 == lastresult("encoding.Codec.Marshal", 0) && calls(writeSizePreface) == 1 && lastresult(writeSizePreface) == nil
//@   ensures[C01] one_payload_write_at_most: calls("io.Writer.Write") <= 1
//@   ensures[C01,C05] a_written_frame_is_flushed_to_the_peer: result == nil && implements(w, "http.Flusher") ==> calls("http.Flusher.Flush") == 1
//@   ensures[C01,C02] a_failed_prefix_or_payload_write_is_reported: (called(writeSizePreface) && lastresult(writeSizePreface) != nil ==> result == lastresult(writeSizePreface) && !called("io.Writer.Write")) && (called("io.Writer.Write") ==> result == lastresult("io.Writer.Write", 1))
//@   ensures[C01,C07] success_wrote_prefix_and_payload: result == nil ==> calls(writeSizePreface) == 1 && calls("io.Writer.Write") == 1
//@   modifies external
//
//@ func writeSizePreface
//@   ensures[C01,C07] calls("binary.Write") == 1
//@   assert_call[C01,C07] binary.Write : big_endian_int32: arg0 == w && typeis(arg2, "int32") && unbox(arg2, "int32") == sz
//@   modifies external
//
//@ func asTrailerProto
//@   ensures[C03] result != nil && fresh(result)
//@   loop loop#1 invariant[C03] visited_keys_copied_others_absent: result != nil && fresh(result) && (forall k string :: (iter_visited(k) ==> has(result, k) && result[k] != nil && len(result[k].Values) == len(md[k])) && (!iter_visited(k) ==> !has(result, k)) && (iter_visited(k) ==> has(md, k)))
//@   ensures[C03] exactly_the_handlers_keys_with_as_many_values: forall k string :: has(result, k) == has(md, k) && (has(md, k) ==> result[k] != nil && len(result[k].Values) == len(md[k]))
//@   ensures[C03] values_are_carried_over_not_rewritten: !called("strings.rewrite")
//@   modifies nothing
//
//@ func readSizePreface
//@   ensures[C07,C01] whole_prefix: old(rd_avail(in)) >= 4 ==> result1 == nil && result0 == be32(in, old(rd_pos(in))) && rd_pos(in) == old(rd_pos(in)) + 4
//@   ensures[C07,C08] clean_end: old(rd_avail(in)) <= 0 ==> result1 == rd_end_err(in) && rd_pos(in) == old(rd_pos(in))
//@   ensures[C07] partial_prefix_is_error: 0 < old(rd_avail(in)) && old(rd_avail(in)) < 4 ==> result1 == short_read_err(in)
//@   ensures[C07,C11] never_fabricates: result1 != nil ==> result0 == 0
//@   modifies rd_pos(in)
//
//@ func readProtoMessage
//@   alloc_bound[C07,C11] maxMessageSize
//@   ensures[C07,C11] bad_size_rejected: (sz < 0 || sz > maxMessageSize) ==> result != nil && rd_pos(in) == old(rd_pos(in))
//@   ensures[C07] bad_size_reads_nothing: (sz < 0 || sz > maxMessageSize) ==> !called("io.read_exactly") && !called("encoding.Codec.Unmarshal")
//@   ensures[C07,C01] success_consumes_exactly_the_frame: result == nil ==> 0 <= sz && sz <= maxMessageSize && rd_pos(in) == old(rd_pos(in)) + sz
//@   ensures[C07,C01] success_decodes_exactly_once: result == nil ==> calls("encoding.Codec.Unmarshal") == 1
//@   ensures[C07] short_payload_is_error: 0 <= sz && sz <= maxMessageSize && old(rd_avail(in)) < sz ==> result != nil
//@   ensures[C07] short_payload_is_not_decoded: 0 <= sz && sz <= maxMessageSize && old(rd_avail(in)) < sz ==> !called("encoding.Codec.Unmarshal")
//@   ensures[C07] short_payload_error_kind: 0 < sz && sz <= maxMessageSize && old(rd_avail(in)) < sz ==> (old(rd_avail(in)) <= 0 ==> result == rd_end_err(in)) && (old(rd_avail(in)) > 0 ==> result == short_read_err(in))
//@   assert_call[C07,C01] encoding.Codec.Unmarshal : exact_payload: len(arg1) == sz && (forall j int :: 0 <= j && j < sz ==> arg1[j] == rd_at(in, old(rd_pos(in)) + j))
//@   assert_call[C07,C01] encoding.Codec.Unmarshal : into_destination: arg0 == codec && arg2 == m
//@   assert_call[C07] io.read_exactly : reads_from_in: arg0 == in
//@   modifies rd_pos(in), external

// ---- serverStream.RecvMsg: C07 (truncation, bad sizes), C08 (single request), C01 ----
//
//@ define sbody(s) = s.r.Body
//@ func (*serverStream).RecvMsg
//@   ensures[C08] single_request_second_recv: !old(s.respStream) && old(s.recvd) > 0 ==> result == io.EOF && rd_pos(sbody(s)) == old(rd_pos(sbody(s)))
//@   ensures[C08] single_request_second_recv_reads_nothing: !old(s.respStream) && old(s.recvd) > 0 ==> !called("readSizePreface")
//@   ensures[C08,C01] counts_attempts: !(!old(s.respStream) && old(s.recvd) > 0) && old(s.recvd) < 9223372036854775807 ==> s.recvd == old(s.recvd) + 1
//@   ensures[C07,C01] success_is_one_whole_frame: result == nil ==> old(rd_avail(sbody(s))) >= 4 && be32(sbody(s), old(rd_pos(sbody(s)))) >= 0 && be32(sbody(s), old(rd_pos(sbody(s)))) <= maxMessageSize && old(rd_avail(sbody(s))) >= 4 + be32(sbody(s), old(rd_pos(sbody(s))))
//@   ensures[C07,C01] success_advances_past_the_frame: result == nil && old(s.respStream) ==> rd_pos(sbody(s)) == old(rd_pos(sbody(s))) + 4 + be32(sbody(s), old(rd_pos(sbody(s))))
//@   ensures[C07] truncated_frame_is_not_eof: old(s.respStream) && old(rd_avail(sbody(s))) > 0 && (old(rd_avail(sbody(s))) < 4 || old(rd_avail(sbody(s))) < 4 + be32(sbody(s), old(rd_pos(sbody(s))))) ==> result != nil && (rd_end_err(sbody(s)) == io.EOF ==> result != io.EOF)
//@   ensures[C07,C11] negative_or_huge_size_rejected: old(rd_avail(sbody(s))) >= 4 && (be32(sbody(s), old(rd_pos(sbody(s)))) < 0 || be32(sbody(s), old(rd_pos(sbody(s)))) > maxMessageSize) && !(!old(s.respStream) && old(s.recvd) > 0) ==> result != nil
//@   ensures[C08] single_request_needs_clean_end: result == nil && !old(s.respStream) ==> rd_end_err(sbody(s)) == io.EOF && rd_pos(sbody(s)) == rd_tot(sbody(s))
//@   assert_call[C01,C07] readProtoMessage : decodes_into_m: arg0 == sbody(s) && arg1 == s.codec && arg3 == m
//@   modifies s.recvd, rd_pos(sbody(s)), external

// ---- toHeaders (C03): every value of every non-reserved key is added (never set),
// under prefix+key, base64url-encoded exactly for "-bin" keys ----
//
//@ func toHeaders
//@   assert_call[C03] (http.Header).Add : into_the_given_header_under_the_prefixed_key: arg0 == h && arg1 == prefix + k
//@   assert_call[C03] (http.Header).Add : reserved_keys_are_never_written: !has(reservedHeaders, str_lower(k))
//@   assert_call[C03] (http.Header).Add : binary_values_base64url_others_verbatim: (has_suffix(str_lower(k), "-bin") ==> arg2 == b64url(vs[rangeindex])) && (!has_suffix(str_lower(k), "-bin") ==> arg2 == vs[rangeindex])
//@   modifies mapof(h), external
//
// ---- serverStream writer side (C03, C01, C05) ----
//
//@ type serverStream
//@   guarded_by wmu : headersSent, writeFailed, tr
//
//@ func (*serverStream).setHeader
//@   locks_only[C05] &s.wmu
//@   ensures[C03] headers_after_they_were_sent_are_refused: at_lock(s.headersSent) ==> result != nil && !called(toHeaders) && !called("http.ResponseWriter.WriteHeader") && s.headersSent
//@   ensures[C03] otherwise_added_to_the_reply_headers: !at_lock(s.headersSent) ==> result == nil && calls(toHeaders) <= 1 && (old(len(md)) > 0 ==> calls(toHeaders) == 1)
//@   assert_call[C03] toHeaders : into_the_reply_headers_unprefixed: arg0 == md && arg1 == lastresult("http.ResponseWriter.Header") && arg2 == ""
//@   ensures[C03] send_marks_headers_sent: send && !at_lock(s.headersSent) ==> s.headersSent && calls("http.ResponseWriter.WriteHeader") == 1
//@   ensures[C03] plain_set_sends_nothing: !send ==> !called("http.ResponseWriter.WriteHeader") && s.headersSent == at_lock(s.headersSent)
//@   modifies s.headersSent, external, maps("http.Header")
//
//@ func (*serverStream).SetTrailer
//@   locks_only[C05] &s.wmu
//@   ensures[C03] appended_after_the_earlier_ones: (old(len(md)) > 0 ==> len(s.tr) == at_lock(len(s.tr)) + 1 && s.tr[len(s.tr) - 1] == md) && (old(len(md)) == 0 ==> (len(s.tr) == at_lock(len(s.tr)) + 1 && s.tr[len(s.tr) - 1] == md) || len(s.tr) == at_lock(len(s.tr)))
//@   ensures[C03] earlier_trailers_kept: forall i int :: 0 <= i && i < at_lock(len(s.tr)) ==> s.tr[i] == at_lock(s.tr[i])
//@   modifies s.tr, mem("metadata.MD")
//
//@ func (*serverStream).SendMsg
//@   locks_only[C05] &s.wmu
//@   ensures[C05] after_a_failed_write_sends_report_eof_and_write_nothing: at_lock(s.writeFailed) ==> result == io.EOF && !called(writeProtoMessage)
//@   assert_call[C01,C02,C11] writeProtoMessage : one_data_frame_of_the_message: arg0 == s.w && arg1 == s.codec && arg2 == m && !arg3 && s.headersSent
//@   ensures[C01] at_most_one_frame_per_send: calls(writeProtoMessage) <= 1
//@   ensures[C02,C11] a_failed_write_is_remembered_and_returned: called(writeProtoMessage) ==> result == lastresult(writeProtoMessage) && (s.writeFailed <==> result != nil)
//@   ensures[C03] headers_count_as_sent_after_the_first_message: !at_lock(s.writeFailed) ==> s.headersSent
//@   ensures[C02,C11,C01] any_send_that_fails_poisons_the_reply: !at_lock(s.writeFailed) ==> (s.writeFailed <==> result != nil)
//@   ensures[C11,C02,C04] the_reply_is_abandoned_only_after_a_failed_write: !at_lock(s.writeFailed) && s.writeFailed ==> called(writeProtoMessage) && lastresult(writeProtoMessage) != nil
//@   modifies s.headersSent, s.writeFailed, external

// ---- client.go helpers ----
//
//@ func statusFromContextError
//@   ensures[C04] deadline: err == context.DeadlineExceeded ==> is_status_err(result) && err_status_code(result) == 4
//@   ensures[C04] canceled: err == context.Canceled ==> is_status_err(result) && err_status_code(result) == 1
//@   ensures[C04,C02] other_errors_unchanged: err != context.DeadlineExceeded && err != context.Canceled ==> result == err
//@   ensures[C04] nil_stays_nil: (result == nil) <==> (err == nil)
//@   modifies nothing
//
//@ func metadataFromProto
//@   ensures[C03] result != nil && fresh(result)
//@   loop loop#1 invariant[C03] visited_keys_copied_others_absent: md != nil && fresh(md) && (forall k string :: (iter_visited(k) ==> has(md, k) && (trailers[k] != nil ==> md[k] == trailers[k].Values)) && (!iter_visited(k) ==> !has(md, k)) && (iter_visited(k) ==> has(trailers, k)))
//@   ensures[C03] exactly_the_received_keys_with_their_values: forall k string :: has(result, k) == has(trailers, k) && (has(trailers, k) && trailers[k] != nil ==> result[k] == trailers[k].Values)
//@   modifies nothing
//
//@ func getPeer
//@   ensures[C13] result != nil && fresh(result)
//@   ensures[C13] address_is_the_host_with_the_schemes_default_port: typeis(result.Addr, "strAddr") && (str_contains(baseUrl.Host, ":") ==> unbox(result.Addr, "strAddr") == baseUrl.Host) && (!str_contains(baseUrl.Host, ":") && baseUrl.Scheme == "https" ==> unbox(result.Addr, "strAddr") == baseUrl.Host + ":443") && (!str_contains(baseUrl.Host, ":") && baseUrl.Scheme == "http" ==> unbox(result.Addr, "strAddr") == baseUrl.Host + ":80") && (!str_contains(baseUrl.Host, ":") && baseUrl.Scheme != "http" && baseUrl.Scheme != "https" ==> unbox(result.Addr, "strAddr") == baseUrl.Host)
//@   ensures[C13] tls_reported: (tls != nil) <==> (result.AuthInfo != nil)
//@   ensures[C13] tls_state: tls != nil ==> typeis(result.AuthInfo, "credentials.TLSInfo") && unbox(result.AuthInfo, "credentials.TLSInfo").State == *tls
//@   modifies nothing
//
//@ func asMetadata
//@   ensures[C03] result1 == nil ==> result0 != nil && fresh(result0)
//@   ensures[C03] result1 != nil ==> result0 == nil
//@   assert_call[C03] (*base64.Encoding).DecodeString : only_binary_keys_are_decoded_with_the_url_alphabet: arg0 == base64.URLEncoding && arg1 == vs[rangeindex] && has_suffix(k, "-bin")
//@   assert_call[C03] strings.ToLower : keys_are_lower_cased: true
//@   ensures[C03] an_undecodable_binary_value_is_the_only_error: result1 != nil ==> called("(*base64.Encoding).DecodeString") && lastresult("(*base64.Encoding).DecodeString", 1) != nil
//@   modifies nothing
//
// setMetadata: reply headers -> header metadata and (x-grpc-trailer- prefixed keys) trailer
// metadata, handed to every call option; a decoding error sets nothing.
//@ func setMetadata
//@   assert_call[C03] asMetadata : of_the_reply_headers: arg0 == h
//@   ensures[C03] decoding_error_sets_nothing: lastresult(asMetadata, 1) != nil ==> result == lastresult(asMetadata, 1) && !called("(*internal.CallOptions).SetHeaders") && !called("(*internal.CallOptions).SetTrailers")
//@   ensures[C03] otherwise_headers_and_trailers_are_set_once: lastresult(asMetadata, 1) == nil ==> result == nil && calls("(*internal.CallOptions).SetHeaders") == 1 && calls("(*internal.CallOptions).SetTrailers") == 1
//@   assert_call[C03] (*internal.CallOptions).SetHeaders : the_decoded_headers: arg0 == copts && arg1 == lastresult(asMetadata, 0)
//@   assert_call[C03] (*internal.CallOptions).SetTrailers : the_collected_trailers: arg0 == copts && arg1 == tlr && tlr != nil
//@   loop loop#1 invariant[C14,C02,C03] reply_headers_untouched_so_far: forall k string :: has(h, k) == old(has(h, k)) && h[k] == old(h[k])
//@   ensures[C14,C02,C03] the_reply_headers_are_only_read: forall k string :: has(h, k) == old(has(h, k)) && h[k] == old(h[k])
//@   modifies mem("metadata.MD")
//
// statFromResponse: the X-GRPC-Status header, when present and parseable, decides
// the code (and message) whatever the HTTP status says; otherwise the HTTP status
// is mapped with codeFromHttpStatus. nil means OK.
//@ define xstatus(reply) = hdr1(reply.Header, "X-GRPC-Status")
//@ define xcode(reply) = split_head(xstatus(reply), ":")
//@ func statFromResponse
//@   assert_call[C02] proto.Unmarshal : only_successfully_decoded_detail_headers_are_parsed: arg0 == lastresult("(*base64.Encoding).DecodeString", 0) && lastresult("(*base64.Encoding).DecodeString", 1) == nil
//@   assert_call[C02] (*base64.Encoding).DecodeString : each_detail_header_with_the_raw_url_alphabet: arg0 == base64.RawURLEncoding && arg1 == detailHeaders[rangeindex]
//@   assert_call[C02] status.FromProto : carries_code_message_and_all_decoded_details: arg0.Details == details && len(details) > 0 && arg0.Message == msg
//@   ensures[C02] decoded_details_are_never_dropped: result != nil && !called("status.FromProto") ==> len(details) == 0
//@   loop loop#1 invariant[C02] every_detail_header_so_far_was_decoded: calls("(*base64.Encoding).DecodeString") == rangeindex + 1
//@   ensures[C02] every_detail_header_of_a_failed_reply_is_decoded: result != nil ==> calls("(*base64.Encoding).DecodeString") == len(old(reply.Header[grpcDetailsHeader]))
//@   ensures[C14,C02] header_code_wins_over_http_status: old(xcode(reply)) != "" && parse_ok(old(xcode(reply)), 32) ==> ((result == nil) <==> (parse_val(old(xcode(reply))) == 0)) && (result != nil ==> status_code(result) == wrap_u32(parse_val(old(xcode(reply)))))
//@   ensures[C14] without_usable_header_the_http_status_decides: (old(xcode(reply)) == "" || !parse_ok(old(xcode(reply)), 32)) ==> ((result == nil) <==> (lastresult(codeFromHttpStatus) == 0)) && (result != nil ==> status_code(result) == lastresult(codeFromHttpStatus))
//@   assert_call[C14] codeFromHttpStatus : of_the_replys_status_code: arg0 == reply.StatusCode
//@   ensures[C02] message_from_header_when_present: result != nil && old(xcode(reply)) != "" && str_contains(old(xstatus(reply)), ":") && !called("status.FromProto") ==> status_msg(result) == split_tail(old(xstatus(reply)), ":")
//@   ensures[C02] message_defaults_to_http_status_text: result != nil && old(xcode(reply)) == "" && !called("status.FromProto") ==> status_msg(result) == old(reply.Status)
//@   modifies nothing

// ---- clientStream (client.go) ----
//
// NewStream sets a finalizer on the wrapper it returns that cancels the stream's
// context. A finalizer may run as soon as its object is unreachable, and a method's
// receiver is unreachable once its last use has been evaluated, even while the method
// is blocked in a callee: the operations that must not be cancelled behind the
// caller's back have to keep the wrapper reachable until they return.
//@ type clientStreamWrapper
//@   kept_alive_during[C01,C02,C04,C05] RecvMsg, SendMsg, Header, CloseSend
//
//@ type clientStream
//@   guarded_by rMu : done, rErr
//@   guarded_by wMu : wErr
//@   invariant[C02,C04,C07] final_error_is_reportable: self.rErr != io.EOF && self.rErr != context.Canceled && self.rErr != context.DeadlineExceeded
//@   invariant[C05] closed_delivery_channel_means_done: closed(self.rCh) ==> self.done
//
// doHttpCall is the body of the goroutine spawned by NewStream (exactly one per
// stream). It is the only closer of cs.rCh and the only caller of ready.Done.
//@ define reply_body = lastresult("http.RoundTripper.RoundTrip", 0).Body
//@ func (*clientStream).doHttpCall
//@   locks_only[C05] &cs.rMu
//@   requires wg_count(&cs.ready) == 1
//@   requires !closed(cs.rCh) && cs.rCh != nil
//@   requires !held(&cs.rMu)
//@   sole_closer cs.rCh
//@   alloc_bound[C07] maxMessageSize
//@   blocking_escape[C05,C04] cs.ctx
//@   loop loop#1 invariant[C05] rErr == nil && !rMuHeld && !held(&cs.rMu) && wg_count(&cs.ready) == 0 && !closed(cs.rCh)
//@   loop loop#1 invariant[C03,C02] the_trailer_frame_ends_the_loop: !called(readProtoMessage) && !called("(*internal.CallOptions).SetTrailers")
//@   ensures[C05] ready_released_exactly_once: wg_count(&cs.ready) == 0
//@   ensures[C05] stream_marked_done_and_closed: cs.done && closed(cs.rCh) && !held(&cs.rMu)
//@   ensures[C07,C02] truncated_response_is_never_a_clean_end: cs.rErr != io.EOF
//@   ensures[C04] never_a_bare_context_error: cs.rErr != context.Canceled && cs.rErr != context.DeadlineExceeded
//@   ensures[C02,C07,C04] success_means_trailer_or_status_seen: cs.rErr == nil && !called("readProtoMessage") ==> cs.tr.Code != 0
//@   assert_call[C13] getPeer : peer_from_reply_tls: arg0 == cs.baseUrl && arg1 == lastresult("http.RoundTripper.RoundTrip", 0).TLS
//@   ensures[C13] peer_options_are_filled_once_the_reply_arrived: lastresult("http.RoundTripper.RoundTrip", 1) == nil && len(cs.copts.Peer) > 0 ==> calls("(*internal.CallOptions).SetPeer") == 1
//@   ensures[C05] the_request_pipe_is_always_released: calls("(*io.PipeReader).CloseWithError") == 1
//@   assert_call[C05] (*io.PipeReader).CloseWithError : with_the_final_error_after_it_was_published: arg0 == readPipe && cs.done
//@   ensures[C05] the_reply_body_is_drained_and_closed: lastresult("http.RoundTripper.RoundTrip", 1) == nil ==> calls("io.ReadCloser.Close") == 1 && called("io.drain")
//@   assert_call[C05] io.ReadCloser.Close : the_reply_body: arg0 == reply_body
//@   assert_call[C03] (*internal.CallOptions).SetHeaders : the_stored_reply_headers_to_the_header_options: arg0 == cs.copts && arg1 == cs.hd && cs.hd == lastresult(asMetadata, 0) && lastresult(asMetadata, 1) == nil && cs.hdErr == nil
//@   assert_call[C02,C14] statFromResponse : of_the_reply_with_its_status_headers_as_received: arg0 == lastresult("http.RoundTripper.RoundTrip", 0) && xstatus(arg0) == at_return("http.RoundTripper.RoundTrip", xstatus(arg0)) && arg0.StatusCode == at_return("http.RoundTripper.RoundTrip", arg0.StatusCode) && len(arg0.Header[grpcDetailsHeader]) == at_return("http.RoundTripper.RoundTrip", len(arg0.Header[grpcDetailsHeader]))
//@   assert_call[C03] statFromResponse : header_options_were_filled_before_any_message: len(lastresult(asMetadata, 0)) > 0 && len(cs.copts.Headers) > 0 ==> calls("(*internal.CallOptions).SetHeaders") == 1
//@   ensures[C03] a_header_decoding_error_is_what_Header_reports: called(asMetadata) ==> cs.hdErr == lastresult(asMetadata, 1)
//@   ensures[C02] a_non_ok_reply_status_leaves_a_non_ok_trailer: called("(*status.Status).Proto") ==> cs.tr.Code != 0
//@   assert_call[C02] io.drain : a_non_ok_reply_status_was_copied_into_the_trailer_whole: called("(*status.Status).Proto") ==> cs.tr.Code == lastresult("(*status.Status).Proto").Code && cs.tr.Message == lastresult("(*status.Status).Proto").Message && cs.tr.Details == lastresult("(*status.Status).Proto").Details
//@   assert_call[C03] io.drain : received_trailers_went_to_the_trailer_options_first: called(readProtoMessage) && len(cs.tr.Metadata) > 0 && len(cs.copts.Trailers) > 0 ==> calls("(*internal.CallOptions).SetTrailers") == 1
//@   assert_call[C03] (*internal.CallOptions).SetTrailers : from_the_received_trailer: arg0 == cs.copts && arg1 == lastresult(metadataFromProto) && lastarg(metadataFromProto, 0) == cs.tr.Metadata
//@   assert_call[C04] http.RoundTripper.RoundTrip : request_carries_stream_context: arg0 == transport
//@   ensures[C09,C03,C13] the_request_goes_out_with_the_headers_it_was_built_with: !called("(http.Header).Set") && !called("(http.Header).Add") && !called("(http.Header).Del")
//@   assert_call[C01,C07] send : delivers_exactly_the_frame_just_read: arg0 == cs.rCh && 0 <= sz && len(arg1) == sz && sz == be32(reply_body, rd_pos(reply_body) - sz - 4) && (forall j int :: 0 <= j && j < sz ==> arg1[j] == rd_at(reply_body, rd_pos(reply_body) - sz + j))
//@   assert_call[C07,C01,C02] readProtoMessage : trailer_size_is_negated_prefix: arg0 == reply_body && arg1 == cs.codec && sz < 0 && (sz > -2147483648 ==> arg2 == 0 - sz) && (sz == -2147483648 ==> arg2 < 0)
//@   modifies everything

// ---- C11: HTTP server gatekeeping (server.go, protocol_versions.go) ----
//
//@ func getUnaryCodec
//@   ensures[C11] proto_only_for_its_content_type: media_type_of(contentType) == "application/x-protobuf" ==> result == registered_codec("proto")
//@   ensures[C11] json_only_for_its_content_type: media_type_of(contentType) == "application/json" ==> result == registered_codec("json")
//@   ensures[C11] anything_else_is_unsupported: media_type_of(contentType) != "application/x-protobuf" && media_type_of(contentType) != "application/json" ==> result == nil
//@   modifies nothing
//
//@ func getStreamingCodec
//@   ensures[C11] proto_only_for_the_stream_content_type: media_type_of(contentType) == "application/x-httpgrpc-proto+v1" ==> result == registered_codec("proto")
//@   ensures[C11] anything_else_is_unsupported: media_type_of(contentType) != "application/x-httpgrpc-proto+v1" ==> result == nil
//@   modifies nothing
//
//@ func writeError
//@   ensures[C11,C14] exactly_one_error_reply: calls(http.Error) == 1
//@   assert_call[C11,C14] http.Error : with_the_given_status: arg0 == w && arg2 == code
//@   modifies everything
//
//@ func drainAndClose
//@   ensures[C11] body_closed_once: calls("io.ReadCloser.Close") == 1
//@   assert_call[C11] io.ReadCloser.Close : arg0 == r
//@   modifies rd_pos(r), external
//
//@ func peerFromRequest
//@   ensures[C13] result != nil && fresh(result)
//@   ensures[C13] remote_address: typeis(result.Addr, "strAddr") && unbox(result.Addr, "strAddr") == r.RemoteAddr
//@   ensures[C13] tls_reported: (r.TLS != nil) <==> (result.AuthInfo != nil)
//@   ensures[C13] tls_state: r.TLS != nil ==> typeis(result.AuthInfo, "credentials.TLSInfo") && unbox(result.AuthInfo, "credentials.TLSInfo").State == *r.TLS
//@   modifies nothing
//
// The handler installed for a unary method. H = the registered method handler.
//@ define unary_reject_status(method, codec_ok, hdr_ok) = ite(method != "POST", 405, ite(!codec_ok, 415, ite(!hdr_ok, 400, 499)))
//@ closure handleMethod.return
//@   ensures[C11] handler_runs_at_most_once: calls("grpc.MethodDesc.Handler") <= 1
//@   ensures[C11] handler_only_for_valid_requests: called("grpc.MethodDesc.Handler") ==> old(r.Method) == "POST" && called(getUnaryCodec) && lastresult(getUnaryCodec) != nil && called(contextFromHeaders) && lastresult(contextFromHeaders, 2) == nil && called("ioutil.ReadAll") && lastresult("ioutil.ReadAll", 1) == nil
//@   ensures[C11] rejected_with_exactly_one_error_reply: !called("grpc.MethodDesc.Handler") ==> calls(writeError) == 1 && !called("http.ResponseWriter.Write")
//@   ensures[C11] not_post_is_405_with_allow: old(r.Method) != "POST" ==> !called("grpc.MethodDesc.Handler") && lastarg(writeError, 1) == 405 && called("(http.Header).Set") && lastarg("(http.Header).Set", 1) == "Allow" && lastarg("(http.Header).Set", 2) == "POST" && lastarg("(http.Header).Set", 0) == resp_header(w)
//@   ensures[C11] post_is_checked_for_media_type: old(r.Method) == "POST" ==> called(getUnaryCodec)
//@   ensures[C11] unsupported_media_type_is_415: called(getUnaryCodec) && lastresult(getUnaryCodec) == nil ==> !called("grpc.MethodDesc.Handler") && lastarg(writeError, 1) == 415
//@   ensures[C11] supported_media_type_checks_headers: called(getUnaryCodec) && lastresult(getUnaryCodec) != nil ==> called(contextFromHeaders)
//@   ensures[C11] undecodable_headers_are_400: called(contextFromHeaders) && lastresult(contextFromHeaders, 2) != nil ==> !called("grpc.MethodDesc.Handler") && lastarg(writeError, 1) == 400
//@   ensures[C11] unreadable_body_is_499: called("ioutil.ReadAll") && lastresult("ioutil.ReadAll", 1) != nil ==> !called("grpc.MethodDesc.Handler") && lastarg(writeError, 1) == 499
//@   ensures[C11] decodable_headers_read_the_body: called(contextFromHeaders) && lastresult(contextFromHeaders, 2) == nil ==> called("ioutil.ReadAll")
//@   ensures[C11] valid_request_reaches_the_handler: called("ioutil.ReadAll") && lastresult("ioutil.ReadAll", 1) == nil ==> calls("grpc.MethodDesc.Handler") == 1
//@   assert_call[C11] getUnaryCodec : of_the_request_content_type: arg0 == hdr1(r.Header, "Content-Type")
//@   assert_call[C11,C03,C09] contextFromHeaders : from_the_request_headers: arg1 == r.Header
//@   assert_call[C13,C10,C04] contextFromHeaders : onto_the_request_context_with_the_peer_attached: (lastresult(peerFromRequest) != nil ==> arg0 == lastresult("peer.NewContext")) && (lastresult(peerFromRequest) == nil ==> arg0 == req_ctx(r))
//@   assert_call[C11] writeError : to_this_response: arg0 == w
//@   assert_call[C11,C16,C12] grpc.MethodDesc.Handler : registered_server_and_transport_interceptor: arg0 == svr && arg3 == unaryInt
//@   assert_call[C16,C12,C10] grpc.NewContextWithServerTransportStream : transport_stream_is_named_slash_service_slash_method: typeis(arg1, "*internal.UnaryServerTransportStream") && unbox(arg1, "*internal.UnaryServerTransportStream").Name == fullMethod
//@   assert_call[C11,C04,C10] grpc.MethodDesc.Handler : context_from_request_with_transport_stream: arg1 == lastresult(grpc.NewContextWithServerTransportStream) && lastarg(grpc.NewContextWithServerTransportStream, 0) == lastresult(contextFromHeaders, 0)
//@   assert_call[C11,C01] grpc.MethodDesc.Handler : decoder_is_the_request_body: isfunc(arg2, "handleMethod.return.dec") && *binding(arg2, 0, "*encoding.Codec") == lastresult(getUnaryCodec) && *binding(arg2, 1, "*[]byte") == lastresult("ioutil.ReadAll", 0)
//@   assert_call[C13] peer.NewContext : peer_of_the_request: arg1 == lastresult(peerFromRequest) && arg0 == req_ctx(r)
//@   ensures[C03] handler_headers_and_trailers_copied: called("grpc.MethodDesc.Handler") ==> calls(toHeaders) == 2
//@   assert_call[C01,C11] (http.Header).Set : only_the_protocol_headers_with_their_values: arg1 == "Allow" || (arg1 == "X-GRPC-Status" && arg2 == fmt_code_msg(statProto.Code, statProto.Message)) || (arg1 == "Content-Type" && arg2 == contentType) || (arg1 == "Content-Length" && arg2 == fmt_d(len(b)) && lastarg("(http.Header).Set", 1) == "Content-Type")
//@   assert_call[C01,C11,C08] http.ResponseWriter.Write : the_marshalled_response_after_type_and_length: arg1 == lastresult("encoding.Codec.Marshal", 0) && called("(http.Header).Set") && lastarg("(http.Header).Set", 1) == "Content-Length"
//@   ensures[C02,C14] failure_goes_to_the_error_renderer_once: called("grpc.MethodDesc.Handler") && lastresult("grpc.MethodDesc.Handler", 1) != nil ==> calls("var:errHandler") == 1 && !called("http.ResponseWriter.Write") && !called(writeError)
//@   ensures[C02,C08] success_writes_the_response_once: called("grpc.MethodDesc.Handler") && lastresult("grpc.MethodDesc.Handler", 1) == nil ==> !called("var:errHandler") && ((lastresult("encoding.Codec.Marshal", 1) != nil ==> calls(writeError) == 1 && lastarg(writeError, 1) == 500 && !called("http.ResponseWriter.Write")) && (lastresult("encoding.Codec.Marshal", 1) == nil ==> calls("http.ResponseWriter.Write") == 1 && !called(writeError) && lastarg("http.ResponseWriter.Write", 1) == lastresult("encoding.Codec.Marshal", 0)))
//@   assert_call[C02,C14] var:errHandler : with_request_context_and_nonzero_code: arg0 == req_ctx(r) && arg2 == w && status_code(arg1) != 0
//@   assert_call[C04,C02] var:errHandler : a_handlers_context_error_has_the_matching_code: (lastresult("grpc.MethodDesc.Handler", 1) == context.DeadlineExceeded ==> status_code(arg1) == 4) && (lastresult("grpc.MethodDesc.Handler", 1) == context.Canceled ==> status_code(arg1) == 1)
//@   assert_call[C02] (http.Header).Set : the_status_message_survives_the_header: arg1 == "X-GRPC-Status" ==> header_value_safe(statProto.Message)
//@   assert_call[C04,C02] (http.Header).Set : status_header_of_a_handlers_context_error_has_the_matching_code: arg1 == "X-GRPC-Status" ==> (lastresult("grpc.MethodDesc.Handler", 1) == context.DeadlineExceeded ==> statProto.Code == 4) && (lastresult("grpc.MethodDesc.Handler", 1) == context.Canceled ==> statProto.Code == 1)
//@   assert_call[C02] encoding.Codec.Marshal : same_codec_as_the_request: arg0 == lastresult(getUnaryCodec)
//@   ensures[C11] request_body_drained_and_closed: calls(drainAndClose) == 1
//@   modifies everything
//
//@ closure handleMethod.return.dec
//@   ensures[C11,C01] decodes_with_the_request_codec: calls("encoding.Codec.Unmarshal") == 1
//@   assert_call[C11,C01] encoding.Codec.Unmarshal : request_bytes_into_the_handlers_message: arg0 == codec && arg1 == req && arg2 == msg
//@   ensures[C11] undecodable_request_is_invalid_argument: lastresult("encoding.Codec.Unmarshal") != nil ==> is_status_err(result) && err_status_code(result) == 3
//@   ensures[C11] decodable_request_is_nil: lastresult("encoding.Codec.Unmarshal") == nil ==> result == nil
//@   modifies external
//
// The handler installed for a streaming method.
//@ define stream_handler_ran = called("grpc.StreamDesc.Handler") || called("var:streamInt")
//@ closure handleStream.return
//@   ensures[C11,C16] handler_or_interceptor_runs_at_most_once: calls("grpc.StreamDesc.Handler") + calls("var:streamInt") <= 1
//@   ensures[C11] handler_only_for_valid_requests: stream_handler_ran ==> old(r.Method) == "POST" && called(getStreamingCodec) && lastresult(getStreamingCodec) != nil && called(contextFromHeaders) && lastresult(contextFromHeaders, 2) == nil
//@   ensures[C11] rejected_with_exactly_one_error_reply: !stream_handler_ran ==> calls(writeError) == 1 && !called(writeProtoMessage)
//@   ensures[C11] not_post_is_405_with_allow: old(r.Method) != "POST" ==> !stream_handler_ran && lastarg(writeError, 1) == 405 && called("(http.Header).Set") && lastarg("(http.Header).Set", 1) == "Allow" && lastarg("(http.Header).Set", 2) == "POST"
//@   ensures[C11] post_is_checked_for_media_type: old(r.Method) == "POST" ==> called(getStreamingCodec)
//@   ensures[C11] unsupported_media_type_is_415: called(getStreamingCodec) && lastresult(getStreamingCodec) == nil ==> !stream_handler_ran && lastarg(writeError, 1) == 415
//@   ensures[C11] supported_media_type_checks_headers: called(getStreamingCodec) && lastresult(getStreamingCodec) != nil ==> called(contextFromHeaders)
//@   ensures[C11] undecodable_headers_are_400: called(contextFromHeaders) && lastresult(contextFromHeaders, 2) != nil ==> !stream_handler_ran && lastarg(writeError, 1) == 400
//@   ensures[C11] valid_request_reaches_the_handler: called(contextFromHeaders) && lastresult(contextFromHeaders, 2) == nil ==> calls("grpc.StreamDesc.Handler") + calls("var:streamInt") == 1
//@   ensures[C16] transport_interceptor_takes_precedence: stream_handler_ran ==> (called("var:streamInt") <==> old(streamInt) != nil)
//@   assert_call[C11] getStreamingCodec : of_the_request_content_type: arg0 == hdr1(r.Header, "Content-Type")
//@   assert_call[C11,C03,C09] contextFromHeaders : from_the_request_headers: arg1 == r.Header
//@   assert_call[C13,C10,C04] contextFromHeaders : onto_the_request_context_with_the_peer_attached: (lastresult(peerFromRequest) != nil ==> arg0 == lastresult("peer.NewContext")) && (lastresult(peerFromRequest) == nil ==> arg0 == req_ctx(r))
//@   assert_call[C16,C12] var:streamInt : server_stream_info_and_registered_handler: arg0 == svr && typeis(arg1, "*serverStream") && unbox(arg1, "*serverStream") == str && arg2 == info && arg3 == desc.Handler
//@   assert_call[C11] var:streamInt : reply_content_type_is_set_before_the_handler_runs: called("(http.Header).Set") && lastarg("(http.Header).Set", 1) == "Content-Type" && lastarg("(http.Header).Set", 2) == contentType
//@   assert_call[C11] grpc.StreamDesc.Handler : reply_content_type_is_set_before_the_handler_runs: called("(http.Header).Set") && lastarg("(http.Header).Set", 1) == "Content-Type" && lastarg("(http.Header).Set", 2) == contentType
//@   assert_call[C16,C12] grpc.StreamDesc.Handler : server_and_stream: arg0 == svr && typeis(arg1, "*serverStream") && unbox(arg1, "*serverStream") == str
//@   assert_call[C11,C01] var:streamInt : stream_is_bound_to_this_exchange: str.r == r && str.w == w && str.codec == lastresult(getStreamingCodec) && str.respStream == desc.ClientStreams && !str.headersSent && !str.writeFailed && str.recvd == 0
//@   assert_call[C11,C01] grpc.StreamDesc.Handler : stream_is_bound_to_this_exchange: str.r == r && str.w == w && str.codec == lastresult(getStreamingCodec) && str.respStream == desc.ClientStreams && !str.headersSent && !str.writeFailed && str.recvd == 0
//@   assert_call[C13] peer.NewContext : peer_of_the_request: arg1 == lastresult(peerFromRequest) && arg0 == req_ctx(r)
//@   ensures[C11,C02,C04] exactly_one_trailer_frame_unless_the_write_failed: stream_handler_ran && !str.writeFailed ==> calls(writeProtoMessage) == 1
//@   ensures[C11] nothing_after_a_failed_write: stream_handler_ran && str.writeFailed ==> !called(writeProtoMessage)
//@   assert_call[C11,C02] writeProtoMessage : is_the_final_frame_of_this_reply: arg0 == w && arg1 == lastresult(getStreamingCodec) && arg3 && typeis(arg2, "*HttpTrailer") && unbox(arg2, "*HttpTrailer") == &tr
//@   assert_call[C02] writeProtoMessage : success_has_code_zero: err == nil ==> tr.Code == 0
//@   assert_call[C05] writeProtoMessage : the_final_status_does_not_wait_for_the_clients_request_body: rd_avail(r.Body) <= 0 || called("(*http.ResponseController).EnableFullDuplex")
//@   assert_call[C02] writeProtoMessage : failure_has_nonzero_code: err != nil ==> tr.Code != 0
//@   assert_call[C02] writeProtoMessage : failure_carries_the_handlers_status: err != nil && is_status_err(err) && 0 < err_status_code(err) && err_status_code(err) <= 2147483647 ==> tr.Code == err_status_code(err) && (valid_utf8(err_status_msg(err)) ==> tr.Message == err_status_msg(err)) && tr.Details == err_status_details(err)
//@   assert_call[C02] writeProtoMessage : the_status_message_can_be_carried_by_the_frame: valid_utf8(tr.Message)
//@   assert_call[C04,C02] writeProtoMessage : a_handlers_context_error_has_the_matching_code: (err == context.DeadlineExceeded ==> tr.Code == 4) && (err == context.Canceled ==> tr.Code == 1)
//@   assert_call[C03] asTrailerProto : trailer_values_can_be_carried_by_the_frame: md_values_valid_utf8(arg0)
//@   assert_call[C03] writeProtoMessage : trailer_metadata_is_what_the_handler_set: tr.Metadata == lastresult(asTrailerProto) && lastarg(asTrailerProto, 0) == lastresult("metadata.Join") && lastarg("metadata.Join", 0) == str.tr
//@   ensures[C11] request_body_drained_and_closed: calls(drainAndClose) == 1
//@   modifies everything

// ---- Channel.Invoke / Channel.NewStream (client.go): C13, C12, C04, C02 ----
//
// The goroutine of a unary call: reads the whole reply body, closes it, and signals
// completion by closing respCh exactly once (C05: nothing is left open, nobody waits forever).
//@ closure (*Channel).Invoke.go#1
//@   requires respCh != nil && !closed(respCh)
//@   sole_closer respCh
//@   ensures[C05] completion_is_signalled_exactly_once: closed(respCh)
//@   assert_call[C02,C01] io.ReadCloser.Close : the_read_outcome_is_left_in_the_callers_variables: b$captured == lastresult("ioutil.ReadAll", 0) && err$captured == lastresult("ioutil.ReadAll", 1)
//@   ensures[C05,C01] reads_the_whole_reply_body_once_and_closes_it: calls("ioutil.ReadAll") == 1 && calls("io.ReadCloser.Close") == 1
//@   assert_call[C01] ioutil.ReadAll : of_the_reply_body: arg0 == reply.Body
//@   assert_call[C05] io.ReadCloser.Close : the_reply_body_after_reading: arg0 == reply.Body && called("ioutil.ReadAll")
//@   modifies everything
//
//@ func (*Channel).Invoke
//@   assert_call[C13] internal.ApplyPerRPCCreds : credentials_checked_against_the_url_scheme: arg0 == ctx$entry && arg1 == lastresult("internal.GetCallOptions") && arg2 == lastresult("(*url.URL).String") && (arg3 <==> reqUrl.Scheme == "https") && reqUrl.Scheme == old(ch.BaseURL.Scheme)
//@   ensures[C13] credential_failure_sends_nothing: called("internal.ApplyPerRPCCreds") && lastresult("internal.ApplyPerRPCCreds", 1) != nil ==> result == lastresult("internal.ApplyPerRPCCreds", 1) && !called("http.RoundTripper.RoundTrip") && !called("go")
//@   assert_call[C13,C03,C09] headersFromContext : from_the_credentialed_context: arg0 == lastresult("internal.ApplyPerRPCCreds", 0)
//@   assert_call[C12] (*url.URL).String : the_method_name_is_appended_to_the_base_path_verbatim: arg0.Path == trim_suffix(path_join2("/", old(ch.BaseURL.Path)), "/") + "/" + trim_prefix(methodName$entry, "/")
//@   assert_call[C12,C01] http.NewRequest : post_to_the_joined_url: arg0 == "POST" && arg1 == lastresult("(*url.URL).String")
//@   assert_call[C01] encoding.Codec.Marshal : the_request_message: arg1 == req
//@   assert_call[C04,C13] http.RoundTripper.RoundTrip : through_the_configured_transport: arg0 == ch.Transport
//@   assert_call[C04] (*http.Request).WithContext : request_is_bound_to_the_call_context: arg0 == lastresult("http.NewRequest", 0) && arg1 == lastresult("internal.ApplyPerRPCCreds", 0)
//@   ensures[C04] transport_error_is_translated: called("http.RoundTripper.RoundTrip") && lastresult("http.RoundTripper.RoundTrip", 1) != nil ==> called(statusFromContextError) && result == lastresult(statusFromContextError) && lastarg(statusFromContextError, 0) == lastresult("http.RoundTripper.RoundTrip", 1)
//@   assert_call[C13] getPeer : peer_reports_the_connection_tls_state: arg0 == ch.BaseURL && arg1 == lastresult("http.RoundTripper.RoundTrip", 0).TLS
//@   assert_call[C03] setMetadata : from_the_reply_headers: arg0 == lastresult("http.RoundTripper.RoundTrip", 0).Header && arg1 == lastresult("internal.GetCallOptions")
//@   ensures[C13] peer_options_are_filled_once_the_reply_arrived: called(statFromResponse) && len(lastresult("internal.GetCallOptions").Peer) > 0 ==> calls("(*internal.CallOptions).SetPeer") == 1
//@   ensures[C03] header_and_trailer_options_are_filled_from_the_reply: called(statFromResponse) && (len(lastresult("internal.GetCallOptions").Headers) > 0 || len(lastresult("internal.GetCallOptions").Trailers) > 0) ==> calls(setMetadata) == 1
//@   assert_call[C13] (*internal.CallOptions).SetPeer : the_peer_of_this_reply: arg0 == lastresult("internal.GetCallOptions") && arg1 == lastresult(getPeer)
//@   assert_call[C02,C14] statFromResponse : of_the_reply: arg0 == lastresult("http.RoundTripper.RoundTrip", 0)
//@   assert_call[C02,C14] statFromResponse : status_header_is_still_as_received: xstatus(arg0) == at_return("http.RoundTripper.RoundTrip", xstatus(arg0))
//@   assert_call[C02,C14] statFromResponse : http_status_is_still_as_received: arg0.StatusCode == at_return("http.RoundTripper.RoundTrip", arg0.StatusCode)
//@   assert_call[C02] statFromResponse : detail_headers_are_still_as_received: len(arg0.Header[grpcDetailsHeader]) == at_return("http.RoundTripper.RoundTrip", len(arg0.Header[grpcDetailsHeader]))
//@   ensures[C02,C14] non_ok_status_is_returned: called(statFromResponse) && status_code(lastresult(statFromResponse)) != 0 ==> result != nil
//@   ensures[C02] success_needs_ok_status_and_decoded_body: result == nil ==> called(statFromResponse) && status_code(lastresult(statFromResponse)) == 0 && called("encoding.Codec.Unmarshal") && lastresult("encoding.Codec.Unmarshal") == nil
//@   assert_call[C01] encoding.Codec.Unmarshal : into_the_callers_response: arg2 == resp
//@   ensures[C04] a_failed_read_of_the_reply_body_is_never_a_bare_context_error: called("go") && !called("encoding.Codec.Unmarshal") && !(called(setMetadata) && lastresult(setMetadata) != nil) ==> result != context.Canceled && result != context.DeadlineExceeded
//@   blocking_escape[C05,C04] ctx
//@   modifies everything
//
//@ func newClientStream
//@   ensures[C05,C01] result != nil && fresh(result) && result.ctx == ctx && result.copts == copts && result.baseUrl == baseUrl && result.w == w && result.respStream == recvStream && result.codec == registered_codec("proto")
//@   ensures[C05] ready_armed_once_and_channel_open: wg_count(&result.ready) == 1 && result.rCh != nil && !closed(result.rCh) && !held(&result.rMu) && !result.done
//@   ensures[C20,C05] unbuffered_delivery_channel: chcap(result.rCh) == 0
//@   modifies nothing
//
//@ func (*Channel).NewStream
//@   assert_call[C13] internal.ApplyPerRPCCreds : credentials_checked_against_the_url_scheme: arg0 == ctx$entry && arg1 == lastresult("internal.GetCallOptions") && arg2 == lastresult("(*url.URL).String") && (arg3 <==> reqUrl.Scheme == "https") && reqUrl.Scheme == old(ch.BaseURL.Scheme)
//@   ensures[C13] credential_failure_sends_nothing: called("internal.ApplyPerRPCCreds") && lastresult("internal.ApplyPerRPCCreds", 1) != nil ==> result1 == lastresult("internal.ApplyPerRPCCreds", 1) && result0 == nil && !called("go") && !called("context.WithCancel")
//@   assert_call[C04] context.WithCancel : child_of_the_credentialed_context: arg0 == lastresult("internal.ApplyPerRPCCreds", 0)
//@   assert_call[C13,C03,C09] headersFromContext : from_the_call_context: arg0 == lastresult("context.WithCancel", 0)
//@   assert_call[C12] (*url.URL).String : the_method_name_is_appended_to_the_base_path_verbatim: arg0.Path == trim_suffix(path_join2("/", old(ch.BaseURL.Path)), "/") + "/" + trim_prefix(methodName$entry, "/")
//@   assert_call[C12,C01] http.NewRequest : post_to_the_joined_url: arg0 == "POST" && arg1 == lastresult("(*url.URL).String")
//@   ensures[C05] request_error_cancels_and_spawns_nothing: called("http.NewRequest") && lastresult("http.NewRequest", 1) != nil ==> calls("context.CancelFunc") == 1 && !called("go") && result0 == nil && result1 == lastresult("http.NewRequest", 1)
//@   assert_call[C05,C04,C13] newClientStream : stream_owns_the_call_context_and_options: arg0 == lastresult("context.WithCancel", 0) && arg1 == lastresult("context.WithCancel", 1) && arg2 == boxed(lastresult("io.Pipe", 1)) && arg3 == desc.ServerStreams && arg4 == lastresult("internal.GetCallOptions") && arg5 == ch.BaseURL
//@   ensures[C05,C01] exactly_one_reader_goroutine_per_stream: result1 == nil ==> calls("go") == 1 && result0 != nil
//@   assert_call[C05,C04,C12] go:(*clientStream).doHttpCall : the_stream_reader_with_this_request: arg0 == lastresult(newClientStream) && arg1 == ch.Transport && arg2 == lastresult("http.NewRequest", 0) && arg3 == lastresult("io.Pipe", 0)
//@   modifies everything

// ---- clientStream methods (client.go): C02, C08, C05, C03, C04 ----
//
//@ func (*clientStream).readErrorIfDone
//@   locks_only[C05] &cs.rMu
//@   ensures[C02] not_done_no_verdict: !result0 ==> result1 == nil
//@   ensures[C05] not_done_means_delivery_channel_still_open: !result0 ==> !closed(cs.rCh)
//@   ensures[C02] done_never_reports_nil: result0 ==> result1 != nil
//@   ensures[C02,C07,C04] verdict_is_reportable: result1 != context.Canceled && result1 != context.DeadlineExceeded
//@   assert_call[C02] status.FromProto : status_from_the_trailer: arg0.Code == cs.tr.Code && arg0.Message == cs.tr.Message && arg0.Details == cs.tr.Details && cs.tr.Code != 0 && cs.rErr == nil && cs.done
//@   ensures[C02] end_of_stream_only_for_an_ok_trailer: result0 && result1 == io.EOF ==> !called("status.FromProto")
//@   modifies nothing
//
//@ func (*clientStream).Trailer
//@   locks_only[C05] &cs.rMu
//@   ensures[C03] no_trailers_before_the_end: !called(metadataFromProto) ==> result == nil
//@   assert_call[C03] metadataFromProto : of_the_received_trailer_once_done: arg0 == cs.tr.Metadata && cs.done
//@   modifies nothing
//
//@ func (*clientStream).CloseSend
//@   locks_only[C05] &cs.wMu, &cs.rMu
//@   ensures[C05] closes_the_request_pipe_once: calls("io.WriteCloser.Close") == 1
//@   assert_call[C05] io.WriteCloser.Close : arg0 == cs.w
//@   modifies external
//
//@ func (*clientStream).SendMsg
//@   locks_only[C05] &cs.wMu, &cs.rMu
//@   ensures[C05] finished_stream_reports_eof_and_writes_nothing: lastresult("(*clientStream).readErrorIfDone", 0) ==> result == io.EOF && !called(writeProtoMessage)
//@   ensures[C01,C05] at_most_one_frame_per_send: calls(writeProtoMessage) <= 1
//@   ensures[C01] write_result_is_returned_and_remembered: called(writeProtoMessage) ==> result == lastresult(writeProtoMessage)
//@   ensures[C05] earlier_write_error_reports_eof: !lastresult("(*clientStream).readErrorIfDone", 0) && !called(writeProtoMessage) ==> result == io.EOF
//@   assert_call[C01] writeProtoMessage : one_data_frame_for_the_message: arg0 == cs.w && arg1 == cs.codec && arg2 == m && !arg3 && cs.wErr == nil
//@   modifies cs.wErr, external
//
//@ func (*clientStream).RecvMsg
//@   locks_only[C05] &cs.rMu
//@   blocking_escape[C05,C04] cs.ctx
//@   ensures[C04] context_end_is_reported_as_status: called(statusFromContextError) ==> result == lastresult(statusFromContextError)
//@   assert_call[C04] statusFromContextError : of_the_stream_context_error: arg0 == lastresult("context.Context.Err")
//@   assert_call[C01] encoding.Codec.Unmarshal : into_the_callers_message: arg0 == cs.codec && arg2 == m
//@   ensures[C01] at_most_one_message_decoded_per_receive: calls("encoding.Codec.Unmarshal") <= 1
//@   ensures[C08,C01] success_delivered_a_message: result == nil ==> calls("encoding.Codec.Unmarshal") == 1 && lastresult("encoding.Codec.Unmarshal") == nil
//@   ensures[C08,C02,C07] single_response_success_saw_a_clean_end: result == nil && !cs.respStream ==> calls("(*clientStream).readErrorIfDone") == 2 && lastresult("(*clientStream).readErrorIfDone", 0) && lastresult("(*clientStream).readErrorIfDone", 1) == io.EOF
//@   ensures[C05,C08] an_extra_response_ends_the_stream_and_releases_the_reader: called("status.Error") && called("encoding.Codec.Unmarshal") && lastresult("encoding.Codec.Unmarshal") == nil ==> cs.done && calls("context.CancelFunc") == 1 && result == cs.rErr && result != nil
//@   ensures[C08,C02] undecodable_message_is_internal: called("encoding.Codec.Unmarshal") && lastresult("encoding.Codec.Unmarshal") != nil ==> is_status_err(result) && err_status_code(result) == 13
//@   modifies cs.rErr, cs.done, external

// ---- C12: route registration (server.go) ----
//
//@ func handleMethod
//@   ensures[C12,C16] result != nil && isfunc(result, "handleMethod.return")
//@   ensures[C16,C12,C10] full_method_name_is_slash_service_slash_method: fullMethod == "/" + serviceName + "/" + desc.MethodName
//@   modifies nothing
//@ func handleStream
//@   ensures[C12,C16] result != nil && isfunc(result, "handleStream.return")
//@   ensures[C16,C12] stream_info_names_slash_service_slash_stream: info.FullMethod == "/" + serviceName + "/" + desc.StreamName && info.IsClientStream == desc.ClientStreams && info.IsServerStream == desc.ServerStreams
//@   modifies nothing
//
//@ func (*Server).RegisterService
//@   requires desc != nil && s.handlers != nil
//@   on_panic ensures[C15] a_refused_registration_leaves_earlier_ones_intact: forall k string :: has(s.handlers, k) == old(has(s.handlers, k)) && s.handlers[k] == old(s.handlers[k])
//@   assert_call[C15,C12] (grpchan.HandlerMap).RegisterService : registry_first_so_a_refused_registration_adds_no_route: arg0 == s.handlers && arg1 == desc && arg2 == svr && !called("(*http.ServeMux).HandleFunc")
//@   assert_call[C12,C16] handleMethod : per_method_copy_with_the_servers_interceptor: arg0 == svr && arg1 == desc.ServiceName && fresh(arg2) && arg2.MethodName == desc.Methods[rangeindex].MethodName && arg2.Handler == desc.Methods[rangeindex].Handler && arg3 == s.unaryInt && arg4 == &s.opts
//@   assert_call[C12,C16] handleStream : per_stream_copy_with_the_servers_interceptor: arg0 == svr && arg1 == desc.ServiceName && fresh(arg2) && arg2.StreamName == desc.Streams[rangeindex#2].StreamName && arg2.Handler == desc.Streams[rangeindex#2].Handler && arg2.ClientStreams == desc.Streams[rangeindex#2].ClientStreams && arg2.ServerStreams == desc.Streams[rangeindex#2].ServerStreams && arg3 == s.streamInt && arg4 == &s.opts
//@   assert_call[C12] (*http.ServeMux).HandleFunc : route_is_base_path_joined_with_service_slash_method: arg0 == &s.mux && (!called(handleStream) ==> arg2 == lastresult(handleMethod) && arg1 == path_join2(s.basePath, fmt_slash2(desc.ServiceName, desc.Methods[rangeindex].MethodName))) && (called(handleStream) ==> arg2 == lastresult(handleStream) && arg1 == path_join2(s.basePath, fmt_slash2(desc.ServiceName, desc.Streams[rangeindex#2].StreamName)))
//@   loop loop#1 invariant[C12] one_route_per_method_so_far: calls("(*http.ServeMux).HandleFunc") == rangeindex + 1 && calls(handleMethod) == rangeindex + 1 && !called(handleStream)
//@   loop loop#2 invariant[C12] one_route_per_stream_so_far: calls(handleStream) == rangeindex#2 + 1 && calls("(*http.ServeMux).HandleFunc") == len(desc.Methods) + rangeindex#2 + 1
//@   ensures[C12] one_route_per_method_and_stream: calls("(*http.ServeMux).HandleFunc") == len(desc.Methods) + len(desc.Streams)
//@   modifies everything
//
//@ func (*Server).GetServiceInfo
//@   requires registry_keys_are_service_names: forall k string :: has(s.handlers, k) ==> s.handlers[k].desc != nil && s.handlers[k].desc.ServiceName == k
//@   ensures[C15] delegates_to_the_registry: calls("(grpchan.HandlerMap).GetServiceInfo") == 1 && result == lastresult("(grpchan.HandlerMap).GetServiceInfo")
//@   assert_call[C15] (grpchan.HandlerMap).GetServiceInfo : arg0 == s.handlers
//@   modifies nothing
//
//@ closure HandleServices.arg#1
//@   assert_call[C12,C16] handleMethod : per_method_copy_with_the_given_interceptor: arg0 == svr && arg1 == desc.ServiceName && fresh(arg2) && arg2.MethodName == desc.Methods[rangeindex].MethodName && arg2.Handler == desc.Methods[rangeindex].Handler && arg3 == unaryInt && arg4 == &hOpts
//@   assert_call[C12,C16] handleStream : per_stream_copy_with_the_given_interceptor: arg0 == svr && arg1 == desc.ServiceName && fresh(arg2) && arg2.StreamName == desc.Streams[rangeindex#2].StreamName && arg2.Handler == desc.Streams[rangeindex#2].Handler && arg2.ClientStreams == desc.Streams[rangeindex#2].ClientStreams && arg2.ServerStreams == desc.Streams[rangeindex#2].ServerStreams && arg3 == streamInt
//@   assert_call[C12] var:mux : route_is_base_path_joined_with_service_slash_method: (!called(handleStream) ==> arg1 == lastresult(handleMethod) && arg0 == path_join2(basePath, fmt_slash2(desc.ServiceName, desc.Methods[rangeindex].MethodName))) && (called(handleStream) ==> arg1 == lastresult(handleStream) && arg0 == path_join2(basePath, fmt_slash2(desc.ServiceName, desc.Streams[rangeindex#2].StreamName)))
//@   modifies everything
//
//@ func HandleServices
//@   ensures[C12] every_registration_is_visited: calls("(grpchan.HandlerMap).ForEach") == 1
//@   assert_call[C12] (grpchan.HandlerMap).ForEach : over_the_given_registry: arg0 == reg && isfunc(arg1, "HandleServices.arg#1")
//@   modifies everything

// ---- public entry points and thin wrappers ----
//
//@ func HandleMethod
//@   loop loop#1 invariant[C12,C14] every_option_so_far_applied_to_the_handler_options: calls("httpgrpc.HandlerOption") == rangeindex + 1
//@   assert_call[C12,C14] httpgrpc.HandlerOption : applied_to_this_handlers_options: arg0 == &hOpts
//@   assert_call[C12,C16,C11] handleMethod : for_the_given_service_method_and_interceptor: arg0 == svr && arg1 == serviceName && arg2 == desc && arg3 == unaryInt && arg4 == &hOpts && calls("httpgrpc.HandlerOption") == len(opts)
//@   ensures[C12,C11] result == lastresult(handleMethod) && calls(handleMethod) == 1
//@   modifies everything
//
//@ func HandleStream
//@   loop loop#1 invariant[C12,C14] every_option_so_far_applied_to_the_handler_options: calls("httpgrpc.HandlerOption") == rangeindex + 1
//@   assert_call[C12,C14] httpgrpc.HandlerOption : applied_to_this_handlers_options: arg0 == &hOpts
//@   assert_call[C12,C16,C11] handleStream : for_the_given_service_stream_and_interceptor: arg0 == svr && arg1 == serviceName && arg2 == desc && arg3 == streamInt && arg4 == &hOpts && calls("httpgrpc.HandlerOption") == len(opts)
//@   ensures[C12,C11] result == lastresult(handleStream) && calls(handleStream) == 1
//@   modifies everything
//
//@ func NewServer
//@   ensures[C12] result != nil && fresh(result)
//@   loop loop#1 invariant[C12] root_base_path_and_an_empty_registry_until_an_option_says_otherwise: rangeindex == -1 ==> s.basePath == "/" && s.handlers != nil
//@   ensures[C12] defaults_without_options: len(opts) == 0 ==> result.basePath == "/" && result.handlers != nil
//@   loop loop#1 invariant[C12,C16] every_option_so_far_applied_once: calls("httpgrpc.ServerOption.apply") == rangeindex + 1
//@   assert_call[C12,C16] httpgrpc.ServerOption.apply : option_in_order_on_the_new_server: arg0 == opts[rangeindex] && arg1 == &s
//@   ensures[C12,C16] all_options_applied: calls("httpgrpc.ServerOption.apply") == len(opts)
//@   modifies everything
//
//@ func (serverOptFunc).apply
//@   ensures[C12,C16] runs_the_option_once_on_the_server: calls("var:fn") == 1
//@   assert_call[C12,C16] var:fn : arg0 == s
//@   modifies everything
//
//@ func (HandlerOption).apply
//@   ensures[C14] runs_the_option_once_on_the_servers_handler_options: calls("var:ho") == 1
//@   assert_call[C14] var:ho : arg0 == &s.opts
//@   modifies everything
//
//@ func (*Server).ServeHTTP
//@   ensures[C11,C12] dispatches_through_the_servers_own_mux_once: calls("(*http.ServeMux).ServeHTTP") == 1
//@   assert_call[C11,C12] (*http.ServeMux).ServeHTTP : arg0 == &s.mux && arg1 == w && arg2 == r
//@   modifies everything
//
//@ func (*clientStream).Context
//@   ensures[C04,C10] result == cs.ctx
//@   modifies nothing
//
//@ func (*serverStream).Context
//@   ensures[C04,C10] result == s.ctx
//@   modifies nothing
//
//@ func (*serverStream).SetHeader
//@   ensures[C03] sets_without_sending: calls("(*serverStream).setHeader") == 1 && result == lastresult("(*serverStream).setHeader")
//@   assert_call[C03] (*serverStream).setHeader : arg0 == s && arg1 == md && !arg2
//@   modifies s.headersSent, external, maps("http.Header")
//
//@ func (*serverStream).SendHeader
//@   ensures[C03] sets_and_sends: calls("(*serverStream).setHeader") == 1 && result == lastresult("(*serverStream).setHeader")
//@   assert_call[C03] (*serverStream).setHeader : arg0 == s && arg1 == md && arg2
//@   modifies s.headersSent, external, maps("http.Header")
//
// Header(): blocks until the reader goroutine has seen the reply headers (or failed),
// then reports what it stored.
//@ func (*clientStream).Header
//@   ensures[C03] reports_the_stored_headers_after_waiting: calls("(*sync.WaitGroup).Wait") == 1
//@   assert_call[C03,C05] (*sync.WaitGroup).Wait : on_the_streams_ready_group: arg0 == &cs.ready

// ---- server options: each constructor's closure stores exactly its argument ----
//@ closure WithBasePath.iface#1
//@   ensures[C12] s.basePath == path
//@   modifies s.basePath
//@ closure WithServerUnaryInterceptor.iface#1
//@   ensures[C16] s.unaryInt == interceptor
//@   modifies s.unaryInt
//@ closure WithServerStreamInterceptor.iface#1
//@   ensures[C16] s.streamInt == interceptor
//@   modifies s.streamInt
//@ closure ErrorRenderer.return
//@   ensures[C14] h.errFunc == errFunc
//@   modifies h.errFunc

//@ func (strAddr).Network
//@   ensures[C13] a_known_remote_address_is_tcp: (a != "" ==> result == "tcp") && (a == "" ==> result == "")
//@   modifies nothing
