//go:build verif

// Contracts for package grpchan (server.go, intercept.go), read by
// /verif/engine (govc). Comment-only; compiled only with the `verif` tag.

package grpchan

// ---- C15 / C12: HandlerMap ----
//
//@ func (HandlerMap).QueryService
//@   ensures[C12,C15] registered_pair: has(m, name) ==> result0 == m[name].desc && result1 == m[name].handler
//@   ensures[C12,C15] unknown_is_nil: !has(m, name) ==> result0 == nil && result1 == nil
//@   modifies nothing
//
//@ func (HandlerMap).RegisterService
//@   requires m != nil && desc != nil
//@   panics_only_if[C15] refused_only_for_bad_type_or_duplicate: !lastresult("reflect.Type.Implements") || old(has(m, desc.ServiceName))
//@   on_panic ensures[C15] refusal_leaves_registrations_intact: forall k string :: has(m, k) == old(has(m, k)) && m[k] == old(m[k])
//@   ensures[C15] registered: has(m, old(desc.ServiceName)) && m[old(desc.ServiceName)].desc == desc && m[old(desc.ServiceName)].handler == h
//@   ensures[C15] was_not_registered_before: !old(has(m, desc.ServiceName)) && lastresult("reflect.Type.Implements")
//@   ensures[C15] others_untouched: forall k string :: k != old(desc.ServiceName) ==> has(m, k) == old(has(m, k)) && m[k] == old(m[k])
//@   assert_call[C15] reflect.Type.Implements : handler_type_against_service_interface: arg0 == lastresult("reflect.TypeOf") && arg1 == lastresult("reflect.Type.Elem")
//@   modifies mapof(m)
//
//@ func (HandlerMap).ForEach
//@   loop loop#1 invariant[C15] one_call_per_visited_key: calls("var:fn") == iter_count()
//@   ensures[C15] visits_every_registration_once: calls("var:fn") == len(m)
//@   assert_call[C15] var:fn : with_the_registered_pair: has(m, iter_key()) && arg0 == m[iter_key()].desc && arg1 == m[iter_key()].handler
//@   modifies everything
//
// GetServiceInfo: for every registration, the reported ServiceInfo lists the
// unary methods (flags false) followed by the streams (name and both flags),
// and carries the descriptor's Metadata -- the definition of
// (*grpc.Server).GetServiceInfo in grpc v1.57.1, transcribed.
//@ define unary_info_ok(mi, md) = mi.Name == md.MethodName && !mi.IsClientStream && !mi.IsServerStream
//@ define stream_info_ok(mi, sd) = mi.Name == sd.StreamName && mi.IsClientStream == sd.ClientStreams && mi.IsServerStream == sd.ServerStreams
//@ define info_ok(ret, d, j) = has(ret, d.ServiceName) && len(ret[d.ServiceName].Methods) == len(d.Methods) + len(d.Streams) && ret[d.ServiceName].Metadata == d.Metadata && (0 <= j && j < len(d.Methods) ==> unary_info_ok(ret[d.ServiceName].Methods[j], d.Methods[j])) && (0 <= j && j < len(d.Streams) ==> stream_info_ok(ret[d.ServiceName].Methods[len(d.Methods) + j], d.Streams[j]))
//@ func (HandlerMap).GetServiceInfo
//@   requires keys_are_service_names: forall k string :: has(m, k) ==> m[k].desc != nil && m[k].desc.ServiceName == k
//@   loop loop#1 invariant[C15] keys_ok: forall k string :: has(m, k) ==> m[k].desc != nil && m[k].desc.ServiceName == k
//@   loop loop#1 invariant[C15] visited_are_reported: forall k string :: forall j int :: iter_visited(k) && has(m, k) ==> info_ok(ret, m[k].desc, j) && ret != nil
//@   loop loop#2 invariant[C15] keys_ok: forall k string :: has(m, k) ==> m[k].desc != nil && m[k].desc.ServiceName == k
//@   loop loop#2 invariant[C15] outer_kept: forall k string :: forall j int :: iter_visited(k) && has(m, k) && k != svc.desc.ServiceName ==> info_ok(ret, m[k].desc, j) && backing(ret[k].Methods) != backing(methods)
//@   loop loop#2 invariant[C15] cur_desc1: svc.desc != nil
//@   loop loop#2 invariant[C15] cur_desc2: has(m, svc.desc.ServiceName)
//@   loop loop#2 invariant[C15] cur_desc3: m[svc.desc.ServiceName].desc == svc.desc
//@   loop loop#2 invariant[C15] cur_desc4: ret != nil
//@   loop loop#2 invariant[C15] cur_len: len(methods) == rangeindex + 1 && rangeindex < len(svc.desc.Methods) && fresh_backing(methods)
//@   loop loop#2 invariant[C15] cur_cap: cap(methods) == len(svc.desc.Methods) + len(svc.desc.Streams)
//@   loop loop#2 invariant[C15] cur_unary: forall j int :: 0 <= j && j <= rangeindex ==> unary_info_ok(methods[j], svc.desc.Methods[j])
//@   loop loop#3 invariant[C15] keys_ok: forall k string :: has(m, k) ==> m[k].desc != nil && m[k].desc.ServiceName == k
//@   loop loop#3 invariant[C15] outer_kept: forall k string :: forall j int :: iter_visited(k) && has(m, k) && k != svc.desc.ServiceName ==> info_ok(ret, m[k].desc, j) && backing(ret[k].Methods) != backing(methods)
//@   loop loop#3 invariant[C15] cur_desc: svc.desc != nil && has(m, svc.desc.ServiceName) && m[svc.desc.ServiceName].desc == svc.desc && ret != nil
//@   loop loop#3 invariant[C15] cur_len: len(methods) == len(svc.desc.Methods) + rangeindex#2 + 1 && rangeindex#2 < len(svc.desc.Streams) && fresh_backing(methods)
//@   loop loop#3 invariant[C15] cur_cap: cap(methods) == len(svc.desc.Methods) + len(svc.desc.Streams)
//@   loop loop#3 invariant[C15] cur_unary: forall j int :: 0 <= j && j < len(svc.desc.Methods) ==> unary_info_ok(methods[j], svc.desc.Methods[j])
//@   loop loop#3 invariant[C15] cur_streams: forall j int :: 0 <= j && j <= rangeindex#2 ==> stream_info_ok(methods[len(svc.desc.Methods) + j], svc.desc.Streams[j])
//@   ensures[C15] every_registration_reported: forall k string :: forall j int :: has(m, k) ==> info_ok(result, m[k].desc, j)
//@   ensures[C15] snapshot_is_fresh: fresh(result)
//@   modifies nothing
