//go:build verif

// Contracts for package grpchan (server.go, intercept.go), read by
// /verif/engine (govc). Comment-only; compiled only with the `verif` tag.

package grpchan

// ---- C15 / C12: HandlerMap ----
//
//@ func (HandlerMap).QueryService
//@   ensures[C12,C15] registered_pair: has(m, name) ==> result0 == m[name].desc && result1 == m[name].handler
//@   ensures[C12,C15] unknown_is_nil: !has(m, name) ==> result0 == nil && result1 == nil
//@   modifies nothing
//
//@ func (HandlerMap).RegisterService
//@   requires m != nil && desc != nil
//@   panics_only_if[C15] refused_only_for_bad_type_or_duplicate: !lastresult("reflect.Type.Implements") || old(has(m, desc.ServiceName))
//@   on_panic ensures[C15] refusal_leaves_registrations_intact: forall k string :: has(m, k) == old(has(m, k)) && m[k] == old(m[k])
//@   ensures[C15] registered: has(m, old(desc.ServiceName)) && m[old(desc.ServiceName)].desc == desc && m[old(desc.ServiceName)].handler == h
//@   ensures[C15] was_not_registered_before: !old(has(m, desc.ServiceName)) && lastresult("reflect.Type.Implements")
//@   ensures[C15] others_untouched: forall k string :: k != old(desc.ServiceName) ==> has(m, k) == old(has(m, k)) && m[k] == old(m[k])
//@   assert_call[C15] reflect.Type.Implements : handler_type_against_service_interface: arg0 == rtype_of(h) && arg1 == rtype_elem(rtype_of(desc.HandlerType))
//@   modifies mapof(m)
//
//@ func (HandlerMap).ForEach
//@   loop loop#1 invariant[C15] one_call_per_visited_key: calls("var:fn") == iter_count()
//@   ensures[C15] visits_every_registration_once: calls("var:fn") == len(m)
//@   assert_call[C15] var:fn : with_the_registered_pair: has(m, iter_key()) && arg0 == m[iter_key()].desc && arg1 == m[iter_key()].handler
//@   modifies everything
//
// GetServiceInfo: for every registration, the reported ServiceInfo lists the
// unary methods (flags false) followed by the streams (name and both flags),
// and carries the descriptor's Metadata -- the definition of
// (*grpc.Server).GetServiceInfo in grpc v1.57.1, transcribed.
//@ define unary_info_ok(mi, md) = mi.Name == md.MethodName && !mi.IsClientStream && !mi.IsServerStream
//@ define stream_info_ok(mi, sd) = mi.Name == sd.StreamName && mi.IsClientStream == sd.ClientStreams && mi.IsServerStream == sd.ServerStreams
//@ define info_ok(ret, d, j) = has(ret, d.ServiceName) && len(ret[d.ServiceName].Methods) == len(d.Methods) + len(d.Streams) && ret[d.ServiceName].Metadata == d.Metadata && (0 <= j && j < len(d.Methods) ==> unary_info_ok(ret[d.ServiceName].Methods[j], d.Methods[j])) && (0 <= j && j < len(d.Streams) ==> stream_info_ok(ret[d.ServiceName].Methods[len(d.Methods) + j], d.Streams[j]))
//@ func (HandlerMap).GetServiceInfo
//@   requires keys_are_service_names: forall k string :: has(m, k) ==> m[k].desc != nil && m[k].desc.ServiceName == k
//@   loop loop#1 invariant[C15] keys_ok: forall k string :: has(m, k) ==> m[k].desc != nil && m[k].desc.ServiceName == k
//@   loop loop#1 invariant[C15] visited_are_reported: forall k string :: forall j int :: iter_visited(k) && has(m, k) ==> info_ok(ret, m[k].desc, j) && ret != nil
//@   loop loop#2 invariant[C15] keys_ok: forall k string :: has(m, k) ==> m[k].desc != nil && m[k].desc.ServiceName == k
//@   loop loop#2 invariant[C15] outer_kept: forall k string :: forall j int :: iter_visited(k) && has(m, k) && k != svc.desc.ServiceName ==> info_ok(ret, m[k].desc, j) && backing(ret[k].Methods) != backing(methods)
//@   loop loop#2 invariant[C15] cur_desc1: svc.desc != nil
//@   loop loop#2 invariant[C15] cur_desc2: has(m, svc.desc.ServiceName)
//@   loop loop#2 invariant[C15] cur_desc3: m[svc.desc.ServiceName].desc == svc.desc
//@   loop loop#2 invariant[C15] cur_desc4: ret != nil
//@   loop loop#2 invariant[C15] aux cur_len: len(methods) == rangeindex + 1 && rangeindex < len(svc.desc.Methods) && fresh_backing(methods)
//@   loop loop#2 invariant[C15] aux cur_cap: cap(methods) == len(svc.desc.Methods) + len(svc.desc.Streams)
//@   loop loop#2 invariant[C15] cur_unary: forall j int :: 0 <= j && j <= rangeindex ==> unary_info_ok(methods[j], svc.desc.Methods[j])
//@   loop loop#3 invariant[C15] keys_ok: forall k string :: has(m, k) ==> m[k].desc != nil && m[k].desc.ServiceName == k
//@   loop loop#3 invariant[C15] outer_kept: forall k string :: forall j int :: iter_visited(k) && has(m, k) && k != svc.desc.ServiceName ==> info_ok(ret, m[k].desc, j) && backing(ret[k].Methods) != backing(methods)
//@   loop loop#3 invariant[C15] cur_desc: svc.desc != nil && has(m, svc.desc.ServiceName) && m[svc.desc.ServiceName].desc == svc.desc && ret != nil
//@   loop loop#3 invariant[C15] aux cur_len: len(methods) == len(svc.desc.Methods) + rangeindex#2 + 1 && rangeindex#2 < len(svc.desc.Streams) && fresh_backing(methods)
//@   loop loop#3 invariant[C15] aux cur_cap: cap(methods) == len(svc.desc.Methods) + len(svc.desc.Streams)
//@   loop loop#3 invariant[C15] cur_unary: forall j int :: 0 <= j && j < len(svc.desc.Methods) ==> unary_info_ok(methods[j], svc.desc.Methods[j])
//@   loop loop#3 invariant[C15] cur_streams: forall j int :: 0 <= j && j <= rangeindex#2 ==> stream_info_ok(methods[len(svc.desc.Methods) + j], svc.desc.Streams[j])
//@   ensures[C15] every_registration_reported: forall k string :: forall j int :: has(m, k) ==> info_ok(result, m[k].desc, j)
//@   ensures[C15] snapshot_is_fresh: fresh(result)
//@   modifies nothing

// ---- C17: client interceptors (intercept.go) ----
//
//@ define client_conn_of(c) = ite(typeis(c, "*grpc.ClientConn"), unbox(c, "*grpc.ClientConn"), nil)
//
//@ func InterceptClientConn
//@   ensures[C17] no_interceptors_returns_original: unaryInt == nil && streamInt == nil ==> result == ch
//@   ensures[C17] otherwise_a_fresh_wrapper: !(unaryInt == nil && streamInt == nil) ==> typeis(result, "*interceptedChannel") && fresh(unbox(result, "*interceptedChannel"))
//@   ensures[C17] wrapper_holds_the_three: !(unaryInt == nil && streamInt == nil) ==> unbox(result, "*interceptedChannel").ch == ch && unbox(result, "*interceptedChannel").unaryInt == unaryInt && unbox(result, "*interceptedChannel").streamInt == streamInt
//@   modifies nothing
//
//@ func InterceptChannel
//@   ensures[C17] same_as_InterceptClientConn: calls(InterceptClientConn) == 1 && result == lastresult(InterceptClientConn)
//@   assert_call[C17] InterceptClientConn : arg0 == ch && arg1 == unaryInt && arg2 == streamInt
//@   modifies nothing
//
//@ func (*interceptedChannel).Unwrap
//@   ensures[C17] unwraps_to_the_wrapped_channel: result == intch.ch
//@   modifies nothing
//
//@ func unwrap
//@   loop loop#1 invariant[C17] same_root: root_of(ch) == root_of(ch$entry)
//@   ensures[C17] complete: !implements(result, "WrappedClientConn") && result == root_of(ch$entry)
//@   modifies nothing
//
//@ func (*interceptedChannel).Invoke
//@   ensures[C17] no_interceptor_goes_straight_through: old(intch.unaryInt) == nil ==> calls("grpc.ClientConnInterface.Invoke") == 1 && !called("grpc.UnaryClientInterceptor") && result == lastresult("grpc.ClientConnInterface.Invoke")
//@   ensures[C17] interceptor_sees_the_call_once: old(intch.unaryInt) != nil ==> calls("grpc.UnaryClientInterceptor") == 1 && !called("grpc.ClientConnInterface.Invoke") && result == lastresult("grpc.UnaryClientInterceptor")
//@   assert_call[C17] grpc.ClientConnInterface.Invoke : passthrough_unchanged: arg0 == intch.ch && arg1 == ctx && arg2 == methodName && arg3 == req && arg4 == resp && arg5 == opts
//@   assert_call[C17] grpc.UnaryClientInterceptor : arguments_unchanged: arg0 == ctx && arg1 == methodName && arg2 == req && arg3 == resp && arg6 == opts
//@   assert_call[C17] grpc.UnaryClientInterceptor : connection_is_the_root_grpc_conn: arg4 == client_conn_of(root_of(intch.ch))
//@   assert_call[C17] grpc.UnaryClientInterceptor : invoker_continues_to_the_wrapped_channel: isbound(arg5, "unaryInvoker") && binding(arg5, 0) == intch
//@   modifies everything
//
//@ func (*interceptedChannel).unaryInvoker
//@   ensures[C17] one_call_to_the_wrapped_channel: calls("grpc.ClientConnInterface.Invoke") == 1 && result == lastresult("grpc.ClientConnInterface.Invoke")
//@   assert_call[C17] grpc.ClientConnInterface.Invoke : unchanged: arg0 == intch.ch && arg1 == ctx && arg2 == methodName && arg3 == req && arg4 == resp && arg5 == opts
//@   modifies everything
//
//@ func (*interceptedChannel).NewStream
//@   ensures[C17] no_interceptor_goes_straight_through: old(intch.streamInt) == nil ==> calls("grpc.ClientConnInterface.NewStream") == 1 && !called("grpc.StreamClientInterceptor") && result0 == lastresult("grpc.ClientConnInterface.NewStream", 0) && result1 == lastresult("grpc.ClientConnInterface.NewStream", 1)
//@   ensures[C17] interceptor_sees_the_call_once: old(intch.streamInt) != nil ==> calls("grpc.StreamClientInterceptor") == 1 && !called("grpc.ClientConnInterface.NewStream") && result0 == lastresult("grpc.StreamClientInterceptor", 0) && result1 == lastresult("grpc.StreamClientInterceptor", 1)
//@   assert_call[C17] grpc.ClientConnInterface.NewStream : passthrough_unchanged: arg0 == intch.ch && arg1 == ctx && arg2 == desc && arg3 == methodName && arg4 == opts
//@   assert_call[C17] grpc.StreamClientInterceptor : arguments_unchanged: arg0 == ctx && arg1 == desc && arg3 == methodName && arg5 == opts
//@   assert_call[C17] grpc.StreamClientInterceptor : connection_is_the_root_grpc_conn: arg2 == client_conn_of(root_of(intch.ch))
//@   assert_call[C17] grpc.StreamClientInterceptor : streamer_continues_to_the_wrapped_channel: isbound(arg4, "streamer") && binding(arg4, 0) == intch
//@   modifies everything
//
//@ func (*interceptedChannel).streamer
//@   ensures[C17] one_call_to_the_wrapped_channel: calls("grpc.ClientConnInterface.NewStream") == 1 && result0 == lastresult("grpc.ClientConnInterface.NewStream", 0) && result1 == lastresult("grpc.ClientConnInterface.NewStream", 1)
//@   assert_call[C17] grpc.ClientConnInterface.NewStream : unchanged: arg0 == intch.ch && arg1 == ctx && arg2 == desc && arg3 == methodName && arg4 == opts
//@   modifies everything

// ---- C16: server interceptors (intercept.go) ----
//
//@ define unary_wrapped(h, u, orig) = isfunc(h, "InterceptServer.field:Handler#1") && *binding(h, 0, "*grpc.UnaryServerInterceptor") == u && *binding(h, 1, "*grpc.methodHandler") == orig
//@ define stream_wrapped(h, s, orig, name, cs, ss) = isfunc(h, "InterceptServer.field:Handler#2") && *binding(h, 0, "*grpc.StreamServerInterceptor") == s && *binding(h, 2, "*grpc.StreamHandler") == orig && (*binding(h, 1, "**grpc.StreamServerInfo")).FullMethod == name && (*binding(h, 1, "**grpc.StreamServerInfo")).IsClientStream == cs && (*binding(h, 1, "**grpc.StreamServerInfo")).IsServerStream == ss
//
//@ func InterceptServer
//@   ensures[C16] no_interceptors_returns_original: unaryInt$entry == nil && streamInt$entry == nil ==> result == svcDesc
//@   ensures[C16] otherwise_a_fresh_description: !(unaryInt$entry == nil && streamInt$entry == nil) ==> fresh(result) && result.ServiceName == old(svcDesc.ServiceName) && result.HandlerType == old(svcDesc.HandlerType) && result.Metadata == old(svcDesc.Metadata)
//@   ensures[C16] unary_untouched_without_unary_interceptor: unaryInt$entry == nil && streamInt$entry != nil ==> result.Methods == old(svcDesc.Methods)
//@   ensures[C16] streams_untouched_without_stream_interceptor: streamInt$entry == nil && unaryInt$entry != nil ==> result.Streams == old(svcDesc.Streams)
//@   loop loop#1 invariant[C16] aux whole_copy_being_rewritten: len(intercepted.Methods) == len(svcDesc.Methods) && fresh_backing(intercepted.Methods) && unaryInt == unaryInt$entry && unaryInt$entry != nil
//@   loop loop#1 invariant[C16] names_so_far: forall j int :: 0 <= j && j <= rangeindex ==> intercepted.Methods[j].MethodName == svcDesc.Methods[j].MethodName
//@   loop loop#1 invariant[C16] w1: forall j int :: 0 <= j && j <= rangeindex ==> isfunc(intercepted.Methods[j].Handler, "InterceptServer.field:Handler#1")
//@   loop loop#1 invariant[C16] w2: forall j int :: 0 <= j && j <= rangeindex ==> *binding(intercepted.Methods[j].Handler, 0, "*grpc.UnaryServerInterceptor") == unaryInt$entry
//@   loop loop#1 invariant[C16] w3: forall j int :: 0 <= j && j <= rangeindex ==> *binding(intercepted.Methods[j].Handler, 1, "*grpc.methodHandler") == svcDesc.Methods[j].Handler
//@   loop loop#2 invariant[C16] aux whole_copy_being_rewritten: len(intercepted.Streams) == len(svcDesc.Streams) && fresh_backing(intercepted.Streams) && streamInt == streamInt$entry && streamInt$entry != nil
//@   loop loop#2 invariant[C16] s_names: forall j int :: 0 <= j && j <= rangeindex#2 ==> intercepted.Streams[j].StreamName == svcDesc.Streams[j].StreamName && intercepted.Streams[j].ClientStreams == svcDesc.Streams[j].ClientStreams && intercepted.Streams[j].ServerStreams == svcDesc.Streams[j].ServerStreams
//@   loop loop#2 invariant[C16] s1: forall j int :: 0 <= j && j <= rangeindex#2 ==> isfunc(intercepted.Streams[j].Handler, "InterceptServer.field:Handler#2")
//@   loop loop#2 invariant[C16] s2: forall j int :: 0 <= j && j <= rangeindex#2 ==> *binding(intercepted.Streams[j].Handler, 0, "*grpc.StreamServerInterceptor") == streamInt$entry
//@   loop loop#2 invariant[C16] s3: forall j int :: 0 <= j && j <= rangeindex#2 ==> *binding(intercepted.Streams[j].Handler, 2, "*grpc.StreamHandler") == svcDesc.Streams[j].Handler
//@   loop loop#2 invariant[C16] s4: forall j int :: 0 <= j && j <= rangeindex#2 ==> (*binding(intercepted.Streams[j].Handler, 1, "**grpc.StreamServerInfo")).FullMethod == fmt_path2(svcDesc.ServiceName, svcDesc.Streams[j].StreamName) && (*binding(intercepted.Streams[j].Handler, 1, "**grpc.StreamServerInfo")).IsClientStream == svcDesc.Streams[j].ClientStreams && (*binding(intercepted.Streams[j].Handler, 1, "**grpc.StreamServerInfo")).IsServerStream == svcDesc.Streams[j].ServerStreams
//@   ensures[C16] every_stream_wrapped: streamInt$entry != nil ==> len(result.Streams) == len(svcDesc.Streams) && (forall j int :: 0 <= j && j < len(svcDesc.Streams) ==> result.Streams[j].StreamName == svcDesc.Streams[j].StreamName && result.Streams[j].ClientStreams == svcDesc.Streams[j].ClientStreams && result.Streams[j].ServerStreams == svcDesc.Streams[j].ServerStreams && stream_wrapped(result.Streams[j].Handler, streamInt$entry, svcDesc.Streams[j].Handler, fmt_path2(svcDesc.ServiceName, svcDesc.Streams[j].StreamName), svcDesc.Streams[j].ClientStreams, svcDesc.Streams[j].ServerStreams))
//@   ensures[C16] every_unary_method_wrapped: unaryInt$entry != nil ==> len(result.Methods) == len(svcDesc.Methods) && (forall j int :: 0 <= j && j < len(svcDesc.Methods) ==> result.Methods[j].MethodName == svcDesc.Methods[j].MethodName && unary_wrapped(result.Methods[j].Handler, unaryInt$entry, svcDesc.Methods[j].Handler))
//@   modifies nothing

// The wrappers InterceptServer installs. Each is verified as its own unit; its
// free variables are the captured variables of InterceptServer.
//
//@ closure InterceptServer.field:Handler#1
//@   ensures[C16] original_handler_called_exactly_once: calls("var:origHandler") == 1 && result0 == lastresult("var:origHandler", 0) && result1 == lastresult("var:origHandler", 1)
//@   assert_call[C16] var:origHandler : same_server_context_decoder: arg0 == srv && arg1 == ctx && arg2 == dec
//@   assert_call[C16] var:origHandler : decorating_interceptor_alone: interceptor == nil ==> arg3 == unaryInt
//@   assert_call[C16] var:origHandler : combined_with_transport_interceptor: interceptor != nil ==> isfunc(arg3, "InterceptServer.field:Handler#1.combinedInterceptor") && *binding(arg3, 0, "*grpc.UnaryServerInterceptor") == unaryInt && *binding(arg3, 1, "*grpc.UnaryServerInterceptor") == interceptor
//@   modifies everything
//
//@ closure InterceptServer.field:Handler#1.combinedInterceptor
//@   ensures[C16] transport_interceptor_first_and_once: calls("var:interceptor") == 1 && !called("var:unaryInt") && resp == lastresult("var:interceptor", 0) && err == lastresult("var:interceptor", 1)
//@   assert_call[C16] var:interceptor : request_unchanged: arg0 == ctx && arg1 == req && arg2 == info
//@   assert_call[C16] var:interceptor : continues_with_decorating_interceptor: isfunc(arg3, "InterceptServer.field:Handler#1.combinedInterceptor.arg#1") && *binding(arg3, 0, "*grpc.UnaryServerInterceptor") == unaryInt && *binding(arg3, 1, "**grpc.UnaryServerInfo") == info && *binding(arg3, 2, "*grpc.UnaryHandler") == handler
//@   modifies everything
//
//@ closure InterceptServer.field:Handler#1.combinedInterceptor.arg#1
//@   ensures[C16] decorating_interceptor_next_and_once: calls("var:unaryInt") == 1 && result0 == lastresult("var:unaryInt", 0) && result1 == lastresult("var:unaryInt", 1)
//@   assert_call[C16] var:unaryInt : onward_to_the_real_handler: arg0 == ctx && arg1 == req && arg2 == info && arg3 == handler
//@   modifies everything
//
//@ closure InterceptServer.field:Handler#2
//@   ensures[C16] stream_interceptor_called_exactly_once: calls("var:streamInt") == 1 && result == lastresult("var:streamInt", 0)
//@   assert_call[C16] var:streamInt : with_info_and_original_handler: arg0 == srv && arg1 == stream && arg2 == info && arg3 == origHandler
//@   modifies everything
//
//@ func WithInterceptor
//@   ensures[C16] no_interceptors_returns_registry: unaryInt == nil && streamInt == nil ==> result == reg
//@   ensures[C16] otherwise_intercepting_registry: !(unaryInt == nil && streamInt == nil) ==> typeis(result, "*interceptingRegistry") && unbox(result, "*interceptingRegistry").reg == reg && unbox(result, "*interceptingRegistry").unaryInt == unaryInt && unbox(result, "*interceptingRegistry").streamInt == streamInt
//@   modifies nothing
//
//@ func (*interceptingRegistry).RegisterService
//@   ensures[C16] registers_the_intercepted_description_once: calls("grpc.ServiceRegistrar.RegisterService") == 1 && calls(InterceptServer) == 1
//@   assert_call[C16] InterceptServer : with_the_registrys_interceptors: arg0 == desc && arg1 == r.unaryInt && arg2 == r.streamInt
//@   assert_call[C16] grpc.ServiceRegistrar.RegisterService : delegates: arg0 == r.reg && arg1 == lastresult(InterceptServer) && arg2 == srv
//@   modifies everything
