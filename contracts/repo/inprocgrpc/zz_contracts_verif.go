//go:build verif

// Contracts for package inprocgrpc, read by /verif/engine (govc). Comment-only.

package inprocgrpc

// ---- small helpers ----
//
//@ func isNil
//@   ensures[C06,C08] nil_interface_is_nil: m == nil ==> result
//@   ensures[C08] other_values_are_inspected_by_reflection: m != nil ==> called("(reflect.Value).Kind") && lastarg("reflect.ValueOf", 0) == m
//@   ensures[C08] a_nil_pointer_in_an_interface_counts_as_nil: called("(reflect.Value).Kind") ==> (result <==> lastresult("(reflect.Value).Kind") == 22 && called("(reflect.Value).IsNil") && lastresult("(reflect.Value).IsNil"))
//@   modifies nothing
//
//@ func (frame).kind
//@   ensures[C03,C01] headers_first: m.headers != nil ==> result == 0
//@   ensures[C03,C01] then_data: m.headers == nil && m.data != nil ==> result == 1
//@   ensures[C03] then_trailers: m.headers == nil && m.data == nil && m.trailers != nil ==> result == 2
//@   ensures[C02] then_error: m.headers == nil && m.data == nil && m.trailers == nil && m.err != nil ==> result == 3
//@   ensures[C01] otherwise_unknown: m.headers == nil && m.data == nil && m.trailers == nil && m.err == nil ==> result == 4
//@   modifies nothing
//
// ---- C10: the handler's context ----
//
//@ func (noValuesContext).Value
//@   ensures[C10] exposes_no_values: result == nil
//@   modifies nothing
//
//@ func ClientContext
//@   assert_call[C10] context.Context.Value : looked_up_under_the_private_key: arg0 == ctx && arg1 == boxed(&clientContextKey)
//@   ensures[C10] the_stored_caller_context_or_nil: (implements(lastresult("context.Context.Value"), "context.Context") ==> result == lastresult("context.Context.Value")) && (!implements(lastresult("context.Context.Value"), "context.Context") ==> result == nil)
//@   modifies nothing
//
//@ func makeServerContext
//@   ensures[C10] result != nil
//@   assert_call[C10] metadata.NewIncomingContext : onto_the_value_free_context: typeis(arg0, "noValuesContext") && unbox(arg0, "noValuesContext").Context == ctx$entry
//@   assert_call[C10] metadata.NewIncomingContext : callers_outgoing_metadata_becomes_incoming: arg1 == lastresult("metadata.FromOutgoingContext", 0) && lastarg("metadata.FromOutgoingContext", 0) == ctx$entry
//@   ensures[C10] no_outgoing_metadata_no_incoming: !lastresult("metadata.FromOutgoingContext", 1) ==> !called("metadata.NewIncomingContext")
//@   ensures[C10] outgoing_metadata_is_always_forwarded: lastresult("metadata.FromOutgoingContext", 1) ==> calls("metadata.NewIncomingContext") == 1
//@   assert_call[C10,C13] peer.NewContext : in_process_peer_on_the_stripped_context: arg1 == &inprocessPeer && (called("metadata.NewIncomingContext") ==> arg0 == lastresult("metadata.NewIncomingContext")) && (!called("metadata.NewIncomingContext") ==> typeis(arg0, "noValuesContext") && unbox(arg0, "noValuesContext").Context == ctx$entry)
//@   assert_call[C10] context.WithValue : only_back_door_is_the_client_context_key: arg0 == lastresult("peer.NewContext") && typeis(arg1, "*string") && unbox(arg1, "*string") == &clientContextKey && arg2 == ctx$entry
//@   ensures[C10] result_is_the_chain_built_above: result == lastresult("context.WithValue") && calls("context.WithValue") == 1 && calls("peer.NewContext") == 1
//@   modifies nothing

// ---- Channel.Invoke (unary) ----
//
// svc_part / mtd_part: the two components of "/service/method" after the
// leading slash has been ensured.
//@ define slashed(m) = ite(len(m) > 0 && byteat(m, 0) == '/', m, "/" + m)
//@ define mrest(m) = substr(slashed(m), 1, len(slashed(m)))
//@ func (*Channel).Invoke
//@   ensures[C02,C01] a_response_that_cannot_be_copied_is_an_error: called("inprocgrpc.Cloner.Copy") && lastresult("inprocgrpc.Cloner.Copy") != nil ==> result == lastresult("inprocgrpc.Cloner.Copy")
//@   assert_call[C13] (*internal.CallOptions).SetPeer : in_process_peer: arg0 == lastresult("internal.GetCallOptions") && arg1 == &inprocessPeer
//@   assert_call[C06,C08] isNil : the_request_is_what_is_checked: arg0 == req
//@   ensures[C06,C08] nil_request_is_rejected_before_anything_runs: called(isNil) && lastresult(isNil) ==> is_status_err(result) && err_status_code(result) == 13 && !called("go") && !called("internal.ApplyPerRPCCreds")
//@   assert_call[C13] internal.ApplyPerRPCCreds : always_secure_with_inproc_uri: arg0 == ctx$entry && arg1 == lastresult("internal.GetCallOptions") && arg3 && arg2 == fmt_inproc(slashed(method$entry))
//@   ensures[C13] credential_failure_runs_nothing: called("internal.ApplyPerRPCCreds") && lastresult("internal.ApplyPerRPCCreds", 1) != nil ==> result == lastresult("internal.ApplyPerRPCCreds", 1) && !called("go")
//@   ensures[C12] malformed_name_is_a_status_error: !str_contains(mrest(method$entry), "/") ==> !called("go") && !called("(grpchan.HandlerMap).QueryService") && (called("internal.ApplyPerRPCCreds") && lastresult("internal.ApplyPerRPCCreds", 1) == nil ==> is_status_err(result))
//@   assert_call[C12] (grpchan.HandlerMap).QueryService : by_service_name: arg0 == c.handlers && str_contains(mrest(method$entry), "/") && arg1 == split_head(mrest(method$entry), "/")
//@   ensures[C12] unknown_service_is_unimplemented: called("(grpchan.HandlerMap).QueryService") && lastresult("(grpchan.HandlerMap).QueryService", 0) == nil ==> is_status_err(result) && err_status_code(result) == 12 && !called("go")
//@   assert_call[C12] internal.FindUnaryMethod : by_method_name_among_the_services_methods: arg0 == split_tail(mrest(method$entry), "/") && arg1 == lastresult("(grpchan.HandlerMap).QueryService", 0).Methods
//@   ensures[C12] unknown_method_is_unimplemented: called("internal.FindUnaryMethod") && lastresult("internal.FindUnaryMethod") == nil ==> is_status_err(result) && err_status_code(result) == 12 && !called("go")
//@   ensures[C05,C04] derived_context_is_always_cancelled: called("context.WithCancel") ==> calls("context.CancelFunc") == 1
//@   ensures[C05] at_most_one_server_goroutine: calls("go") <= 1
//@   chan_cap_bound[C20] 1
//@   blocking_escape[C05,C04] ctx
//@   loop loop#1 invariant[C08,C06] one_copy_per_response: (gotResponse <==> calls("inprocgrpc.Cloner.Copy") == 1) && calls("inprocgrpc.Cloner.Copy") <= 1 && calls("go") == 1 && calls("context.WithCancel") == 1 && !called("context.CancelFunc") && !called("internal.TranslateContextError") && !called(translateHandlerError)
//@   loop loop#1 invariant[C02,C01] a_failed_copy_ends_the_loop: called("inprocgrpc.Cloner.Copy") ==> lastresult("inprocgrpc.Cloner.Copy") == nil
//@   borrowed[C06] req until closed(ch) || recv_n(ch) >= 1
//@   assert_call[C06,C01] inprocgrpc.Cloner.Clone : the_request_is_copied_before_the_server_side_starts: arg1 == req && !called("go")
//@   ensures[C06,C02] a_request_that_cannot_be_copied_is_an_error_and_runs_nothing: called("inprocgrpc.Cloner.Clone") && lastresult("inprocgrpc.Cloner.Clone", 1) != nil ==> result == lastresult("inprocgrpc.Cloner.Clone", 1) && !called("go")
//@   ensures[C06] the_server_side_starts_only_with_a_copy_of_the_request: called("go") ==> calls("inprocgrpc.Cloner.Clone") == 1 && lastresult("inprocgrpc.Cloner.Clone", 1) == nil
//@   borrowed[C06] resp
//@   ensures[C08,C06] success_means_exactly_one_response_was_copied: result == nil && called("go") ==> calls("inprocgrpc.Cloner.Copy") == 1
//@   assert_call[C06,C01] inprocgrpc.Cloner.Copy : response_is_copied_into_the_callers_message: arg1 == resp && arg2 == r.data && r.data != nil
//@   ensures[C04] never_a_bare_context_error: called("go") && result != context.Canceled && result != context.DeadlineExceeded || !called("go") || called("inprocgrpc.Cloner.Copy")
//@   ensures[C02,C04] error_frame_is_translated: (called("internal.TranslateContextError") ==> result == lastresult("internal.TranslateContextError")) && (called(translateHandlerError) ==> result == lastresult(translateHandlerError))
//@   assert_call[C02,C04] translateHandlerError : of_the_error_frame: arg0 == r.err && r.err != nil
//@   ensures[C04,C03,C02] success_only_if_the_context_was_live: called("go") && !called("internal.TranslateContextError") && !called(translateHandlerError) && (result == nil || (result == io.EOF && (!called("inprocgrpc.Cloner.Copy") || lastresult("inprocgrpc.Cloner.Copy") == nil))) ==> called("context.Context.Err") && lastresult("context.Context.Err") == nil && lastarg("context.Context.Err", 0) == lastresult("context.WithCancel", 0)
//@   assert_call[C03] (*internal.CallOptions).SetHeaders : header_frame_to_the_call_options: arg0 == lastresult("internal.GetCallOptions") && arg1 == r.headers
//@   assert_call[C03] (*internal.CallOptions).SetTrailers : trailer_frame_to_the_call_options: arg0 == lastresult("internal.GetCallOptions") && arg1 == r.trailers
//@   modifies everything

// ---- Channel.NewStream ----
//
//@ func (*Channel).NewStream
//@   assert_call[C13] (*internal.CallOptions).SetPeer : in_process_peer: arg0 == lastresult("internal.GetCallOptions") && arg1 == &inprocessPeer
//@   assert_call[C13] internal.ApplyPerRPCCreds : always_secure_with_inproc_uri: arg0 == ctx$entry && arg1 == lastresult("internal.GetCallOptions") && arg3 && arg2 == fmt_inproc(slashed(method$entry))
//@   ensures[C13] credential_failure_runs_nothing: called("internal.ApplyPerRPCCreds") && lastresult("internal.ApplyPerRPCCreds", 1) != nil ==> result1 == lastresult("internal.ApplyPerRPCCreds", 1) && result0 == nil && !called("go")
//@   ensures[C12] malformed_name_is_a_status_error: !str_contains(mrest(method$entry), "/") ==> !called("go") && !called("(grpchan.HandlerMap).QueryService") && result0 == nil && (called("internal.ApplyPerRPCCreds") && lastresult("internal.ApplyPerRPCCreds", 1) == nil ==> is_status_err(result1))
//@   assert_call[C12] (grpchan.HandlerMap).QueryService : by_service_name: arg0 == c.handlers && str_contains(mrest(method$entry), "/") && arg1 == split_head(mrest(method$entry), "/")
//@   ensures[C12] unknown_service_is_unimplemented: called("(grpchan.HandlerMap).QueryService") && lastresult("(grpchan.HandlerMap).QueryService", 0) == nil ==> is_status_err(result1) && err_status_code(result1) == 12 && result0 == nil && !called("go")
//@   assert_call[C12] internal.FindStreamingMethod : by_method_name_among_the_services_streams: arg0 == split_tail(mrest(method$entry), "/") && arg1 == lastresult("(grpchan.HandlerMap).QueryService", 0).Streams
//@   ensures[C12] unknown_method_is_unimplemented: called("internal.FindStreamingMethod") && lastresult("internal.FindStreamingMethod") == nil ==> is_status_err(result1) && err_status_code(result1) == 12 && result0 == nil && !called("go")
//@   chan_cap_bound[C20] 1
//@   ensures[C05,C01,C20] one_server_goroutine_per_stream: result1 == nil ==> calls("go") == 1 && result0 != nil
//@   ensures[C20,C01,C05] client_stream_is_wired_to_fresh_one_slot_channels: result1 == nil ==> typeis(result0, "*inProcessClientStream") && chcap(unbox(result0, "*inProcessClientStream").requests) == 1 && chcap(unbox(result0, "*inProcessClientStream").responses) == 1 && fresh(unbox(result0, "*inProcessClientStream").requests) && fresh(unbox(result0, "*inProcessClientStream").responses) && unbox(result0, "*inProcessClientStream").requests != unbox(result0, "*inProcessClientStream").responses
//@   assert_call[C10,C04] makeServerContext : from_the_cancellable_call_context: arg0 == lastresult("context.WithCancel", 0) && calls("context.WithCancel") == 1
//@   modifies everything

// ---- frame transport: readMessage / writeMessage (C01, C04, C05, C20) ----
//
//@ func writeMessage
//@   locks_only[C05] nothing
//@   requires !closed(ch) && ch != nil
//@   blocking_escape[C05,C04,C20] ctx
//@   blocking_escape[C05] remoteCtx
//@   ensures[C04,C05] only_nil_eof_or_the_context_error: result == nil || result == io.EOF || result == ctx_err(ctx)
//@   ensures[C05] eof_only_when_the_remote_side_is_done: result == io.EOF ==> remoteCtx != nil
//@   modifies nothing
//
//@ func translateHandlerError
//@   ensures[C02] a_handlers_error_never_looks_like_the_end_of_the_stream: result != io.EOF
//@   ensures[C02] eof_from_a_handler_is_unknown: err == io.EOF ==> is_status_err(result) && err_status_code(result) == 2
//@   ensures[C04] deadline: err == context.DeadlineExceeded ==> is_status_err(result) && err_status_code(result) == 4
//@   ensures[C04] canceled: err == context.Canceled ==> is_status_err(result) && err_status_code(result) == 1
//@   ensures[C02,C04] other_errors_unchanged: err != io.EOF && err != context.DeadlineExceeded && err != context.Canceled ==> result == err
//@   ensures[C02,C04] nil_iff_nil: (result == nil) <==> (err == nil)
//@   modifies nothing
//
//@ func readMessage
//@   locks_only[C05] nothing
//@   blocking_escape[C05,C04] ctx
//@   ensures[C04] success_only_with_a_live_context: result1 == nil ==> ctx_err(ctx) == nil
//@   ensures[C04,C05] errors_are_eof_or_the_context_error: result1 == nil || result1 == io.EOF || (result1 == ctx_err(ctx) && result1 != nil)
//@   ensures[C01] eof_only_when_the_channel_is_closed_and_drained: result1 == io.EOF ==> closed(ch)
//@   ensures[C04] end_of_stream_only_after_the_context_was_seen_alive: result1 == io.EOF ==> called("context.Context.Err") && lastresult("context.Context.Err") == nil
//@   modifies nothing

// ---- the server goroutine of a unary call ----
//
// Frames are written in the order [headers] [data] [trailers] [error]; the
// data frame is the handler's response and exists iff the handler returned
// (non-nil response, nil error); the error frame is last and carries the
// handler's error, or Internal when the handler returned neither.
//@ closure (*Channel).Invoke.go#1
//@   requires ch != nil && !closed(ch)
//@   sole_closer ch
//@   ensures[C05] reply_channel_closed_exactly_once_after_finish: closed(ch) && calls("(*internal.UnaryServerTransportStream).Finish") == 1
//@   ensures[C16,C08] handler_runs_exactly_once: calls("grpc.MethodDesc.Handler") == 1
//@   assert_call[C10] makeServerContext : from_the_calls_cancellable_context: arg0 == ctx$captured
//@   assert_call[C10,C03] grpc.NewContextWithServerTransportStream : stripped_context_with_this_calls_stream: arg0 == lastresult(makeServerContext) && arg1 == boxed(&sts)
//@   assert_call[C16,C10,C12] grpc.MethodDesc.Handler : registered_server_fresh_context_copying_decoder_transport_interceptor: arg0 == handler && arg1 == lastresult(grpc.NewContextWithServerTransportStream) && arg2 == codec && arg3 == c.unaryInterceptor && calls(makeServerContext) == 1
//@   assert_call[C06] writeMessage : frames_are_written_only_after_the_handler_returned: calls("grpc.MethodDesc.Handler") == 1
//@   assert_call[C01,C05] writeMessage : on_the_reply_channel_with_the_server_context: arg0 == lastresult(grpc.NewContextWithServerTransportStream) && arg1 == nil && arg2 == ch
//@   assert_call[C03,C01] writeMessage : headers_frame_only_first: arg3.headers != nil ==> !called(writeMessage) && arg3.data == nil && arg3.trailers == nil && arg3.err == nil && arg3.headers == lastresult("(*internal.UnaryServerTransportStream).GetHeaders")
//@   assert_call[C08] isNil : of_the_handlers_response: arg0 == lastresult("grpc.MethodDesc.Handler", 0) && lastresult("grpc.MethodDesc.Handler", 1) == nil
//@   assert_call[C08] writeMessage : a_nil_response_is_never_sent_as_data: arg3.headers == nil && arg3.data != nil ==> called(isNil) && !lastresult(isNil) && lastarg(isNil, 0) == arg3.data
//@   assert_call[C08,C01,C02] writeMessage : data_frame_is_the_handlers_response: arg3.headers == nil && arg3.data != nil ==> arg3.data == lastresult("grpc.MethodDesc.Handler", 0) && lastresult("grpc.MethodDesc.Handler", 1) == nil && arg3.trailers == nil && arg3.err == nil && (!called(writeMessage) || (calls(writeMessage) == 1 && lastarg(writeMessage, 3).headers != nil))
//@   assert_call[C03] writeMessage : trailers_frame_after_data_before_error: arg3.headers == nil && arg3.data == nil && arg3.trailers != nil ==> arg3.err == nil && arg3.trailers == lastresult("(*internal.UnaryServerTransportStream).GetTrailers") && (!called(writeMessage) || (lastarg(writeMessage, 3).trailers == nil && lastarg(writeMessage, 3).err == nil))
//@   assert_call[C02,C08] writeMessage : error_frame_last_with_the_handlers_error: arg3.headers == nil && arg3.data == nil && arg3.trailers == nil ==> arg3.err != nil && (lastresult("grpc.MethodDesc.Handler", 1) != nil ==> arg3.err == lastresult("grpc.MethodDesc.Handler", 1)) && (lastresult("grpc.MethodDesc.Handler", 1) == nil ==> is_status_err(arg3.err) && err_status_code(arg3.err) == 13) && (!called(writeMessage) || lastarg(writeMessage, 3).err == nil)
//@   modifies everything

// ---- the server goroutine of a streaming call ----
//@ closure (*Channel).NewStream.go#1
//@   requires responses != nil && !closed(responses)
//@   ensures[C16,C05] handler_or_interceptor_runs_exactly_once: calls("grpc.StreamServerInterceptor") + calls("grpc.StreamDesc.Handler") == 1
//@   ensures[C16] transport_interceptor_takes_precedence: called("grpc.StreamServerInterceptor") <==> old(c.streamInterceptor) != nil
//@   assert_call[C16,C12] grpc.StreamServerInterceptor : registered_server_stream_info_and_handler: arg0 == handler && typeis(arg1, "*inProcessServerStream") && unbox(arg1, "*inProcessServerStream") == serverStream && arg2.FullMethod == method && arg2.IsClientStream == md.ClientStreams && arg2.IsServerStream == md.ServerStreams && arg3 == md.Handler
//@   assert_call[C16,C12] grpc.StreamDesc.Handler : registered_server_and_this_stream: arg0 == handler && typeis(arg1, "*inProcessServerStream") && unbox(arg1, "*inProcessServerStream") == serverStream
//@   assert_call[C01,C05,C06,C10] grpc.NewContextWithServerTransportStream : stream_context_from_the_server_context: arg0 == svrCtx && typeis(arg1, "*internal.ServerTransportStream") && unbox(arg1, "*internal.ServerTransportStream").Stream == boxed(serverStream) && unbox(arg1, "*internal.ServerTransportStream").Name == method && serverStream.cloner == cloner && serverStream.requests == requests && serverStream.responses == responses && serverStream.onDone == svrDoneCancel && serverStream.state == 0
//@   ensures[C05,C02] stream_finished_exactly_once_then_server_context_cancelled: calls("(*inProcessServerStream).finish") == 1 && calls("var:svrCancel") == 1
//@   assert_call[C02] (*inProcessServerStream).finish : with_the_handlers_error: arg0 == serverStream && (called("grpc.StreamDesc.Handler") ==> arg1 == lastresult("grpc.StreamDesc.Handler")) && (called("grpc.StreamServerInterceptor") ==> arg1 == lastresult("grpc.StreamServerInterceptor"))
//@   assert_call[C05] var:svrCancel : after_finish: called("(*inProcessServerStream).finish")
//@   modifies everything

// ---- inProcessServerStream (C03, C05, C01, C06, C20) ----
//
//@ type inProcessServerStream
//@   guarded_by mu : headers, trailers, state
//@   closes_under mu : responses
//@   final[C01,C02,C03,C05,C06,C20] ctx, onDone, cloner, requests, responses
//@   invariant[C05] responses_closed_exactly_when_the_stream_is_closed: closed(self.responses) <==> self.state == 2
//@   invariant[C03] state_is_valid: 0 <= self.state && self.state <= 2 && self.responses != nil
//
//@ func (*inProcessServerStream).TrySetTrailer
//@   locks_only[C05] &s.mu
//@   ensures[C03] closed_stream_trailers_refused_and_nothing_changes: at_lock(s.state == 2) ==> result != nil && s.trailers == at_lock(s.trailers) && (forall k string :: has(s.trailers, k) == at_lock(has(s.trailers, k)) && s.trailers[k] == at_lock(s.trailers[k]))
//@   loop loop#1 invariant[C03] map_ready: md != at_lock(s.trailers) ==> s.trailers != nil && s.trailers != md && !(s.state == 2) && held(&s.mu) && (at_lock(s.trailers) != nil ==> s.trailers == at_lock(s.trailers))
//@   loop loop#1 invariant[C03] visited_keys_grew_others_unchanged: md != at_lock(s.trailers) ==> (forall k string :: (iter_visited(k) && has(md, k) ==> has(s.trailers, k) && len(s.trailers[k]) == at_lock(len(s.trailers[k])) + len(md[k])) && (!iter_visited(k) ==> has(s.trailers, k) == at_lock(has(s.trailers, k)) && (has(s.trailers, k) ==> s.trailers[k] == at_lock(s.trailers[k]))))
//@   loop loop#1 invariant[C03] values_of_new_keys_are_copies: md != at_lock(s.trailers) ==> (forall k string :: iter_visited(k) && has(md, k) && len(md[k]) > 0 && !at_lock(has(s.trailers, k)) ==> fresh_backing(s.trailers[k]))
//@   loop loop#1 invariant[C03] source_map_unchanged: md != at_lock(s.trailers) ==> (forall k string :: has(md, k) == at_lock(has(md, k)) && md[k] == at_lock(md[k]) && (iter_visited(k) ==> has(md, k)))
//@   ensures[C03] every_given_key_grows_by_its_values: !at_lock(s.state == 2) && md != at_lock(s.trailers) ==> (forall k string :: has(md, k) ==> has(s.trailers, k) && len(s.trailers[k]) == at_lock(len(s.trailers[k])) + len(md[k]))
//@   ensures[C03] other_keys_keep_their_values: !at_lock(s.state == 2) && md != at_lock(s.trailers) ==> (forall k string :: !has(md, k) ==> has(s.trailers, k) == at_lock(has(s.trailers, k)) && (has(s.trailers, k) ==> s.trailers[k] == at_lock(s.trailers[k])))
//@   ensures[C03] open_stream_accepts_trailers: !at_lock(s.state == 2) ==> result == nil
//@   ensures[C03,C10] values_of_new_keys_never_share_the_handlers_slices: !at_lock(s.state == 2) && md != at_lock(s.trailers) ==> (forall k string :: has(md, k) && len(md[k]) > 0 && !at_lock(has(s.trailers, k)) ==> fresh_backing(s.trailers[k]))
//@   ensures[C03,C10] the_accumulator_is_the_streams_own_map_never_the_handlers: !at_lock(s.state == 2) && md != at_lock(s.trailers) ==> s.trailers != nil && s.trailers != md && (at_lock(s.trailers) != nil ==> s.trailers == at_lock(s.trailers))
//@   modifies s.trailers, maps("metadata.MD"), mem("string")
//
//@ func (*inProcessServerStream).setHeader
//@   locks_only[C05] &s.mu
//@   ensures[C03] headers_after_they_were_sent_refused_and_nothing_changes: at_lock(s.state != 0) ==> result != nil && s.headers == at_lock(s.headers) && (forall k string :: has(s.headers, k) == at_lock(has(s.headers, k)) && s.headers[k] == at_lock(s.headers[k]))
//@   loop loop#1 invariant[C03] map_ready: md != at_lock(s.headers) ==> s.headers != nil && s.headers != md && !(s.state != 0) && held(&s.mu) && (at_lock(s.headers) != nil ==> s.headers == at_lock(s.headers))
//@   loop loop#1 invariant[C03] visited_keys_grew_others_unchanged: md != at_lock(s.headers) ==> (forall k string :: (iter_visited(k) && has(md, k) ==> has(s.headers, k) && len(s.headers[k]) == at_lock(len(s.headers[k])) + len(md[k])) && (!iter_visited(k) ==> has(s.headers, k) == at_lock(has(s.headers, k)) && (has(s.headers, k) ==> s.headers[k] == at_lock(s.headers[k]))))
//@   loop loop#1 invariant[C03] values_of_new_keys_are_copies: md != at_lock(s.headers) ==> (forall k string :: iter_visited(k) && has(md, k) && len(md[k]) > 0 && !at_lock(has(s.headers, k)) ==> fresh_backing(s.headers[k]))
//@   loop loop#1 invariant[C03] source_map_unchanged: md != at_lock(s.headers) ==> (forall k string :: has(md, k) == at_lock(has(md, k)) && md[k] == at_lock(md[k]) && (iter_visited(k) ==> has(md, k)))
//@   ensures[C03] every_given_key_grows_by_its_values: !at_lock(s.state != 0) && md != at_lock(s.headers) && !send ==> (forall k string :: has(md, k) ==> has(s.headers, k) && len(s.headers[k]) == at_lock(len(s.headers[k])) + len(md[k]))
//@   ensures[C03] other_keys_keep_their_values: !at_lock(s.state != 0) && md != at_lock(s.headers) && !send ==> (forall k string :: !has(md, k) ==> has(s.headers, k) == at_lock(has(s.headers, k)) && (has(s.headers, k) ==> s.headers[k] == at_lock(s.headers[k])))
//@   ensures[C03] send_flushes_through_sendHeadersLocked: send && !at_lock(s.state != 0) ==> calls("(*inProcessServerStream).sendHeadersLocked") == 1 && result == lastresult("(*inProcessServerStream).sendHeadersLocked")
//@   ensures[C03,C10] the_accumulator_is_the_streams_own_map_never_the_handlers: !at_lock(s.state != 0) && md != at_lock(s.headers) && !send ==> s.headers != nil && s.headers != md && (at_lock(s.headers) != nil ==> s.headers == at_lock(s.headers))
//@   ensures[C03,C10] values_of_new_keys_never_share_the_handlers_slices: !at_lock(s.state != 0) && md != at_lock(s.headers) && !send ==> (forall k string :: has(md, k) && len(md[k]) > 0 && !at_lock(has(s.headers, k)) ==> fresh_backing(s.headers[k]))
//@   ensures[C03] plain_set_sends_nothing: !send ==> !called("(*inProcessServerStream).sendHeadersLocked") && (!at_lock(s.state != 0) ==> result == nil)
//@   modifies everything
//
//@ func (*inProcessServerStream).sendHeadersLocked
//@   locks_only[C05] nothing
//@   requires held(&s.mu) && s.state == 0 && !closed(s.responses) && s.responses != nil
//@   ensures[C03] at_most_one_header_frame_and_none_when_empty: calls(writeMessage) <= 1 && (old(len(s.headers)) == 0 ==> !called(writeMessage))
//@   assert_call[C03,C01] writeMessage : headers_frame_on_the_response_channel: arg0 == s.ctx && arg1 == nil && arg2 == s.responses && arg3.headers == s.headers && arg3.data == nil && arg3.trailers == nil && arg3.err == nil
//@   ensures[C03] pending_headers_are_sent: old(len(s.headers)) > 0 ==> calls(writeMessage) == 1
//@   ensures[C03] failed_send_keeps_the_headers_pending: result != nil ==> s.state == 0 && s.headers == old(s.headers)
//@   ensures[C03] after_success_headers_are_sent_for_good: result == nil ==> s.state == 1 && s.headers == nil
//@   ensures[C05] does_not_close: closed(s.responses) == old(closed(s.responses))
//@   modifies s.headers, s.state
//
//@ func (*inProcessServerStream).finish
//@   locks_only[C05] &s.mu
//@   requires !held(&s.mu) && !closed(s.responses) && s.responses != nil
//@   sole_closer s.responses
//@   assert_call[C05] inprocgrpc.inProcessServerStream.onDone : done_is_signalled_before_the_lock_is_taken: !held(&s.mu) && !called(writeMessage)
//@   ensures[C05] done_signalled_exactly_once: calls("inprocgrpc.inProcessServerStream.onDone") == 1
//@   ensures[C05,C02] stream_closed_exactly_once_and_lock_released: closed(s.responses) && !held(&s.mu)
//@   assert_call[C01,C05] writeMessage : final_frames_on_the_response_channel_under_the_lock: arg0 == s.ctx && arg1 == nil && arg2 == s.responses && held(&s.mu)
//@   assert_call[C03] writeMessage : pending_headers_go_first: arg3.headers != nil ==> !called(writeMessage) && arg3.data == nil && arg3.trailers == nil && arg3.err == nil
//@   assert_call[C03] writeMessage : trailers_before_the_error: arg3.headers == nil && arg3.trailers != nil ==> arg3.data == nil && arg3.err == nil && (!called(writeMessage) || lastarg(writeMessage, 3).headers != nil)
//@   assert_call[C02,C04] writeMessage : error_frame_is_the_handlers_error_and_comes_last: arg3.headers == nil && arg3.trailers == nil ==> arg3.data == nil && arg3.err == err && err != nil && (!called(writeMessage) || lastarg(writeMessage, 3).err == nil)
//@   ensures[C02,C04] a_failed_handler_always_gets_its_error_frame_attempted: err != nil ==> called(writeMessage) && lastarg(writeMessage, 3).err == err
//@   ensures[C02] a_successful_handler_sends_no_error_frame: err == nil ==> !called(writeMessage) || lastarg(writeMessage, 3).err == nil
//@   ensures[C20,C05] no_data_frames_from_finish: calls(writeMessage) <= 3
//@   ensures[C03,C02] every_pending_part_is_attempted_exactly_once: calls(writeMessage) == ite(at_lock(s.state) == 0 && at_lock(len(s.headers)) > 0, 1, 0) + ite(at_lock(len(s.trailers)) > 0, 1, 0) + ite(err != nil, 1, 0)
//@   assert_call[C03] writeMessage : frames_carry_the_streams_own_metadata: (arg3.headers != nil ==> arg3.headers == s.headers) && (arg3.headers == nil && arg3.trailers != nil ==> arg3.trailers == s.trailers)
//@   modifies s.state, s.trailers
//
//@ func (*inProcessServerStream).SendMsg
//@   borrowed[C06] m
//@   locks_only[C05] &s.mu
//@   ensures[C05] after_the_end_sends_report_eof_and_send_nothing: !called(writeMessage) && !called("(*inProcessServerStream).sendHeadersLocked") ==> result != nil
//@   assert_call[C03] (*inProcessServerStream).sendHeadersLocked : headers_flushed_before_the_first_message: arg0 == s && !called(writeMessage) && s.state == 0
//@   assert_call[C06,C01] inprocgrpc.Cloner.Clone : of_the_handlers_message: arg0 == s.cloner && arg1 == m$entry
//@   assert_call[C06,C01,C20] writeMessage : data_frame_carries_the_clone_never_the_original: arg0 == s.ctx && arg1 == nil && arg2 == s.responses && arg3.data == lastresult("inprocgrpc.Cloner.Clone", 0) && lastresult("inprocgrpc.Cloner.Clone", 1) == nil && arg3.headers == nil && arg3.trailers == nil && arg3.err == nil && s.state == 1 && held(&s.mu)
//@   ensures[C20,C01] exactly_one_data_frame_per_successful_send: result == nil ==> calls(writeMessage) == 1
//@   ensures[C20] never_more_than_one_data_frame_per_send: calls(writeMessage) <= 1
//@   ensures[C06] nil_message_is_refused: called(isNil) && lastresult(isNil) ==> is_status_err(result) && err_status_code(result) == 13 && !called(writeMessage)
//@   modifies s.headers, s.state, external
//
//@ func (*inProcessServerStream).RecvMsg
//@   borrowed[C06] m
//@   locks_only[C05] nothing
//@   assert_call[C01,C04] readMessage : next_request_frame_with_the_stream_context: arg0 == s.ctx && arg1 == s.requests
//@   ensures[C04,C05] receive_error_is_returned: lastresult(readMessage, 1) != nil ==> result == lastresult(readMessage, 1) && !called("inprocgrpc.Cloner.Copy")
//@   assert_call[C06,C01] inprocgrpc.Cloner.Copy : request_is_copied_into_the_handlers_message: arg0 == s.cloner && arg1 == m && arg2 == lastresult(readMessage, 0).data
//@   ensures[C01,C06] at_most_one_copy_per_receive: calls("inprocgrpc.Cloner.Copy") <= 1
//@   modifies external

// ---- inProcessClientStream (C01, C03, C04, C05, C06, C08, C20) ----
//
//@ type inProcessClientStream
//@   kept_alive_during[C01,C02,C04,C05] RecvMsg, SendMsg, Header, CloseSend
//@   guarded_by respMu : state, last, headers, trailers
//@   guarded_by reqMu : sendClosed
//@   closes_under reqMu : requests
//@   final[C01,C02,C03,C05,C06,C20] ctx, cloner, svrCtx, copts, responseStream, responses, requests
//@   invariant[C05] requests_closed_exactly_when_send_closed: (closed(self.requests) <==> self.sendClosed) && self.requests != nil
//
//@ func (*inProcessClientStream).CloseSend
//@   locks_only[C05] &s.reqMu
//@   sole_closer s.requests
//@   ensures[C05] half_closed_exactly_once: result == nil && s.sendClosed && closed(s.requests)
//@   modifies s.sendClosed
//
//@ func (*inProcessClientStream).SendMsg
//@   borrowed[C06] m
//@   locks_only[C05] &s.reqMu
//@   ensures[C05] send_after_close_fails_and_sends_nothing: at_lock(s.sendClosed) ==> result != nil && !called(writeMessage)
//@   ensures[C06] nil_message_is_refused: called(isNil) && lastresult(isNil) ==> is_status_err(result) && err_status_code(result) == 13 && !called(writeMessage)
//@   assert_call[C06,C01] inprocgrpc.Cloner.Clone : of_the_callers_message: arg0 == s.cloner && arg1 == m$entry
//@   assert_call[C06,C01,C05,C20] writeMessage : data_frame_carries_the_clone_and_gives_up_when_the_server_is_done: arg0 == s.ctx && arg1 == s.svrCtx && arg2 == s.requests && arg3.data == lastresult("inprocgrpc.Cloner.Clone", 0) && lastresult("inprocgrpc.Cloner.Clone", 1) == nil && arg3.headers == nil && arg3.trailers == nil && arg3.err == nil && held(&s.reqMu) && !s.sendClosed
//@   ensures[C20,C01] exactly_one_data_frame_per_successful_send: result == nil ==> calls(writeMessage) == 1
//@   ensures[C20] never_more_than_one_frame_per_send: calls(writeMessage) <= 1
//@   modifies external
//
//@ func (*inProcessClientStream).Trailer
//@   locks_only[C05] &s.respMu
//@   ensures[C03] result == at_lock(s.trailers)
//@   modifies nothing
//
//@ func (*inProcessClientStream).RecvMsg
//@   borrowed[C06] m
//@   locks_only[C05] &s.respMu
//@   ensures[C08,C01] delegates_under_the_lock_with_single_response_mode: calls("(*inProcessClientStream).recvMsgLocked") == 1 && result == lastresult("(*inProcessClientStream).recvMsgLocked")
//@   assert_call[C08] (*inProcessClientStream).recvMsgLocked : last_message_iff_not_response_streaming: arg0 == s && arg1 == m && (arg2 <==> !s.responseStream) && held(&s.respMu)
//@   modifies everything
//
//@ func (*inProcessClientStream).recvMsgLocked
//@   borrowed[C06] m
//@   locks_only[C05] nothing
//@   requires held(&s.respMu)
//@   loop loop#1 invariant[C01,C08] nothing_delivered_yet: !called("inprocgrpc.Cloner.Copy") && !called("(*inProcessClientStream).ensureNoMoreLocked") && !called("internal.TranslateContextError") && !called(translateHandlerError) && held(&s.respMu)
//@   ensures[C01,C06] at_most_one_copy_into_the_callers_message: calls("inprocgrpc.Cloner.Copy") <= 1
//@   assert_call[C06,C01] inprocgrpc.Cloner.Copy : into_the_callers_message: arg0 == s.cloner && arg1 == m
//@   assert_call[C01,C06] inprocgrpc.Cloner.Copy : peeked_frame_first_else_the_frame_just_read: arg2 != nil && (!called(readMessage) ==> old(s.last) != nil && arg2 == old(s.last.data)) && (called(readMessage) ==> arg2 == lastresult(readMessage, 0).data)
//@   ensures[C20,C01] no_frame_is_held_back_after_a_streaming_receive: !lastMessage && result == nil && old(s.last) == nil ==> s.last == nil
//@   ensures[C01] a_peeked_message_is_delivered_exactly_once: !lastMessage && !called(readMessage) && called("inprocgrpc.Cloner.Copy") && lastresult("inprocgrpc.Cloner.Copy") == nil ==> s.last == nil
//@   assert_call[C01,C08] (*inProcessClientStream).ensureNoMoreLocked : the_delivered_frame_was_consumed_before_probing: arg0 == s && arg1 == m && (!called(readMessage) ==> s.last == nil)
//@   ensures[C02] end_of_stream_is_reported_only_when_the_reply_channel_ended: result == io.EOF && !called("inprocgrpc.Cloner.Copy") ==> called(readMessage) && lastresult(readMessage, 1) == io.EOF
//@   ensures[C04,C02] every_failure_before_a_message_is_translated: !called("inprocgrpc.Cloner.Copy") ==> (called("internal.TranslateContextError") && result == lastresult("internal.TranslateContextError")) || (called(translateHandlerError) && result == lastresult(translateHandlerError))
//@   ensures[C08] single_response_mode_checks_for_extra_messages: lastMessage && called("inprocgrpc.Cloner.Copy") && lastresult("inprocgrpc.Cloner.Copy") == nil ==> calls("(*inProcessClientStream).ensureNoMoreLocked") == 1 && result == lastresult("(*inProcessClientStream).ensureNoMoreLocked")
//@   ensures[C01] streaming_mode_returns_the_copy_result: !lastMessage && called("inprocgrpc.Cloner.Copy") ==> result == lastresult("inprocgrpc.Cloner.Copy") && !called("(*inProcessClientStream).ensureNoMoreLocked")
//@   ensures[C01] copy_error_is_returned: called("inprocgrpc.Cloner.Copy") && lastresult("inprocgrpc.Cloner.Copy") != nil ==> result == lastresult("inprocgrpc.Cloner.Copy")
//@   assert_call[C03] (*internal.CallOptions).SetHeaders : header_frame_to_stream_and_options: arg0 == s.copts && arg1 == r.headers && s.headers == r.headers && r.headers != nil && s.state == 1
//@   assert_call[C02,C05] internal.TranslateContextError : only_for_a_failed_read_and_the_state_follows: called(readMessage) && lastresult(readMessage, 1) != nil && arg0 == lastresult(readMessage, 1) && (lastresult(readMessage, 1) == io.EOF ==> s.state == 2)
//@   assert_call[C02,C05] translateHandlerError : of_the_error_frame_and_the_stream_is_closed: s.state == 2 && (called(readMessage) ==> lastresult(readMessage, 1) == nil && s.last != nil && s.last.err == arg0 && arg0 != nil) && (!called(readMessage) ==> old(s.last) != nil && arg0 == old(s.last.err))
//@   assert_call[C03] (*internal.CallOptions).SetTrailers : trailer_frame_to_stream_and_options: arg0 == s.copts && arg1 == r.trailers && s.trailers == r.trailers && r.trailers != nil
//@   assert_call[C01,C04] readMessage : next_response_frame_with_the_stream_context: arg0 == s.ctx && arg1 == s.responses && held(&s.respMu)
//@   modifies s.state, s.last, s.headers, s.trailers, mem("metadata.MD"), mem("error"), external
//
//@ func (*inProcessClientStream).ensureNoMoreLocked
//@   borrowed[C06] m
//@   locks_only[C05] nothing
//@   requires held(&s.respMu)
//@   ensures[C08] probes_once_for_another_message: calls("(*inProcessClientStream).recvMsgLocked") == 1
//@   assert_call[C06,C08] (*inProcessClientStream).recvMsgLocked : probe_never_touches_the_callers_message: arg0 == s && arg1 != m && !arg2
//@   ensures[C08] a_second_message_is_an_internal_error: lastresult("(*inProcessClientStream).recvMsgLocked") == nil ==> is_status_err(result) && err_status_code(result) == 13 && s.state == 2 && s.last != nil && s.last.err == result
//@   ensures[C08] clean_end_is_success: lastresult("(*inProcessClientStream).recvMsgLocked") == io.EOF ==> result == nil
//@   ensures[C02,C08] a_failure_after_the_message_takes_precedence: lastresult("(*inProcessClientStream).recvMsgLocked") != nil && lastresult("(*inProcessClientStream).recvMsgLocked") != io.EOF ==> result == lastresult("(*inProcessClientStream).recvMsgLocked")
//@   modifies s.state, s.last, s.headers, s.trailers, mem("metadata.MD"), mem("error"), external
//
//@ func (*inProcessClientStream).Header
//@   locks_only[C05] &s.respMu
//@   ensures[C03] returns_the_headers_seen_so_far: result1 == nil ==> result0 == s.headers
//@   assert_call[C04,C01] readMessage : first_frame_with_the_stream_context: arg0 == s.ctx && arg1 == s.responses && at_lock(s.state) == 0
//@   assert_call[C01,C05] readMessage : the_peek_and_its_bookkeeping_are_one_critical_section: held(&s.respMu) && s.state == 0
//@   ensures[C04] receive_failure_is_returned: called(readMessage) && lastresult(readMessage, 1) != nil && lastresult(readMessage, 1) != io.EOF ==> result0 == nil && result1 == lastresult(readMessage, 1)
//@   ensures[C03] reads_at_most_one_frame: calls(readMessage) <= 1
//@   ensures[C03,C01,C20] a_frame_is_read_for_headers_at_most_once_per_stream: called(readMessage) && (lastresult(readMessage, 1) == nil || lastresult(readMessage, 1) == io.EOF) ==> s.state != 0
//@   ensures[C02,C05] end_of_stream_or_an_error_frame_closes_the_stream: called(readMessage) && (lastresult(readMessage, 1) == io.EOF || (lastresult(readMessage, 1) == nil && lastresult(readMessage, 0).headers == nil && lastresult(readMessage, 0).data == nil && lastresult(readMessage, 0).trailers == nil && lastresult(readMessage, 0).err != nil)) ==> s.state == 2
//@   assert_call[C03] (*internal.CallOptions).SetHeaders : header_frame_to_stream_and_options: arg0 == s.copts && arg1 == m.headers && s.headers == m.headers && m.headers != nil
//@   assert_call[C03] (*internal.CallOptions).SetTrailers : trailer_frame_to_stream_and_options: arg0 == s.copts && arg1 == m.trailers && s.trailers == m.trailers && m.trailers != nil && m.headers == nil && m.data == nil
//@   ensures[C01,C02] a_data_or_error_frame_is_kept_for_the_next_receive: called(readMessage) && lastresult(readMessage, 1) == nil && lastresult(readMessage, 0).headers == nil && (lastresult(readMessage, 0).data != nil || lastresult(readMessage, 0).trailers == nil) ==> s.last != nil && s.last.data == lastresult(readMessage, 0).data && s.last.err == lastresult(readMessage, 0).err
//@   modifies s.state, s.last, s.headers, s.trailers, mem("metadata.MD"), mem("inprocgrpc.frame"), external

// ---- cloner.go (C18, C06) ----
//
//@ func (ProtoCloner).Copy
//@   ensures[C18,C06] two_messages_use_the_protobuf_copy: implements(out, "proto.Message") && implements(in, "proto.Message") ==> calls("internal.CopyMessage") == 1 && result == lastresult("internal.CopyMessage") && !called(CodecCloner)
//@   assert_call[C18,C06] internal.CopyMessage : arg0 == out && arg1 == in
//@   ensures[C18,C06] anything_else_goes_through_the_registered_codec: !(implements(out, "proto.Message") && implements(in, "proto.Message")) ==> !called("internal.CopyMessage") && calls(CodecCloner) == 1 && calls("inprocgrpc.Cloner.Copy") == 1 && result == lastresult("inprocgrpc.Cloner.Copy")
//@   assert_call[C18,C06] CodecCloner : with_the_registered_proto_codec: arg0 == registered_codec("proto")
//@   assert_call[C18,C06] inprocgrpc.Cloner.Copy : arg0 == lastresult(CodecCloner) && arg1 == out && arg2 == in
//@   modifies external
//
//@ func (ProtoCloner).Clone
//@   ensures[C18,C06] a_message_uses_the_protobuf_clone: implements(in, "proto.Message") ==> calls("internal.CloneMessage") == 1 && result0 == lastresult("internal.CloneMessage", 0) && result1 == lastresult("internal.CloneMessage", 1) && !called(CodecCloner)
//@   assert_call[C18,C06] internal.CloneMessage : arg0 == in
//@   ensures[C18,C06] anything_else_goes_through_the_registered_codec: !implements(in, "proto.Message") ==> !called("internal.CloneMessage") && calls(CodecCloner) == 1 && calls("inprocgrpc.Cloner.Clone") == 1 && result0 == lastresult("inprocgrpc.Cloner.Clone", 0) && result1 == lastresult("inprocgrpc.Cloner.Clone", 1)
//@   assert_call[C18,C06] CodecCloner : with_the_registered_proto_codec: arg0 == registered_codec("proto")
//@   modifies external
//
//@ func (*funcCloner).Copy
//@   ensures[C18,C06] calls("inprocgrpc.funcCloner.copy") == 1 && result == lastresult("inprocgrpc.funcCloner.copy")
//@   assert_call[C18,C06] inprocgrpc.funcCloner.copy : destination_first_then_source: arg0 == out && arg1 == in
//@   modifies external
//@ func (*funcCloner).Clone
//@   ensures[C18,C06] calls("inprocgrpc.funcCloner.clone") == 1 && result0 == lastresult("inprocgrpc.funcCloner.clone", 0) && result1 == lastresult("inprocgrpc.funcCloner.clone", 1)
//@   assert_call[C18,C06] inprocgrpc.funcCloner.clone : arg0 == in
//@   modifies external
//
//@ func CloneFunc
//@   ensures[C18,C06] a1: typeis(result, "*funcCloner")
//@   ensures[C18,C06] a2: fresh(unbox(result, "*funcCloner"))
//@   ensures[C18,C06] a3: unbox(result, "*funcCloner").clone == fn$entry
//@   ensures[C18,C06] a4: isfunc(unbox(result, "*funcCloner").copy, "CloneFunc.copyFn")
//@   ensures[C18,C06] a5: *binding(unbox(result, "*funcCloner").copy, 0, "*func(interface{}) (interface{}, error)") == fn$entry
//@   modifies nothing
//
//@ closure CloneFunc.copyFn
//@   ensures[C18,C06] source_is_deep_cloned_first_exactly_once: calls("var:fn") == 1
//@   assert_call[C18,C06] var:fn : of_the_source: arg0 == in$entry && !called("reflect.ValueOf")
//@   ensures[C18,C06] clone_failure_is_returned_and_destination_untouched: lastresult("var:fn", 1) != nil ==> result == lastresult("var:fn", 1) && !called("(reflect.Value).Set")
//@   assert_call[C18,C06] reflect.ValueOf : first_the_clone_then_the_destination: (!called("reflect.ValueOf") ==> arg0 == lastresult("var:fn", 0)) && (called("reflect.ValueOf") ==> arg0 == out)
//@   assert_call[C18,C06] (reflect.Value).Set : the_destination_receives_the_clone_not_the_source: arg0 == dest && arg1 == src && lastresult("(reflect.Value).CanSet")
//@   ensures[C18,C06] different_types_or_unsettable_are_refused: result == nil ==> calls("(reflect.Value).Set") == 1
//@   ensures[C18,C06] at_most_one_set: calls("(reflect.Value).Set") <= 1
//@   modifies external
//
//@ func CopyFunc
//@   ensures[C18,C06] copy_is_the_given_function_clone_is_new_then_copy: typeis(result, "*funcCloner") && fresh(unbox(result, "*funcCloner")) && unbox(result, "*funcCloner").copy == fn$entry && isfunc(unbox(result, "*funcCloner").clone, "CopyFunc.cloneFn") && *binding(unbox(result, "*funcCloner").clone, 0, "*func(interface{}, interface{}) error") == fn$entry
//@   modifies nothing
//
//@ closure CopyFunc.cloneFn
//@   ensures[C18,C06] copies_once_into_a_fresh_value: calls("var:fn") <= 1 && (result1 == nil ==> calls("var:fn") == 1)
//@   assert_call[C18,C06] var:fn : fresh_destination_of_the_sources_type_then_source: arg0 == lastresult("(reflect.Value).Interface") && arg1 == in && lastarg("reflect.TypeOf", 0) == in
//@   ensures[C18,C06] copy_failure_yields_no_clone: called("var:fn") && lastresult("var:fn") != nil ==> result0 == nil && result1 == lastresult("var:fn")
//@   ensures[C18,C06] success_returns_the_fresh_value: called("var:fn") && lastresult("var:fn") == nil ==> result1 == nil && result0 == lastresult("(reflect.Value).Interface")
//@   ensures[C18] a_refusal_yields_no_clone: result1 != nil ==> result0 == nil
//@   modifies external
//
//@ func CodecCloner
//@   ensures[C18,C06] built_on_CopyFunc: calls(CopyFunc) == 1 && result == lastresult(CopyFunc)
//@   assert_call[C18,C06] CopyFunc : with_the_marshal_unmarshal_copy: isfunc(arg0, "CodecCloner.arg#1") && *binding(arg0, 0, "*encoding.Codec") == codec$entry
//@   modifies nothing
//
//@ closure CodecCloner.arg#1
//@   assert_call[C18,C06] encoding.Codec.Marshal : the_source_with_the_given_codec: arg0 == codec && arg1 == in
//@   assert_call[C18,C06] encoding.Codec.Unmarshal : the_marshalled_bytes_into_the_destination: arg0 == codec && arg1 == lastresult("encoding.Codec.Marshal", 0) && arg2 == out && lastresult("encoding.Codec.Marshal", 1) == nil
//@   ensures[C18,C06] marshal_failure_is_returned_without_touching_the_destination: lastresult("encoding.Codec.Marshal", 1) != nil ==> result == lastresult("encoding.Codec.Marshal", 1) && !called("encoding.Codec.Unmarshal")
//@   ensures[C18,C06] unmarshal_result_is_returned: called("encoding.Codec.Unmarshal") ==> result == lastresult("encoding.Codec.Unmarshal")
//@   ensures[C18,C06] marshals_exactly_once: calls("encoding.Codec.Marshal") == 1
//@   ensures[C18,C06] every_successful_marshal_is_decoded_into_the_destination: lastresult("encoding.Codec.Marshal", 1) == nil ==> calls("encoding.Codec.Unmarshal") == 1
//@   modifies external

// ---- configuration and thin wrappers ----
//
//@ func (*Channel).RegisterService
//@   requires desc != nil
//@   on_panic ensures[C15] a_refused_registration_leaves_earlier_ones_intact: old(c.handlers) != nil ==> c.handlers == old(c.handlers) && (forall k string :: has(c.handlers, k) == old(has(c.handlers, k)) && c.handlers[k] == old(c.handlers[k]))
//@   ensures[C15,C12] registered_in_the_channels_own_registry_once: calls("(grpchan.HandlerMap).RegisterService") == 1 && c.handlers != nil
//@   assert_call[C15,C12] (grpchan.HandlerMap).RegisterService : arg0 == c.handlers && arg1 == desc && arg2 == svr && c.handlers != nil
//@   modifies c.handlers, maps("grpchan.HandlerMap")
//
//@ func (*Channel).GetServiceInfo
//@   requires keys_are_service_names: forall k string :: has(c.handlers, k) ==> c.handlers[k].desc != nil && c.handlers[k].desc.ServiceName == k
//@   ensures[C15] no_registry_no_info: old(c.handlers) == nil ==> result == nil && !called("(grpchan.HandlerMap).GetServiceInfo")
//@   ensures[C15] otherwise_the_registry_is_asked_once: old(c.handlers) != nil ==> calls("(grpchan.HandlerMap).GetServiceInfo") == 1
//@   ensures[C15] and_its_answer_is_returned: called("(grpchan.HandlerMap).GetServiceInfo") ==> result == lastresult("(grpchan.HandlerMap).GetServiceInfo")
//@   assert_call[C15] (grpchan.HandlerMap).GetServiceInfo : arg0 == c.handlers
//@   modifies nothing
//
//@ func (*Channel).WithServerUnaryInterceptor
//@   ensures[C16] result == c && c.unaryInterceptor == interceptor
//@   modifies c.unaryInterceptor
//
//@ func (*Channel).WithServerStreamInterceptor
//@   ensures[C16] result == c && c.streamInterceptor == interceptor
//@   modifies c.streamInterceptor
//
//@ func (*Channel).WithCloner
//@   ensures[C06,C18] result == c && c.cloner == cloner
//@   modifies c.cloner
//
// The decode callback handed to a unary handler: copies the caller's request into
// the handler's message through the channel's cloner (never hands over the request itself).
//@ closure (*Channel).Invoke.codec
//@   ensures[C06,C01] copies_the_request_once: calls("inprocgrpc.Cloner.Copy") == 1 && result == lastresult("inprocgrpc.Cloner.Copy")
//@   assert_call[C06,C01] inprocgrpc.Cloner.Copy : the_servers_own_copy_of_the_request_into_the_handlers_message: arg0 == cloner && arg1 == out && arg2 == reqCopy
//@   modifies everything
//
//@ func (*inProcessClientStream).Context
//@   ensures[C04,C10] result == s.ctx
//@   modifies nothing
//
//@ func (*inProcessServerStream).Context
//@   ensures[C04,C10] result == s.ctx
//@   modifies nothing
//
//@ func (*inProcessServerStream).SetHeader
//@   ensures[C03] sets_without_sending: calls("(*inProcessServerStream).setHeader") == 1 && result == lastresult("(*inProcessServerStream).setHeader")
//@   assert_call[C03] (*inProcessServerStream).setHeader : arg0 == s && arg1 == md && !arg2
//@   modifies everything
//
//@ func (*inProcessServerStream).SendHeader
//@   ensures[C03] sets_and_sends: calls("(*inProcessServerStream).setHeader") == 1 && result == lastresult("(*inProcessServerStream).setHeader")
//@   assert_call[C03] (*inProcessServerStream).setHeader : arg0 == s && arg1 == md && arg2
//@   modifies everything
//
//@ func (*inProcessServerStream).SetTrailer
//@   ensures[C03] delegates_to_the_error_reporting_setter: calls("(*inProcessServerStream).TrySetTrailer") == 1
//@   assert_call[C03] (*inProcessServerStream).TrySetTrailer : arg0 == s && arg1 == md
//@   modifies everything
