package main

// Ghost theories: channels / select, contexts, mutexes, wait groups, `go`.
// Also facts about package-level variables of dependencies.

import (
	"fmt"
	"go/token"
	"go/types"
	"sort"
	"strings"

	"golang.org/x/tools/go/ssa"
)

// ---------------- ghost memories ----------------

func (u *Unit) ghostArr(st *State, name string, elem Sort) Term {
	key := "ghost:" + name
	if m, ok := st.Mem[key]; ok {
		return m
	}
	m := u.Const("G0_"+name, ArrSort(SV, elem))
	st.Mem[key] = m
	st.MemSort[key] = elem
	return m
}

func (u *Unit) ghostGet(st *State, name string, elem Sort, idx Term) Term {
	v := Select(u.ghostArr(st, name, elem), idx, elem, u.distinctAddr)
	// the zero value of a sync.Mutex / WaitGroup inside an object allocated on this
	// path: not held, counter 0
	if (name == "held" || name == "wg") && v.Op == "select" && v.Args[0].Op == "" {
		if root := addrRoot(idx); u.isAllocAtom(root) && st.Fresh[root.String()] {
			return IntLit(0)
		}
	}
	return v
}

func (u *Unit) ghostSet(st *State, name string, elem Sort, idx, v Term) {
	key := "ghost:" + name
	st.Mem[key] = Store(u.ghostArr(st, name, elem), idx, v)
}

// havocChans: other goroutines may have sent / received / closed: counters only
// grow, closed only becomes true. Instantiated lazily per channel at use.
func (u *Unit) havocChans(st *State) {
	// channels whose closing is tied to a mutex this goroutine holds stay as they are
	var stable []Term
	for _, mu := range st.HeldMus {
		if !strings.HasPrefix(mu.Op, "fa_") {
			continue
		}
		for _, cf := range u.P.closesUnder[mu.Op] {
			u.Fun(cf.faFn, []Sort{SV}, SV)
			stable = append(stable, u.load(st, App(cf.faFn, SV, mu.Args[0]), cf.typ))
		}
	}
	for _, n := range []string{"ch_sent", "ch_recv", "ch_closed", "ctx_err"} {
		key := "ghost:" + n
		if old, ok := st.Mem[key]; ok {
			so := st.MemSort[key]
			nm := u.Fresh("G_"+n, ArrSort(SV, so))
			st.Mem[key] = nm
			gs := ghostStep{name: n, old: old, new: nm, sort: so}
			if n == "ch_closed" {
				gs.stable = stable
			}
			if n != "ctx_err" {
				gs.private = append([]Term(nil), st.PrivChans...)
			}
			st.GhostPrev = append(st.GhostPrev, gs)
		}
	}
}

// monotone links between successive versions of a ghost array, at index idx.
func (u *Unit) ghostMonotone(st *State, name string, idx Term) {
	for _, gs := range st.GhostPrev {
		if gs.name != name {
			continue
		}
		o := Select(gs.old, idx, gs.sort, u.distinctAddr)
		n := Select(gs.new, idx, gs.sort, u.distinctAddr)
		for _, pc := range gs.private {
			// nothing but this unit could reach the channel during that step
			u.Axiom(Implies(Eq(pc, idx), Eq(o, n)))
		}
		switch name {
		case "ch_sent", "ch_recv":
			u.Axiom(Ge(n, o))
		case "ch_closed":
			u.Axiom(Implies(o, n))
			for _, oc := range st.OwnedClose {
				// only this unit closes an owned channel
				u.Axiom(Implies(Eq(oc, idx), Eq(o, n)))
			}
			for _, sc := range gs.stable {
				u.Axiom(Implies(Eq(sc, idx), Eq(o, n)))
			}
		case "ctx_err":
			u.Axiom(Implies(Neq(o, NilV), Eq(n, o)))
		}
	}
}

type ghostStep struct {
	name     string
	old, new Term
	sort     Sort
	stable   []Term // channels that could not be closed during this step (their mutex was held)
	private  []Term // channels only this unit could reach during this step
}

// ---------------- channels ----------------

func (u *Unit) makeChan(st *State, fr *Frame, x *ssa.MakeChan) Term {
	c := u.newObject(st, "chan")
	sz := u.term(st, fr, x.Size)
	u.Fun("chcap", []Sort{SV}, SInt)
	st.Assume(Eq(App("chcap", SInt, c), sz))
	u.ghostSet(st, "ch_sent", SInt, c, IntLit(0))
	u.ghostSet(st, "ch_recv", SInt, c, IntLit(0))
	u.ghostSet(st, "ch_closed", SBool, c, False)
	st.PrivChans = append(st.PrivChans, c)
	// channel capacity bound from the contract, if any
	if u.C != nil {
		for i, cl := range u.C.Clauses {
			if cl.Kind != "chan_cap_bound" {
				continue
			}
			env := u.invEnv(st, fr)
			env.key = fmt.Sprintf("%s.cc%d", u.Name, i)
			b, err := env.Eval(cl.Expr)
			if err != nil {
				u.specError(cl, err)
				continue
			}
			ord := u.siteOrdinal(x, "chancap")
			u.Prove(st, u.obligName("chancap", fmt.Sprintf("#%d", ord)), "chancap", u.tagsOr(cl.Tags), x.Pos(), "channel capacity bounded by "+cl.Text, And(Le(IntLit(0), sz), Le(sz, b.T)), []Term{sz})
		}
	}
	return c
}

func (u *Unit) sentAt(c Term, i Term, so Sort) Term {
	fn := "sentat_" + sanitize(string(so))
	u.Fun(fn, []Sort{SV, SInt}, so)
	return App(fn, so, c, i)
}

func (u *Unit) chanSendEffect(st *State, in ssa.Instruction, c, v Term) {
	// a send is visible to contracts as a call event with designator "send"
	if fr := u.curFrame; fr != nil {
		u.callAssertions(st, fr, in, []string{"send"}, []Term{c, v})
	}
	u.bumpCalls(st, []string{"send"}, []Term{c, v}, nil)
	u.ghostMonotone(st, "ch_closed", c)
	closed := u.ghostGet(st, "ch_closed", SBool, c)
	ord := u.siteOrdinal(in, "chan-closed")
	u.Prove(st, u.obligName("chan-closed", fmt.Sprintf("send#%d", ord)), "chan-closed", u.tagsOr(nil), posOf(in), "send on a channel that is not closed: "+in.String(), Not(closed), []Term{c})
	n := u.ghostGet(st, "ch_sent", SInt, c)
	u.needSort(v.Sort)
	st.Assume(Eq(u.sentAt(c, n, v.Sort), v))
	u.ghostSet(st, "ch_sent", SInt, c, Add(n, IntLit(1)))
}

func (u *Unit) chanRecvEffect(st *State, c Term, t types.Type) (v, ok Term) {
	so := u.P.TW.SortOf(t)
	u.needSort(so)
	u.ghostMonotone(st, "ch_closed", c)
	u.ghostMonotone(st, "ch_sent", c)
	ok = u.Fresh("recv_ok", SBool)
	r := u.ghostGet(st, "ch_recv", SInt, c)
	s := u.ghostGet(st, "ch_sent", SInt, c)
	closed := u.ghostGet(st, "ch_closed", SBool, c)
	val := u.sentAt(c, r, so)
	u.typeInv(st, val, t)
	st.Assume(Implies(ok, Lt(r, s)))
	st.Assume(Implies(Not(ok), And(closed, Eq(r, s))))
	v = Ite(ok, val, u.Zero(t))
	u.ghostSet(st, "ch_recv", SInt, c, Ite(ok, Add(r, IntLit(1)), r))
	// receiving from ctx.Done(): the context is done
	if c.Op == "gh_ctx_done" {
		u.ghostMonotone(st, "ctx_err", c.Args[0])
		st.Assume(Neq(u.ctxErr(st, c.Args[0]), NilV))
	}
	return v, ok
}

func (u *Unit) chanClose(st *State, fr *Frame, in ssa.Instruction, c Term) {
	// a channel declared `closes_under mu` may only be closed with mu held
	if call, ok := in.(*ssa.Call); ok && len(call.Call.Args) == 1 {
		if ld, ok := call.Call.Args[0].(*ssa.UnOp); ok {
			if fa, ok := ld.X.(*ssa.FieldAddr); ok {
				ffn := u.fieldFn(derefType(fa.X.Type()), fa.Field)
				for mfn, cfs := range u.P.closesUnder {
					for _, cf := range cfs {
						if cf.faFn == ffn {
							obj := u.term(st, fr, fa.X)
							u.Fun(mfn, []Sort{SV}, SV)
							held := u.ghostGet(st, "held", SInt, App(mfn, SV, obj))
							ord := u.siteOrdinal(in, "lock-close")
							u.Prove(st, u.obligName("lock:"+cf.name, fmt.Sprintf("close#%d", ord)), "lock", u.tagsOr(nil), posOf(in), "channel field "+cf.name+" is closed only with its mutex held", Ge(held, IntLit(1)), nil)
						}
					}
				}
			}
		}
	}
	u.ghostMonotone(st, "ch_closed", c)
	closed := u.ghostGet(st, "ch_closed", SBool, c)
	ord := u.siteOrdinal(in, "chan-closed")
	u.Prove(st, u.obligName("chan-closed", fmt.Sprintf("close#%d", ord)), "chan-closed", u.tagsOr(nil), posOf(in), "close of a channel that is not already closed (and not nil): "+in.String(), And(Not(closed), Neq(c, NilV)), []Term{c})
	u.ghostSet(st, "ch_closed", SBool, c, True)
	st.Closes = append(st.Closes, c)
}

func (u *Unit) execSend(st *State, fr *Frame, x *ssa.Send) {
	c := u.term(st, fr, x.Chan)
	v := u.term(st, fr, x.X)
	u.curFrame = fr
	u.chanLeak(st, v)
	u.blockingOp(st, fr, x, "send")
	u.havocChans(st)
	u.chanSendEffect(st, x, c, v)
}

// syncPoint: the goroutine reaches an operation through which another goroutine's writes
// can become visible (channel receive, select, lock). Variables a goroutine spawned here
// writes have, from now on, whatever value that goroutine left in them: nothing of the
// spawned body's contract is assumed by the spawner, so the value is unknown.
func (u *Unit) syncPoint(st *State) {
	for i, a := range st.Volatile {
		if i >= len(st.VolTys) {
			break
		}
		t := st.VolTys[i]
		nv := u.FreshOfType(st, "vol", t)
		u.clockFacts(nv, t, 0)
		u.store(st, a, t, nv)
	}
}

func (u *Unit) execRecv(st *State, fr *Frame, x *ssa.UnOp) {
	u.syncPoint(st)
	c := u.term(st, fr, x.X)
	u.blockingOp(st, fr, x, "receive")
	u.havocChans(st)
	el := x.X.Type().Underlying().(*types.Chan).Elem()
	v, ok := u.chanRecvEffect(st, c, el)
	if x.CommaOk {
		fr.Vals[x] = Val{Tuple: []Val{{T: v}, {T: ok}}}
	} else {
		fr.Vals[x] = Val{T: v}
	}
}

// blockingOp: a blocking channel operation outside a select with an escape.
func (u *Unit) blockingOp(st *State, fr *Frame, in ssa.Instruction, what string) {
	ct := u.contractFor(fr.Fn)
	if ct == nil {
		ct = u.C
	}
	if ct == nil {
		return
	}
	for _, cl := range ct.Clauses {
		if cl.Kind == "blocking_escape" {
			ord := u.siteOrdinal(in, "escape")
			u.Prove(st, u.obligName("escape", fmt.Sprintf("%s#%d", what, ord)), "escape", u.tagsOr(cl.Tags), posOf(in), "blocking "+what+" outside a select with a context case", False, nil)
		}
	}
}

func (u *Unit) execSelect(st *State, fr *Frame, x *ssa.Select, k Kont) {
	u.syncPoint(st)
	u.curFrame = fr
	n := len(x.States)
	chans := make([]Term, n)
	sends := make([]Term, n)
	for i, s := range x.States {
		chans[i] = u.term(st, fr, s.Chan)
		if s.Dir == types.SendOnly {
			sends[i] = u.term(st, fr, s.Send)
			u.chanLeak(st, sends[i])
		}
	}
	u.havocChans(st)
	u.selectEscape(st, fr, x, chans)
	// result tuple layout: index, recvOk, then one value per receive state
	var recvTypes []types.Type
	for _, s := range x.States {
		if s.Dir == types.RecvOnly {
			recvTypes = append(recvTypes, s.Chan.Type().Underlying().(*types.Chan).Elem())
		}
	}
	type alt struct{ idx int }
	var alts []int
	for i := 0; i < n; i++ {
		if chans[i].String() == NilV.String() {
			continue // a nil channel is never ready
		}
		alts = append(alts, i)
	}
	if !x.Blocking {
		alts = append(alts, -1)
	}
	for ai, i := range alts {
		s2, f2 := st, fr
		if ai < len(alts)-1 {
			s2, f2 = st.Clone(), fr.cloneFor()
		}
		tup := []Val{{T: IntLit(int64(i))}, {T: False}}
		for _, rt := range recvTypes {
			tup = append(tup, Val{T: u.Zero(rt)})
		}
		if i >= 0 {
			s2.Assume(Neq(chans[i], NilV))
			if !u.Feasible(s2) {
				u.pruned++
				continue
			}
			sx := x.States[i]
			if sx.Dir == types.SendOnly {
				u.chanSendEffect(s2, x, chans[i], sends[i])
			} else {
				el := sx.Chan.Type().Underlying().(*types.Chan).Elem()
				v, ok := u.chanRecvEffect(s2, chans[i], el)
				tup[1] = Val{T: ok}
				// position among receive states
				pos := 0
				for j := 0; j < i; j++ {
					if x.States[j].Dir == types.RecvOnly {
						pos++
					}
				}
				tup[2+pos] = Val{T: v}
			}
		}
		f2.Vals[x] = Val{Tuple: tup}
		k(s2, f2)
	}
}

// selectEscape: obligation that a blocking select has a <-ctx.Done() case
// (class `escape`), when the contract asks with `blocking_escape <ctx expr>`.
func (u *Unit) selectEscape(st *State, fr *Frame, x *ssa.Select, chans []Term) {
	ct := u.contractFor(fr.Fn)
	if ct == nil {
		ct = u.C
	}
	if ct == nil {
		return
	}
	if !x.Blocking {
		// a function whose channel operations must block (backpressure) may not poll
		for _, cl := range ct.Clauses {
			if cl.Kind == "blocking_escape" {
				ord := u.siteOrdinal(x, "escape")
				u.Prove(st, u.obligName("escape", fmt.Sprintf("select-blocks#%d", ord)), "escape", u.tagsOr(cl.Tags), posOf(x), "select has no default case (a send/receive here must block until the peer, the context or the remote side is ready)", False, nil)
			}
		}
		return
	}
	for i, cl := range ct.Clauses {
		if cl.Kind != "blocking_escape" {
			continue
		}
		env := u.invEnv(st, fr)
		env.key = fmt.Sprintf("%s.be%d", u.Name, i)
		cv, err := env.Eval(cl.Expr)
		if err != nil {
			u.specError(cl, err)
			continue
		}
		u.Fun("gh_ctx_done", []Sort{SV}, SV)
		want := App("gh_ctx_done", SV, cv.T)
		// a nil context has no Done channel to wait for (optional escapes such as the
		// remote side's context are passed as nil when there is none)
		alts := []Term{Eq(cv.T, NilV)}
		for j, c := range chans {
			if x.States[j].Dir == types.RecvOnly {
				alts = append(alts, Eq(c, want))
			}
		}
		ord := u.siteOrdinal(x, "escape")
		u.Prove(st, u.obligName("escape", fmt.Sprintf("select#%d.%d", ord, i)), "escape", u.tagsOr(cl.Tags), posOf(x), "blocking select has a case receiving from ("+cl.Text+").Done()", Or(alts...), nil)
	}
}

// ---------------- contexts ----------------

func (u *Unit) ctxErr(st *State, c Term) Term {
	return u.ghostGet(st, "ctx_err", SV, c)
}

// builtinModels: hard-wired ghost theories for sync and context (DESIGN §3.4).
func (u *Unit) builtinModels(st *State, fr *Frame, site ssa.Instruction, desigs []string, args []Term) (Val, bool) {
	for _, d := range desigs {
		if strings.HasPrefix(d, "(*sync.") {
			if u.syncCall(st, fr, site, d, args) {
				return Val{T: NilV}, true
			}
		}
		switch d {
		case "context.Context.Err":
			u.havocChans(st)
			u.ghostMonotone(st, "ctx_err", args[0])
			e := u.ctxErr(st, args[0])
			u.assume("context.Context.Err returns nil, context.Canceled or context.DeadlineExceeded, and never reverts to nil")
			if cp := u.P.Prog.ImportedPackage("context"); cp != nil {
				var alts []Term
				alts = append(alts, Eq(e, NilV))
				for _, n := range []string{"Canceled", "DeadlineExceeded"} {
					if g, ok := cp.Members[n].(*ssa.Global); ok {
						alts = append(alts, Eq(e, u.loadGlobal(st, g)))
					}
				}
				u.Axiom(Or(alts...))
			}
			return Val{T: e}, true
		case "context.Context.Done":
			u.Fun("gh_ctx_done", []Sort{SV}, SV)
			return Val{T: App("gh_ctx_done", SV, args[0])}, true
		}
	}
	return Val{}, false
}

// ---------------- go statements ----------------

func (u *Unit) execGo(st *State, fr *Frame, x *ssa.Go) {
	fn, args := u.evalCallOperands(st, fr, &x.Call)
	var desigs []string
	var body *ssa.Function
	if f := x.Call.StaticCallee(); f != nil {
		desigs = u.funcDesignators(f)
		body = f
	} else {
		desigs = u.dynDesignators(&x.Call)
	}
	if clo := st.Closures[fn.T.String()]; clo != nil {
		body = clo.Fn
		desigs = append(desigs, u.funcDesignators(clo.Fn)...)
		// variables the body writes become volatile for the spawner
		for i, fv := range clo.Fn.FreeVars {
			if i < len(clo.Bindings) && clo.Bindings[i].Cell == nil && freeVarWritten(clo.Fn, fv) {
				st.Volatile = append(st.Volatile, clo.Bindings[i].T)
				st.VolTys = append(st.VolTys, derefType(fv.Type()))
			}
		}
	}
	for i := range desigs {
		desigs[i] = "go:" + desigs[i]
	}
	desigs = append(desigs, "go")
	desigs = append(desigs, u.borrowLendDesigs(st, fr, fn, args)...)
	argT := termsOf(args)
	u.callAssertions(st, fr, x, desigs, argT)
	u.bumpCalls(st, desigs, argT, nil)
	if body != nil {
		if ct, ok := u.P.Contracts[body]; ok {
			// the spawned body's precondition is the spawner's obligation
			env := &Env{u: u, st: st, old: st, vars: map[string]EVal{}, pkg: u.Pkg, fn: body, freshLo: u.fresh}
			names := u.paramNames(body, ct, body.Signature, false)
			u.bindParams(env, names, paramTypes(body, body.Signature, len(argT)), argT)
			env.fr = nil
			if clo := st.Closures[fn.T.String()]; clo != nil {
				for i, fv := range body.FreeVars {
					if i < len(clo.Bindings) && clo.Bindings[i].Cell == nil {
						el := derefType(fv.Type())
						env.vars[fv.Name()] = EVal{T: u.load(st, clo.Bindings[i].T, el), Ty: el}
					}
				}
			}
			for i, cl := range ct.Clauses {
				if cl.Kind != "requires" {
					continue
				}
				env.key = fmt.Sprintf("go.%s.req%d", u.P.FuncNames[body], i)
				g, err := env.EvalBool(cl.Expr)
				if err != nil {
					u.specError(cl, err)
					continue
				}
				ord := u.siteOrdinal(x, "pre:go")
				u.Prove(st, u.obligName("pre:go:"+u.P.FuncNames[body], fmt.Sprintf("r%d#%d", i, ord)), "pre", u.tagsOr(mergeTags(unionTags(ct), cl.Tags)), posOf(x), "spawned body requires "+cl.Text, g, nil)
			}
			// nothing of the spawned body's contract is assumed by the spawner, so it is
			// not a dependency of this proof
		} else {
			u.abstracted("go statement: body " + body.String() + " has no contract (verified separately only if listed)")
		}
	}
	// the spawned goroutine may run at any time from here on
	st.Spawned = true
}

func freeVarWritten(fn *ssa.Function, fv *ssa.FreeVar) bool {
	for _, b := range fn.Blocks {
		for _, in := range b.Instrs {
			switch x := in.(type) {
			case *ssa.Store:
				if fvRoot(x.Addr) == fv {
					return true
				}
			case *ssa.MakeClosure:
				for i, bd := range x.Bindings {
					if bd == ssa.Value(fv) {
						if freeVarWritten(x.Fn.(*ssa.Function), x.Fn.(*ssa.Function).FreeVars[i]) {
							return true
						}
					}
				}
			}
		}
	}
	return false
}

// ---------------- locks ----------------

func (u *Unit) lockCheck(st *State, fr *Frame, in ssa.Instruction, addr Term, write bool) {
	// guarded_by obligations: addr = fa_<struct>_<i>(obj) with field i guarded by mutex field m
	if !strings.HasPrefix(addr.Op, "fa_") {
		return
	}
	g, ok := u.P.guardOf[addr.Op]
	if !ok {
		return
	}
	obj := addr.Args[0]
	// objects allocated by this function and not yet published need no lock
	root := addrRoot(obj)
	if u.isAllocAtom(root) && st.Fresh[root.String()] && !st.Spawned {
		return
	}
	u.Fun(g.muFn, []Sort{SV}, SV)
	mu := App(g.muFn, SV, obj)
	held := u.ghostGet(st, "held", SInt, mu)
	what := "read"
	if write {
		what = "write"
	}
	ord := u.siteOrdinal(in, "lock")
	u.Prove(st, u.obligName("lock:"+g.field, fmt.Sprintf("%s#%d", what, ord)), "lock", u.tagsOr(g.tags), posOf(in), fmt.Sprintf("%s of %s.%s with %s held", what, g.typ, g.field, g.mu), Ge(held, IntLit(1)), nil)
}

type guardInfo struct {
	typ, field, mu, muFn string
	tags                 []string
}

func (u *Unit) lockBalance(st *State, fr *Frame) {
	top := fr
	for top.Parent != nil {
		top = top.Parent
	}
	if top.Entry == nil {
		return
	}
	seen := map[string]bool{}
	for _, mu := range st.LocksTouched {
		if seen[mu.String()] {
			continue
		}
		seen[mu.String()] = true
		before := u.ghostGet(top.Entry, "held", SInt, mu)
		after := u.ghostGet(st, "held", SInt, mu)
		u.Prove(st.Clone(), u.obligName("lock-balance", fmt.Sprintf("#%d", len(seen))), "lock", u.tagsOr(nil), u.Fn.Pos(), "every Lock is matched by an Unlock on every path", Eq(before, after), nil)
	}
}

// syncCall models sync.Mutex / RWMutex / WaitGroup operations. Returns true if handled.
func (u *Unit) syncCall(st *State, fr *Frame, site ssa.Instruction, name string, args []Term) bool {
	switch name {
	case "(*sync.Mutex).Lock", "(*sync.RWMutex).Lock", "(*sync.RWMutex).RLock":
		mu := args[0]
		u.syncPoint(st)
		u.lockSetCheck(st, fr, site, []Term{mu}, "Lock")
		held := u.ghostGet(st, "held", SInt, mu)
		st.Assume(Ge(held, IntLit(0)))
		u.ghostSet(st, "held", SInt, mu, Add(held, IntLit(1)))
		st.LocksTouched = append(st.LocksTouched, mu)
		st.HeldMus = append(st.HeldMus, mu)
		u.onLock(st, fr, mu)
		if st.LockSnap == nil {
			st.LockSnap = st.Clone()
		}
		return true
	case "(*sync.Mutex).Unlock", "(*sync.RWMutex).Unlock", "(*sync.RWMutex).RUnlock":
		mu := args[0]
		held := u.ghostGet(st, "held", SInt, mu)
		ord := u.siteOrdinal(site, "unlock")
		u.Prove(st, u.obligName("unlock", fmt.Sprintf("held#%d", ord)), "lock", u.tagsOr(nil), posOf(site), "Unlock of a mutex this goroutine holds", Ge(held, IntLit(1)), nil)
		if strings.HasPrefix(mu.Op, "fa_") {
			u.typeInvariants(st, fr, mu, mu.Args[0], site, false)
		}
		u.ghostSet(st, "held", SInt, mu, Sub(held, IntLit(1)))
		st.LocksTouched = append(st.LocksTouched, mu)
		for i := len(st.HeldMus) - 1; i >= 0; i-- {
			if st.HeldMus[i].String() == mu.String() {
				st.HeldMus = append(append([]Term(nil), st.HeldMus[:i]...), st.HeldMus[i+1:]...)
				break
			}
		}
		return true
	case "(*sync.WaitGroup).Add":
		wg := args[0]
		c := u.ghostGet(st, "wg", SInt, wg)
		u.ghostSet(st, "wg", SInt, wg, Add(c, args[1]))
		return true
	case "(*sync.WaitGroup).Done":
		wg := args[0]
		c := u.ghostGet(st, "wg", SInt, wg)
		ord := u.siteOrdinal(site, "waitgroup")
		u.Prove(st, u.obligName("waitgroup", fmt.Sprintf("nonneg#%d", ord)), "waitgroup", u.tagsOr(nil), posOf(site), "WaitGroup counter does not go negative", Ge(c, IntLit(1)), nil)
		u.ghostSet(st, "wg", SInt, wg, Sub(c, IntLit(1)))
		return true
	case "(*sync.WaitGroup).Wait":
		u.syncPoint(st)
		return true
	}
	return false
}

// onLock: fields guarded by the mutex may have been changed by other
// goroutines while it was not held.
func (u *Unit) onLock(st *State, fr *Frame, mu Term) {
	if !strings.HasPrefix(mu.Op, "fa_") {
		return
	}
	fields := u.P.guardedBy[mu.Op]
	if len(fields) == 0 {
		return
	}
	obj := mu.Args[0]
	root := addrRoot(obj)
	if u.isAllocAtom(root) && st.Fresh[root.String()] && !st.Spawned {
		return
	}
	defer u.typeInvariants(st, fr, mu, obj, nil, true)
	for _, gf := range fields {
		keys := map[string]bool{}
		u.leafKeys(gf.typ, keys)
		var ks []string
		for k := range keys {
			ks = append(ks, k)
		}
		sort.Strings(ks)
		u.Fun(gf.faFn, []Sort{SV}, SV)
		target := App(gf.faFn, SV, obj)
		for _, k := range ks {
			if _, ok := st.MemSort[k]; !ok {
				u.getMem(st, k, u.sortOfKey(gf.typ, k))
			}
			u.havocKey(st, k, func(addr Term) Term { return u.insideStruct(addr, target) })
		}
	}
}

type guardedField struct {
	faFn string
	typ  types.Type
	name string
}

// ---------------- package-level variables ----------------

var sentinelGlobals = []string{"io.EOF", "io.ErrUnexpectedEOF", "context.Canceled", "context.DeadlineExceeded", "io.ErrClosedPipe", "io.ErrShortWrite"}

func (p *Prog) immutableGlobal(g *ssa.Global) bool {
	if g.Pkg == nil {
		return false
	}
	if !strings.HasPrefix(g.Pkg.Pkg.Path(), modulePath) {
		return true // assumption: dependencies' package variables are not reassigned
	}
	p.mu.Lock()
	defer p.mu.Unlock()
	if p.immutCache == nil {
		p.immutCache = map[*ssa.Global]bool{}
	}
	if v, ok := p.immutCache[g]; ok {
		return v
	}
	// in-repo: immutable iff only stored to by package init
	res := true
	for _, f := range p.Funcs {
		if f.Name() == "init" || strings.HasPrefix(f.Name(), "init#") {
			continue
		}
		for _, b := range f.Blocks {
			for _, in := range b.Instrs {
				if s, ok := in.(*ssa.Store); ok && s.Addr == ssa.Value(g) {
					res = false
				}
			}
		}
	}
	p.immutCache[g] = res
	return res
}

func (p *Prog) nonNilGlobal(g *ssa.Global) bool {
	n := g.Pkg.Pkg.Name() + "." + g.Name()
	for _, s := range sentinelGlobals {
		if s == n {
			return true
		}
	}
	return false
}

func (p *Prog) sentinelDistinct(u *Unit, g *ssa.Global, c Term) {
	n := g.Pkg.Pkg.Name() + "." + g.Name()
	isS := false
	for _, s := range sentinelGlobals {
		if s == n {
			isS = true
		}
	}
	if !isS {
		return
	}
	if u.sentinels == nil {
		u.sentinels = map[string]Term{}
	}
	for on, ot := range u.sentinels {
		if on != n {
			u.Axiom(Neq(c, ot))
		}
	}
	u.sentinels[n] = c
	u.assume("sentinel errors (io.EOF, io.ErrUnexpectedEOF, context.Canceled, context.DeadlineExceeded) are distinct, non-nil and never reassigned")
}

var _ = token.NoPos

func init() {
	ghostStateFuncs["ctx_err"] = func(e *Env, a []EVal) EVal {
		e.u.ghostMonotone(e.st, "ctx_err", a[0].T)
		v := e.u.ctxErr(e.st, a[0].T)
		if cp := e.u.P.Prog.ImportedPackage("context"); cp != nil {
			alts := []Term{Eq(v, NilV)}
			for _, n := range []string{"Canceled", "DeadlineExceeded"} {
				if g, ok := cp.Members[n].(*ssa.Global); ok {
					alts = append(alts, Eq(v, e.u.loadGlobal(e.st, g)))
				}
			}
			e.u.Axiom(Or(alts...))
		}
		return EVal{T: v}
	}
	ghostStateFuncs["ctx_done"] = func(e *Env, a []EVal) EVal {
		e.u.Fun("gh_ctx_done", []Sort{SV}, SV)
		return EVal{T: App("gh_ctx_done", SV, a[0].T)}
	}
	ghostStateFuncs["closed"] = func(e *Env, a []EVal) EVal {
		e.u.ghostMonotone(e.st, "ch_closed", a[0].T)
		return EVal{T: e.u.ghostGet(e.st, "ch_closed", SBool, a[0].T)}
	}
	ghostStateFuncs["sent_n"] = func(e *Env, a []EVal) EVal {
		e.u.ghostMonotone(e.st, "ch_sent", a[0].T)
		return EVal{T: e.u.ghostGet(e.st, "ch_sent", SInt, a[0].T)}
	}
	ghostStateFuncs["recv_n"] = func(e *Env, a []EVal) EVal {
		e.u.ghostMonotone(e.st, "ch_recv", a[0].T)
		return EVal{T: e.u.ghostGet(e.st, "ch_recv", SInt, a[0].T)}
	}
	ghostStateFuncs["chcap"] = func(e *Env, a []EVal) EVal {
		e.u.Fun("chcap", []Sort{SV}, SInt)
		return EVal{T: App("chcap", SInt, a[0].T)}
	}
	ghostStateFuncs["held"] = func(e *Env, a []EVal) EVal {
		return EVal{T: Ge(e.u.ghostGet(e.st, "held", SInt, a[0].T), IntLit(1))}
	}
	theIter := func(e *Env) *IterState {
		if e.fr == nil {
			efail("iter_*: no frame")
		}
		var found *IterState
		n := 0
		for _, it := range e.fr.IterOf {
			if !it.IsString {
				found = it
				n++
			}
		}
		if n != 1 {
			efail("iter_*: the function must have exactly one active map iterator (has %d)", n)
		}
		return found
	}
	ghostStateFuncs["iter_count"] = func(e *Env, a []EVal) EVal { return EVal{T: theIter(e).Count} }
	ghostStateFuncs["iter_key"] = func(e *Env, a []EVal) EVal {
		it := theIter(e)
		if it.LastKey.IsZeroTerm() {
			efail("iter_key: no key yielded yet")
		}
		return EVal{T: it.LastKey, Ty: it.MapType.Key()}
	}
	ghostStateFuncs["iter_visited"] = func(e *Env, a []EVal) EVal {
		it := theIter(e)
		return EVal{T: Select(it.Visited, a[0].T, SBool, nil)}
	}
	ghostStateFuncs["backing"] = func(e *Env, a []EVal) EVal {
		return EVal{T: App("aobj", SV, App("sptr", SV, a[0].T))}
	}
	ghostStateFuncs["fresh_backing"] = func(e *Env, a []EVal) EVal {
		// the slice's backing array was allocated after the function was entered
		return EVal{T: Gt(App("aid", SInt, App("aobj", SV, App("sptr", SV, a[0].T))), IntLit(int64(e.freshLo)))}
	}
	ghostStateFuncs["wg_count"] = func(e *Env, a []EVal) EVal {
		return EVal{T: e.u.ghostGet(e.st, "wg", SInt, a[0].T)}
	}
}

// soleCloser: `sole_closer x.f` — every close() of a channel loaded from that
// struct field must be inside this unit (a syntactic scan of the module); then
// interference cannot close it.
func (u *Unit) soleClosers(st *State, fr *Frame) {
	if u.C == nil {
		return
	}
	for i, cl := range u.C.Clauses {
		if cl.Kind != "sole_closer" {
			continue
		}
		if id, isID := cl.Expr.(EIdent); isID {
			u.soleCloserVar(st, fr, cl, id.Name)
			continue
		}
		sel, ok := cl.Expr.(ESel)
		if !ok {
			u.specError(cl, fmt.Errorf("sole_closer needs x.field or a captured variable"))
			continue
		}
		env := u.entryEnv(fr, st)
		env.fr = fr
		env.key = fmt.Sprintf("%s.sc%d", u.Name, i)
		base, err := env.Eval(sel.X)
		if err != nil {
			u.specError(cl, err)
			continue
		}
		chv, err := env.Eval(cl.Expr)
		if err != nil {
			u.specError(cl, err)
			continue
		}
		st.OwnedClose = append(st.OwnedClose, chv.T)
		// syntactic scan
		var stT types.Type
		if base.Ty != nil {
			stT = base.Ty
			if pt, ok := stT.Underlying().(*types.Pointer); ok {
				stT = pt.Elem()
			}
		}
		inside := map[*ssa.Function]bool{}
		var mark func(f *ssa.Function)
		mark = func(f *ssa.Function) {
			inside[f] = true
			for _, af := range f.AnonFuncs {
				mark(af)
			}
		}
		mark(u.Fn)
		bad := ""
		for _, f := range u.P.Funcs {
			for _, b := range f.Blocks {
				for _, in := range b.Instrs {
					c, ok := in.(*ssa.Call)
					if !ok {
						continue
					}
					bi, ok := c.Call.Value.(*ssa.Builtin)
					if !ok || bi.Name() != "close" {
						continue
					}
					ld, ok := c.Call.Args[0].(*ssa.UnOp)
					if !ok {
						continue
					}
					fa, ok := ld.X.(*ssa.FieldAddr)
					if !ok {
						continue
					}
					ft := derefType(fa.X.Type())
					if stT == nil || !types.Identical(ft, stT) {
						continue
					}
					if ft.Underlying().(*types.Struct).Field(fa.Field).Name() != sel.Name {
						continue
					}
					if !inside[f] {
						bad = u.P.FuncNames[f]
					}
				}
			}
		}
		goal := True
		if bad != "" {
			goal = False
		}
		u.Prove(st, u.obligName("chan-owner", sel.Name), "chan-owner", u.tagsOr(cl.Tags), u.Fn.Pos(), "only this function closes "+cl.Text+" (syntactic scan of the module)", goal, nil)
	}
}

// typeInvariants: invariants declared in a `type` block over fields guarded by
// a mutex are assumed when the mutex is acquired and proved when it is released.
func (u *Unit) typeInvariants(st *State, fr *Frame, mu, obj Term, site ssa.Instruction, assume bool) {
	owner, ok := u.P.muOwner[mu.Op]
	if !ok {
		return
	}
	ts := u.P.TypeSpecs[owner.key]
	if ts == nil {
		return
	}
	// the mutex field this Lock/Unlock is about
	muField := ""
	if stt, ok := owner.typ.Underlying().(*types.Struct); ok {
		for i := 0; i < stt.NumFields(); i++ {
			if u.fieldFn(owner.typ, i) == mu.Op {
				muField = stt.Field(i).Name()
			}
		}
	}
	for i, cl := range ts.Clauses {
		if cl.Kind != "invariant" {
			continue
		}
		// an invariant belongs to the mutexes guarding the fields it mentions
		guards := map[string]bool{}
		var walk func(x Expr)
		walk = func(x Expr) {
			switch x := x.(type) {
			case ESel:
				if id, ok := x.X.(EIdent); ok && id.Name == "self" {
					if g, ok := ts.Guarded[x.Name]; ok {
						guards[g] = true
					}
				}
				walk(x.X)
			case EBinary:
				walk(x.X)
				walk(x.Y)
			case EUnary:
				walk(x.X)
			case ECall:
				for _, a := range x.Args {
					walk(a)
				}
			case EIndex:
				walk(x.X)
				walk(x.I)
			case EForall:
				walk(x.Body)
			}
		}
		walk(cl.Expr)
		if len(guards) > 0 && !guards[muField] {
			continue
		}
		env := &Env{u: u, st: st, old: st, vars: map[string]EVal{"self": {T: obj, Ty: types.NewPointer(owner.typ)}}, pkg: owner.pkg, freshLo: u.entryFresh, assuming: assume}
		env.key = fmt.Sprintf("%s.tinv%d", owner.key, i)
		g, err := env.EvalBool(cl.Expr)
		if err != nil {
			u.specError(cl, err)
			continue
		}
		if assume {
			st.Assume(g)
			continue
		}
		lbl := cl.Name
		if lbl == "" {
			lbl = fmt.Sprintf("t%d", i)
		}
		ord := u.siteOrdinal(site, "type-inv")
		u.Prove(st, u.obligName("type-inv", fmt.Sprintf("%s.%s#%d", owner.typ.Obj().Name(), lbl, ord)), "type-inv", u.tagsOr(cl.Tags), posOf(site), "type invariant of "+owner.typ.Obj().Name()+" restored at Unlock: "+cl.Text, g, nil)
	}
}

type muOwnerInfo struct {
	key string
	typ *types.Named
	pkg *types.Package
}

// soleCloserVar: `sole_closer v` for a captured (or local) channel variable v:
// every close(v) in the enclosing function tree must be inside this unit.
func (u *Unit) soleCloserVar(st *State, fr *Frame, cl *Clause, name string) {
	env := u.entryEnv(fr, st)
	env.fr = fr
	chv, err := env.Eval(cl.Expr)
	if err != nil {
		u.specError(cl, err)
		return
	}
	st.OwnedClose = append(st.OwnedClose, chv.T)
	inside := map[*ssa.Function]bool{}
	var mark func(f *ssa.Function)
	mark = func(f *ssa.Function) {
		inside[f] = true
		for _, af := range f.AnonFuncs {
			mark(af)
		}
	}
	mark(u.Fn)
	root := u.Fn
	for root.Parent() != nil {
		root = root.Parent()
	}
	bad := ""
	var scan func(f *ssa.Function)
	scan = func(f *ssa.Function) {
		for _, b := range f.Blocks {
			for _, in := range b.Instrs {
				c, ok := in.(*ssa.Call)
				if !ok {
					continue
				}
				bi, ok := c.Call.Value.(*ssa.Builtin)
				if !ok || bi.Name() != "close" {
					continue
				}
				ld, ok := c.Call.Args[0].(*ssa.UnOp)
				if !ok {
					continue
				}
				vn := ""
				switch x := ld.X.(type) {
				case *ssa.FreeVar:
					vn = x.Name()
				case *ssa.Alloc:
					vn = x.Comment
				}
				if vn == name && !inside[f] {
					bad = f.Name()
				}
			}
		}
		for _, af := range f.AnonFuncs {
			scan(af)
		}
	}
	scan(root)
	goal := True
	if bad != "" {
		goal = False
	}
	u.Prove(st, u.obligName("chan-owner", name), "chan-owner", u.tagsOr(cl.Tags), u.Fn.Pos(), "only this function closes "+cl.Text+" (syntactic scan of the enclosing function)", goal, nil)
}

// chanLeak: values handed to other code (call arguments, closure bindings,
// heap stores, sends). A private channel mentioned by one of them, directly or
// through a local variable that holds it, is from now on reachable by others.
func (u *Unit) chanLeak(st *State, vals ...Term) {
	if len(st.PrivChans) == 0 {
		return
	}
	var strs []string
	for _, v := range vals {
		strs = append(strs, v.String())
	}
	mentions := func(name string) bool {
		for _, s := range strs {
			if strings.Contains(s, name) {
				return true
			}
		}
		return false
	}
	var keep []Term
	for _, pc := range st.PrivChans {
		leaked := mentions(pc.A)
		if !leaked {
			for cell, chans := range st.PrivTaint {
				for _, c := range chans {
					if c == pc.A && mentions(cell) {
						leaked = true
					}
				}
			}
		}
		if !leaked {
			keep = append(keep, pc)
		}
	}
	st.PrivChans = keep
}

// chanStore: a store of v at addr; local variable cells only remember what they hold.
func (u *Unit) chanStore(st *State, addr, v Term) {
	if len(st.PrivChans) == 0 {
		return
	}
	if addr.Op == "" && strings.HasPrefix(addr.A, "obj!") && st.Fresh[addr.String()] {
		vs := v.String()
		for _, pc := range st.PrivChans {
			if strings.Contains(vs, pc.A) {
				nt := cloneTaint(st.PrivTaint)
				if nt == nil {
					nt = map[string][]string{}
				}
				nt[addr.A] = append(append([]string(nil), nt[addr.A]...), pc.A)
				st.PrivTaint = nt
			}
		}
		return
	}
	u.chanLeak(st, v)
}

// ---------------- lock sets (locks_only) ----------------
//
// `locks_only &s.reqMu` in a function contract: the only mutexes this function
// (including what it calls inside the module) ever waits for are the listed
// ones. This is the contract form of the rule "the send path never takes the
// receive lock": an operation that takes a lock another operation holds while
// blocked can deadlock although every single function is locally correct.

func (u *Unit) ownLockSet(st *State, fr *Frame) (set []Term, cl *Clause, has bool) {
	if u.C == nil {
		return nil, nil, false
	}
	top := fr
	for top.Parent != nil {
		top = top.Parent
	}
	if top.Entry == nil {
		return nil, nil, false
	}
	for _, c := range u.C.Clauses {
		if c.Kind != "locks_only" {
			continue
		}
		has = true
		cl = c
		env := u.entryEnv(top, top.Entry)
		for _, ex := range c.Exprs {
			v, err := env.Eval(ex)
			if err != nil {
				u.specError(c, err)
				continue
			}
			set = append(set, v.T)
		}
	}
	return set, cl, has
}

func (u *Unit) lockSetCheck(st *State, fr *Frame, site ssa.Instruction, mus []Term, what string) {
	set, cl, has := u.ownLockSet(st, fr)
	if !has {
		return
	}
	for _, mu := range mus {
		var alts []Term
		for _, m := range set {
			alts = append(alts, Eq(mu, m))
		}
		ord := u.siteOrdinal(site, "lockset")
		u.Prove(st, u.obligName("lockset", fmt.Sprintf("#%d", ord)), "lockset", u.tagsOr(cl.Tags), posOf(site), what+" only of a mutex listed in locks_only: "+cl.Text, Or(alts...), []Term{mu})
	}
}

// lockSetCall: a call to another function of the module from a unit with a lock set.
func (u *Unit) lockSetCall(st *State, fr *Frame, site ssa.Instruction, callee *ssa.Function, ct *Contract, env *Env) {
	_, cl, has := u.ownLockSet(st, fr)
	if !has || callee == nil || callee.Pkg == nil || !strings.HasPrefix(callee.Pkg.Pkg.Path(), modulePath) {
		return
	}
	if ct != nil {
		declared := false
		var mus []Term
		for _, c := range ct.Clauses {
			if c.Kind != "locks_only" {
				continue
			}
			declared = true
			for _, ex := range c.Exprs {
				v, err := env.Eval(ex)
				if err != nil {
					u.specError(c, err)
					continue
				}
				mus = append(mus, v.T)
			}
		}
		if declared {
			u.lockSetCheck(st, fr, site, mus, "call to "+callee.Name()+" which locks")
			return
		}
	}
	if u.P.mayLock(callee) {
		ord := u.siteOrdinal(site, "lockset")
		u.Prove(st, u.obligName("lockset", fmt.Sprintf("call:%s#%d", callee.Name(), ord)), "lockset", u.tagsOr(cl.Tags), posOf(site), "callee "+callee.Name()+" takes a mutex but declares no locks_only set", False, nil)
	}
}

// mayLock: fn, or a function of the module it statically calls, calls Lock/RLock.
func (p *Prog) mayLock(fn *ssa.Function) bool {
	p.mu.Lock()
	if p.mayLockCache == nil {
		p.mayLockCache = map[*ssa.Function]bool{}
	}
	p.mu.Unlock()
	seen := map[*ssa.Function]bool{}
	var visit func(f *ssa.Function) bool
	visit = func(f *ssa.Function) bool {
		if f == nil || seen[f] {
			return false
		}
		seen[f] = true
		p.mu.Lock()
		v, ok := p.mayLockCache[f]
		p.mu.Unlock()
		if ok {
			return v
		}
		for _, b := range f.Blocks {
			for _, in := range b.Instrs {
				var cc *ssa.CallCommon
				switch x := in.(type) {
				case *ssa.Call:
					cc = &x.Call
				case *ssa.Defer:
					cc = &x.Call
				case *ssa.Go:
					continue // another goroutine's locks are not this one's
				case *ssa.MakeClosure:
					if visit(x.Fn.(*ssa.Function)) {
						return true
					}
					continue
				default:
					continue
				}
				if sc := cc.StaticCallee(); sc != nil {
					switch sc.String() {
					case "(*sync.Mutex).Lock", "(*sync.RWMutex).Lock", "(*sync.RWMutex).RLock":
						return true
					}
					if sc.Pkg != nil && strings.HasPrefix(sc.Pkg.Pkg.Path(), modulePath) && visit(sc) {
						return true
					}
				}
			}
		}
		return false
	}
	r := visit(fn)
	p.mu.Lock()
	p.mayLockCache[fn] = r
	p.mu.Unlock()
	return r
}
