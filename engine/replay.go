package main

// Replay of solver counterexamples on the real code: a generic driver for
// functions over scalars and strings (the model's inputs are passed to the
// real function through an overlay test and the failed clause is evaluated in
// Go), and a registry of hand-written drivers for structured scenarios.

import (
	"encoding/json"
	"fmt"
	"go/types"
	"math/big"
	"os"
	"os/exec"
	"path/filepath"
	"strings"
	"time"
)

// ---- s-expression parsing of (get-value ...) output ----

type sexp struct {
	atom string
	list []*sexp
}

func parseSexps(s string) []*sexp {
	var out []*sexp
	i := 0
	var parse func() *sexp
	skip := func() {
		for i < len(s) && (s[i] == ' ' || s[i] == '\n' || s[i] == '\t' || s[i] == '\r') {
			i++
		}
	}
	parse = func() *sexp {
		skip()
		if i >= len(s) {
			return nil
		}
		if s[i] == '(' {
			i++
			n := &sexp{list: []*sexp{}}
			for {
				skip()
				if i >= len(s) {
					return n
				}
				if s[i] == ')' {
					i++
					return n
				}
				c := parse()
				if c == nil {
					return n
				}
				n.list = append(n.list, c)
			}
		}
		if s[i] == '"' {
			j := i + 1
			for j < len(s) && s[j] != '"' {
				j++
			}
			a := s[i:min(j+1, len(s))]
			i = j + 1
			return &sexp{atom: a}
		}
		j := i
		for j < len(s) && !strings.ContainsRune(" \n\t\r()", rune(s[j])) {
			j++
		}
		a := s[i:j]
		i = j
		return &sexp{atom: a}
	}
	for {
		skip()
		if i >= len(s) {
			break
		}
		if s[i] == ')' {
			i++
			continue
		}
		n := parse()
		if n == nil {
			break
		}
		out = append(out, n)
	}
	return out
}

func (n *sexp) String() string {
	if n.list == nil {
		return n.atom
	}
	parts := make([]string, len(n.list))
	for i, c := range n.list {
		parts[i] = c.String()
	}
	return "(" + strings.Join(parts, " ") + ")"
}

func sexpInt(n *sexp) (*big.Int, bool) {
	if n.list == nil {
		v, ok := new(big.Int).SetString(n.atom, 10)
		return v, ok
	}
	if len(n.list) == 2 && n.list[0].atom == "-" {
		v, ok := sexpInt(n.list[1])
		if ok {
			return new(big.Int).Neg(v), true
		}
	}
	return nil, false
}

// modelValues parses "((t1 v1) (t2 v2) ...)" into a map keyed by term text.
func modelValues(out string) map[string]*sexp {
	res := map[string]*sexp{}
	for _, top := range parseSexps(out) {
		if top.list == nil {
			continue
		}
		for _, pair := range top.list {
			if pair.list != nil && len(pair.list) == 2 {
				res[pair.list[0].String()] = pair.list[1]
			}
		}
	}
	return res
}

// ---- expression -> Go source (for the generic driver) ----

type goGen struct {
	p      *Prog
	vars   map[string]string // spec identifier -> Go expression
	failed string
}

func (g *goGen) expr(x Expr) string {
	switch x := x.(type) {
	case EInt:
		return x.V
	case EStr:
		return fmt.Sprintf("%q", x.V)
	case EChar:
		return fmt.Sprintf("%d", x.V)
	case EBool:
		if x.V {
			return "true"
		}
		return "false"
	case EIdent:
		if v, ok := g.vars[x.Name]; ok {
			return v
		}
		if m, ok := g.p.Macros[x.Name]; ok && len(m.Params) == 0 {
			return "(" + g.expr(m.Body) + ")"
		}
		return x.Name // package-level constant or similar
	case ESel:
		if id, ok := x.X.(EIdent); ok {
			if _, isVar := g.vars[id.Name]; !isVar {
				return id.Name + "." + x.Name
			}
		}
		g.failed = "field selection"
		return "0"
	case EUnary:
		switch x.Op {
		case "!", "-":
			return "(" + x.Op + g.expr(x.X) + ")"
		}
		g.failed = "unary " + x.Op
		return "0"
	case EBinary:
		a, b := g.expr(x.X), g.expr(x.Y)
		switch x.Op {
		case "==>":
			return "(!(" + a + ") || (" + b + "))"
		case "<==>":
			return "((" + a + ") == (" + b + "))"
		case "/", "%", "+", "-", "*":
			return "(mathInt(" + a + ") " + x.Op + " mathInt(" + b + "))"
		case "==", "!=", "<", "<=", ">", ">=":
			return "(cmpAny(" + a + ", " + b + ", \"" + x.Op + "\"))"
		}
		return "(" + a + " " + x.Op + " " + b + ")"
	case ECall:
		switch x.Fn {
		case "ite":
			if len(x.Args) == 3 {
				return "iteAny(" + g.expr(x.Args[0]) + ", " + g.expr(x.Args[1]) + ", " + g.expr(x.Args[2]) + ")"
			}
		case "old":
			return g.expr(x.Args[0])
		case "len":
			return "int64(len(" + g.expr(x.Args[0]) + "))"
		}
		if m, ok := g.p.Macros[x.Fn]; ok && len(m.Params) == len(x.Args) {
			sub := &goGen{p: g.p, vars: map[string]string{}}
			for k, v := range g.vars {
				sub.vars[k] = v
			}
			for i, pn := range m.Params {
				sub.vars[pn] = "(" + g.expr(x.Args[i]) + ")"
			}
			s := sub.expr(m.Body)
			if sub.failed != "" {
				g.failed = sub.failed
			}
			return "(" + s + ")"
		}
		g.failed = "call " + x.Fn
		return "0"
	}
	g.failed = fmt.Sprintf("%T", x)
	return "0"
}

const replayHelpers = `
func mathInt(x interface{}) int64 {
	switch v := x.(type) {
	case int: return int64(v)
	case int8: return int64(v)
	case int16: return int64(v)
	case int32: return int64(v)
	case int64: return v
	case uint: return int64(v)
	case uint8: return int64(v)
	case uint16: return int64(v)
	case uint32: return int64(v)
	case uint64: return int64(v)
	}
	return int64(reflect.ValueOf(x).Convert(reflect.TypeOf(int64(0))).Int())
}
func cmpAny(a, b interface{}, op string) bool {
	if as, ok := a.(string); ok {
		bs := b.(string)
		switch op {
		case "==": return as == bs
		case "!=": return as != bs
		}
	}
	if ab, ok := a.(bool); ok {
		bb := b.(bool)
		if op == "==" { return ab == bb }
		return ab != bb
	}
	x, y := mathInt(a), mathInt(b)
	switch op {
	case "==": return x == y
	case "!=": return x != y
	case "<": return x < y
	case "<=": return x <= y
	case ">": return x > y
	case ">=": return x >= y
	}
	return false
}
func iteAny(c bool, a, b interface{}) interface{} { if c { return a }; return b }
`

// tryReplay returns a description of the replay attempt (nil if none applies).
func (cc *checkCtx) tryReplay(prop string, rec *obRecord) map[string]interface{} {
	// obligations decided by a scan of the module have no solver model; some have a
	// scenario that shows the consequence on the real code
	for prefix, drv := range scanReplayDrivers {
		if strings.HasPrefix(rec.o.Name, prefix) {
			return drv(cc, rec)
		}
	}
	var fail *Failure
	for _, f := range rec.o.Failures {
		if f.Race != nil && f.Race.Result == "sat" {
			fail = f
			break
		}
	}
	if fail == nil {
		return map[string]interface{}{"attempted": false, "reason": "no solver produced a model (unknown/timeout)"}
	}
	if drv, ok := replayDrivers[rec.o.Unit]; ok {
		return drv(cc, rec, fail)
	}
	return cc.genericReplay(rec, fail)
}

var replayDrivers = map[string]func(cc *checkCtx, rec *obRecord, f *Failure) map[string]interface{}{}

var scanReplayDrivers = map[string]func(cc *checkCtx, rec *obRecord) map[string]interface{}{}

func basicKind(t types.Type) string {
	b, ok := t.Underlying().(*types.Basic)
	if !ok {
		return ""
	}
	switch {
	case b.Info()&types.IsInteger != 0:
		return "int"
	case b.Info()&types.IsString != 0:
		return "string"
	case b.Info()&types.IsBoolean != 0:
		return "bool"
	}
	return ""
}

func (cc *checkCtx) genericReplay(rec *obRecord, fail *Failure) map[string]interface{} {
	u := rec.u
	fn := u.Fn
	res := map[string]interface{}{"attempted": false}
	if fn == nil || fn.Parent() != nil || fn.Signature.Recv() != nil || fn.Pkg == nil {
		res["reason"] = "generic replay handles package-level functions only"
		return res
	}
	if rec.o.Class != "post" && rec.o.Class != "bounds" && rec.o.Class != "makeslice" && rec.o.Class != "div0" {
		res["reason"] = "generic replay handles postconditions and run-time panics only"
		return res
	}
	vals := modelValues(fail.Race.Output)
	var args []string
	inputs := map[string]interface{}{}
	imports := map[string]bool{}
	for _, p := range fn.Params {
		if nt, ok := p.Type().(*types.Named); ok && nt.Obj().Pkg() != nil && nt.Obj().Pkg() != fn.Pkg.Pkg {
			imports[nt.Obj().Pkg().Path()] = true
		}
	}
	for _, p := range fn.Params {
		k := basicKind(p.Type())
		term := "p_" + sanitize(p.Name())
		tn := types.TypeString(p.Type(), func(pk *types.Package) string {
			if pk == fn.Pkg.Pkg {
				return ""
			}
			return pk.Name()
		})
		switch k {
		case "int":
			v, ok := vals[term]
			n := big.NewInt(0)
			if ok {
				if iv, ok2 := sexpInt(v); ok2 {
					n = iv
				}
			}
			args = append(args, fmt.Sprintf("%s(%s)", tn, n.String()))
			inputs[p.Name()] = n.String()
		case "bool":
			b := "false"
			if v, ok := vals[term]; ok && v.atom == "true" {
				b = "true"
			}
			args = append(args, b)
			inputs[p.Name()] = b
		case "string":
			l := 0
			if v, ok := vals["(slen "+term+")"]; ok {
				if iv, ok2 := sexpInt(v); ok2 && iv.IsInt64() {
					l = int(iv.Int64())
				}
			}
			if l > 4096 {
				res["reason"] = "model string too long to materialise"
				return res
			}
			bs := make([]byte, l)
			for i := range bs {
				bs[i] = 'a'
				if v, ok := vals[fmt.Sprintf("(sat %s %d)", term, i)]; ok {
					if iv, ok2 := sexpInt(v); ok2 {
						bs[i] = byte(iv.Int64())
					}
				}
			}
			args = append(args, fmt.Sprintf("%s(%q)", tn, string(bs)))
			inputs[p.Name()] = string(bs)
		default:
			res["reason"] = "parameter " + p.Name() + " is not a scalar or string"
			return res
		}
	}
	res["inputs"] = inputs
	// clause in Go (postconditions); panics are detected by recover
	check := "true"
	nres := fn.Signature.Results().Len()
	if rec.o.Class == "post" {
		var cl *Clause
		for _, c := range u.C.Clauses {
			if c.Kind == "ensures" && "ensures "+c.Text == rec.o.Clause {
				cl = c
			}
		}
		if cl == nil {
			res["reason"] = "clause not found"
			return res
		}
		g := &goGen{p: cc.p, vars: map[string]string{}}
		for i, p := range fn.Params {
			g.vars[p.Name()] = fmt.Sprintf("a%d", i)
		}
		for i := 0; i < nres; i++ {
			g.vars[fmt.Sprintf("result%d", i)] = fmt.Sprintf("r%d", i)
			if n := fn.Signature.Results().At(i).Name(); n != "" {
				g.vars[n] = fmt.Sprintf("r%d", i)
			}
		}
		if nres > 0 {
			g.vars["result"] = "r0"
		}
		check = g.expr(cl.Expr)
		if g.failed != "" {
			res["reason"] = "clause uses a construct the generic driver cannot evaluate in Go: " + g.failed
			return res
		}
	}
	var b strings.Builder
	fmt.Fprintf(&b, "package %s\n\nimport (\n\t\"reflect\"\n\t\"testing\"\n", fn.Pkg.Pkg.Name())
	for ip := range imports {
		fmt.Fprintf(&b, "\t%q\n", ip)
	}
	fmt.Fprintf(&b, ")\n\nvar _ = reflect.TypeOf\n%s\n", replayHelpers)
	b.WriteString("func TestZZGovcReplay(t *testing.T) {\n")
	for i, a := range args {
		fmt.Fprintf(&b, "\ta%d := %s\n", i, a)
	}
	b.WriteString("\tdefer func() { if r := recover(); r != nil { t.Fatalf(\"GOVC-REPLAY: VIOLATED (panic): %v\", r) } }()\n")
	var rs, as []string
	for i := 0; i < nres; i++ {
		rs = append(rs, fmt.Sprintf("r%d", i))
	}
	for i := range args {
		as = append(as, fmt.Sprintf("a%d", i))
	}
	call := fmt.Sprintf("%s(%s)", fn.Name(), strings.Join(as, ", "))
	if nres > 0 {
		fmt.Fprintf(&b, "\t%s := %s\n", strings.Join(rs, ", "), call)
		for _, r := range rs {
			fmt.Fprintf(&b, "\t_ = %s\n", r)
		}
	} else {
		fmt.Fprintf(&b, "\t%s\n", call)
	}
	for i := range args {
		fmt.Fprintf(&b, "\t_ = a%d\n", i)
	}
	fmt.Fprintf(&b, "\tif !(%s) {\n\t\tt.Fatalf(\"GOVC-REPLAY: VIOLATED clause with results %%v\", []interface{}{%s})\n\t}\n}\n", check, strings.Join(rs, ", "))
	out, cmdline, err := runOverlayTest(cc.p.RepoDir, fn.Pkg.Pkg.Path(), "zz_govc_replay_test.go", b.String(), "TestZZGovcReplay")
	res["attempted"] = true
	res["command"] = cmdline
	if len(out) > 3000 {
		out = out[:3000]
	}
	res["output"] = out
	res["test_source"] = b.String()
	res["reproduced"] = strings.Contains(out, "GOVC-REPLAY: VIOLATED")
	if err != nil && !strings.Contains(out, "GOVC-REPLAY") {
		res["error"] = err.Error()
	}
	return res
}

// runOverlayTest injects an in-package test file through -overlay (nothing is
// written into the repository) and runs it.
func runOverlayTest(repo, pkgPath, fileName, src, run string) (string, string, error) {
	tmp, err := os.MkdirTemp("", "govc-replay-")
	if err != nil {
		return "", "", err
	}
	defer os.RemoveAll(tmp)
	rel := strings.TrimPrefix(strings.TrimPrefix(pkgPath, modulePath), "/")
	target := filepath.Join(repo, rel, fileName)
	srcPath := filepath.Join(tmp, fileName)
	if err := os.WriteFile(srcPath, []byte(src), 0o644); err != nil {
		return "", "", err
	}
	ov, _ := json.Marshal(map[string]interface{}{"Replace": map[string]string{target: srcPath}})
	ovPath := filepath.Join(tmp, "overlay.json")
	os.WriteFile(ovPath, ov, 0o644)
	pkgArg := "./" + rel
	if rel == "" {
		pkgArg = "."
	}
	args := []string{"test", "-overlay", ovPath, "-vet=off", "-count=1", "-timeout", "60s", "-run", "^" + run + "$", pkgArg}
	cmd := exec.Command("go", args...)
	cmd.Dir = repo
	cmd.Env = append(os.Environ(), "GOFLAGS=-mod=mod", "GOPROXY=off", "GOSUMDB=off", "GOTOOLCHAIN=local")
	done := make(chan struct{})
	var out []byte
	go func() { out, err = cmd.CombinedOutput(); close(done) }()
	select {
	case <-done:
	case <-time.After(180 * time.Second):
		if cmd.Process != nil {
			cmd.Process.Kill()
		}
		<-done
	}
	return string(out), "cd " + repo + " && go " + strings.Join(args, " "), err
}
