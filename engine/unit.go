package main

// A Unit is one function (or closure / goroutine body / lemma) under
// verification: its own solver process, declarations, obligations.

import (
	"fmt"
	"go/token"
	"go/types"
	"os"
	"sort"
	"strings"
	"time"

	"golang.org/x/tools/go/ssa"
)

type Failure struct {
	Asserts []string
	Goal    string
	Result  string // sat | unknown
	Trace   []string
	Values  []string // terms worth asking a model for
	Race    *RaceResult
	File    string
	NDecls  int // declarations / axioms that existed when the query was made (0: all)
	Weak    []string // why this failure may only be a missing contract (see State.Weak)
	Cuts    []string // loops whose invariants this path relied on
}

type Oblig struct {
	Name     string
	Class    string
	Tags     []string
	Pos      string
	Clause   string
	Unit     string
	Paths    int
	Trivial  int
	Failures []*Failure
	Secs     float64
	Known    string
	Proved   []*Failure // thorough tier: a sample of discharged instances, re-checked by the other solvers
}

func (o *Oblig) Discharged() bool { return len(o.Failures) == 0 && o.Paths > 0 }

type Unit struct {
	P              *Prog
	Name           string
	Fn             *ssa.Function
	C              *Contract
	Pkg            *types.Package
	sol            *SolverProc
	decls          []string
	declS          map[string]bool
	sent           int
	sDecl          map[string]bool // struct keys declared
	fresh          int
	lits           map[string]Term
	litVal         map[string]string // literal constant name -> its text
	havocSeq       int
	deadPath       bool // set when a panic-class obligation failed on the current path
	ifacesSeen     map[string]types.Type
	typesSeen      map[string]types.Type
	uncontracted   map[string]*ssa.Function // functions of the module called here that have no contract
	unspecResult   map[ssa.Value]string   // results of external functions without contract (havocked)
	baseSet        map[string]bool
	baseSetDone    bool
	roMaps         map[string]bool // constants naming read-only map globals
	snapD          map[string]bool // designators named in at_return() clauses of this unit
	refute         bool            // second run: loops are explored exactly up to unrollBound, nothing is cut (refutations only)
	brokenLoops    map[string]bool // loops one of whose invariant clauses could not be evaluated
	keepProved     bool
	havocMemo      map[string]Term
	obs            map[string]*Oblig
	obSeq          []string
	ordCnt         map[string]int
	skol           []Term
	usedContracts  map[string]bool
	abstractions   map[string]int
	assumptions    map[string]bool
	paths          int
	returns        int
	pruned         int
	deadline       time.Time
	timedOut       bool
	errs           []string
	defaultTags    []string
	frameSeq       int
	siteOrd        map[ssa.Instruction]map[string]int
	queries        int
	cacheRes       map[string]string
	loopLabels     map[*ssa.BasicBlock]string
	curFrameTop    *Frame
	covers         map[string]bool
	entryFresh     int
	modCache       *modCacheT
	assertCallSeen map[int]bool
	sentinels      map[string]Term
	slices         map[string]sliceInfo
	curFrame       *Frame
	slowQueries    int
	borrows        []*borrowInfo
	slowSecs       float64
}

// sliceInfo: syntactically known header of a slice value created on this run.
type sliceInfo struct{ ptr, off, len, cap Term }

func NewUnit(p *Prog, name string, fn *ssa.Function, c *Contract) *Unit {
	u := &Unit{P: p, Name: name, Fn: fn, C: c, declS: map[string]bool{}, sDecl: map[string]bool{}, lits: map[string]Term{}, obs: map[string]*Oblig{}, ordCnt: map[string]int{}, usedContracts: map[string]bool{}, abstractions: map[string]int{}, assumptions: map[string]bool{}, siteOrd: map[ssa.Instruction]map[string]int{}, cacheRes: map[string]string{}, covers: map[string]bool{}, slices: map[string]sliceInfo{}}
	if fn != nil && fn.Pkg != nil {
		u.Pkg = fn.Pkg.Pkg
	} else if fn != nil && fn.Parent() != nil {
		for f := fn; f != nil; f = f.Parent() {
			if f.Pkg != nil {
				u.Pkg = f.Pkg.Pkg
				break
			}
		}
	}
	return u
}

func (u *Unit) start() error {
	sp, err := StartSolver(u.P.QueryTimeoutMs)
	if err != nil {
		return err
	}
	u.sol = sp
	u.deadline = time.Now().Add(u.P.UnitTimeout)
	return nil
}

func (u *Unit) finish() {
	if u.sol != nil {
		if len(u.sol.errs) > 0 {
			u.errs = append(u.errs, u.sol.errs...)
		}
		u.sol.Close()
	}
}

func (u *Unit) abstracted(what string) { u.abstractions[what]++ }
func (u *Unit) assume(what string)     { u.assumptions[what] = true }

// ---- declarations ----

func (u *Unit) rawDecl(key, cmd string) {
	if u.declS[key] {
		return
	}
	u.declS[key] = true
	u.decls = append(u.decls, cmd)
}

func (u *Unit) flushDecls() {
	if u.sol != nil && u.sent < len(u.decls) {
		u.sol.Send(u.decls[u.sent:])
		u.sent = len(u.decls)
	}
}

func (u *Unit) needSort(so Sort) {
	s := string(so)
	if strings.HasPrefix(s, "S_") {
		if si := u.P.TW.StructBySort(so); si != nil {
			u.declStruct(si)
		}
		return
	}
	if strings.HasPrefix(s, "(Array ") {
		// (Array A B): declare component sorts
		inner := s[7 : len(s)-1]
		parts := splitSortArgs(inner)
		for _, p := range parts {
			u.needSort(Sort(p))
		}
	}
}

func splitSortArgs(s string) []string {
	var out []string
	depth := 0
	last := 0
	for i := 0; i < len(s); i++ {
		switch s[i] {
		case '(':
			depth++
		case ')':
			depth--
		case ' ':
			if depth == 0 {
				if i > last {
					out = append(out, s[last:i])
				}
				last = i + 1
			}
		}
	}
	if last < len(s) {
		out = append(out, s[last:])
	}
	return out
}

func (u *Unit) declStruct(si *StructInfo) {
	if u.sDecl[si.Key] {
		return
	}
	u.sDecl[si.Key] = true
	for _, d := range si.Deps {
		u.declStruct(u.P.TW.StructByKey(d))
	}
	for _, f := range si.Fields {
		u.needSort(f.Sort)
	}
	u.rawDecl("struct:"+si.Key, si.Decl())
}

func (u *Unit) Const(name string, so Sort) Term {
	u.needSort(so)
	u.rawDecl("c:"+name, fmt.Sprintf("(declare-const %s %s)", name, so))
	return Atom(name, so)
}

func (u *Unit) Fun(name string, args []Sort, res Sort) {
	if u.declS["f:"+name] {
		return
	}
	for _, a := range args {
		u.needSort(a)
	}
	u.needSort(res)
	as := make([]string, len(args))
	for i, a := range args {
		as[i] = string(a)
	}
	u.rawDecl("f:"+name, fmt.Sprintf("(declare-fun %s (%s) %s)", name, strings.Join(as, " "), res))
}

func (u *Unit) Axiom(t Term) {
	if isTrue(t) {
		return
	}
	u.rawDecl("ax:"+t.String(), "(assert "+t.String()+")")
}

func (u *Unit) Fresh(prefix string, so Sort) Term {
	u.fresh++
	return u.Const(fmt.Sprintf("%s!%d", sanitize(prefix), u.fresh), so)
}

func (u *Unit) StrLit(v string) Term {
	if v == "" {
		return Atom("emptyStr", SStr)
	}
	if t, ok := u.lits[v]; ok {
		return t
	}
	name := fmt.Sprintf("lit!%d", len(u.lits))
	t := u.Const(name, SStr)
	u.lits[v] = t
	if u.litVal == nil {
		u.litVal = map[string]string{}
	}
	u.litVal[name] = v
	u.Axiom(Eq(App("slen", SInt, t), IntLit(int64(len(v)))))
	for i := 0; i < len(v) && i < 96; i++ {
		u.Axiom(Eq(App("sat", SInt, t, IntLit(int64(i))), IntLit(int64(v[i]))))
	}
	// distinct from other literals of the same length (others differ by slen)
	for o, ot := range u.lits {
		if o != v && len(o) == len(v) {
			u.Axiom(Neq(t, ot))
		}
	}
	u.rawDecl("litcomment:"+name, fmt.Sprintf("; %s = %q", name, v))
	return t
}

func (u *Unit) Zero(t types.Type) Term {
	switch so := u.P.TW.SortOf(t); so {
	case SInt:
		return IntLit(0)
	case SBool:
		return False
	case SStr:
		return u.StrLit("")
	case SV:
		return NilV
	case SF:
		return u.Const("fltZero", SF)
	default:
		si := u.P.TW.Struct(t)
		u.declStruct(si)
		args := make([]Term, len(si.Fields))
		for i, f := range si.Fields {
			args[i] = u.Zero(f.Type)
		}
		if len(args) == 0 {
			return Atom(si.Ctor, si.Sort)
		}
		return App(si.Ctor, si.Sort, args...)
	}
}

// FreshOfType returns an unconstrained value of Go type t with its basic
// type invariants (integer range, non-negative lengths) asserted into st.
func (u *Unit) FreshOfType(st *State, prefix string, t types.Type) Term {
	so := u.P.TW.SortOf(t)
	v := u.Fresh(prefix, so)
	u.typeInv(st, v, t)
	return v
}

func (u *Unit) typeInv(st *State, v Term, t types.Type) {
	switch v.Sort {
	case SInt:
		u.Axiom(inRange(t, v))
	case SStr:
		u.Axiom(And(Ge(App("slen", SInt, v), IntLit(0)), Le(App("slen", SInt, v), maxInt)))
	case SV:
		switch t.Underlying().(type) {
		case *types.Slice:
			u.sliceAxioms(v)
		}
	default:
		if si := u.P.TW.StructBySort(v.Sort); si != nil {
			for _, f := range si.Fields {
				if f.Sort == SInt {
					u.Axiom(inRange(f.Type, u.Field(v, si, indexOfField(si, f.Name))))
				}
			}
		}
	}
}

func indexOfField(si *StructInfo, name string) int {
	for i, f := range si.Fields {
		if f.Name == name {
			return i
		}
	}
	return -1
}

func (u *Unit) sliceAxioms(v Term) {
	l := App("vlen", SInt, v)
	c := App("vcap", SInt, v)
	u.Axiom(And(Le(IntLit(0), l), Le(l, c), Le(c, maxInt)))
}

// Field projects field i out of a struct-sorted term.
func (u *Unit) Field(s Term, si *StructInfo, i int) Term {
	if s.Op == si.Ctor && len(s.Args) == len(si.Fields) {
		return s.Args[i]
	}
	return App(si.Fields[i].Sel, si.Fields[i].Sort, s)
}

// WithField returns s with field i replaced.
func (u *Unit) WithField(s Term, si *StructInfo, i int, v Term) Term {
	args := make([]Term, len(si.Fields))
	for j := range si.Fields {
		if j == i {
			args[j] = v
		} else {
			args[j] = u.Field(s, si, j)
		}
	}
	return App(si.Ctor, si.Sort, args...)
}

// ---- obligations ----

func (u *Unit) obligName(class, detail string) string {
	n := u.Name + "/" + class
	if detail != "" {
		n += ":" + detail
	}
	return n
}

// siteOrdinal gives a stable per-instruction ordinal within a class so that
// the same site reached on several paths maps to the same obligation.
func (u *Unit) siteOrdinal(in ssa.Instruction, class string) int {
	m := u.siteOrd[in]
	if m == nil {
		m = map[string]int{}
		u.siteOrd[in] = m
	}
	if o, ok := m[class]; ok {
		return o
	}
	key := class
	if in != nil && in.Parent() != nil {
		key = in.Parent().Name() + "/" + class
	}
	u.ordCnt[key]++
	m[class] = u.ordCnt[key]
	return m[class]
}

func (u *Unit) getOblig(name, class string, tags []string, pos token.Pos, clause string) *Oblig {
	if o, ok := u.obs[name]; ok {
		return o
	}
	o := &Oblig{Name: name, Class: class, Tags: tags, Clause: clause, Unit: u.Name}
	if pos.IsValid() {
		p := u.P.Fset.Position(pos)
		o.Pos = fmt.Sprintf("%s:%d", relPath(p.Filename), p.Line)
	}
	u.obs[name] = o
	u.obSeq = append(u.obSeq, name)
	return o
}

func relPath(p string) string {
	if strings.HasPrefix(p, "/repo/") {
		return p[len("/repo/"):]
	}
	return p
}

func pcStrings(pc []Term) []string {
	out := make([]string, len(pc))
	for i, t := range pc {
		out[i] = t.String()
	}
	return out
}

// check runs PC ∧ extra on the unit's solver.
func (u *Unit) check(st *State, extra ...Term) string {
	u.flushDecls()
	as := append([]string(nil), st.PCs...)
	var ex []string
	for _, e := range extra {
		ex = append(ex, e.String())
	}
	as = append(as, ex...)
	key := strings.Join(as, "\x00")
	if r, ok := u.cacheRes[key]; ok {
		return r
	}
	u.queries++
	t0 := time.Now()
	u.flushDecls() // extra terms may have declared something
	r := u.sol.CheckInc(st.PCs, ex)
	if d := time.Since(t0); d > 150*time.Millisecond {
		u.slowQueries++
		u.slowSecs += d.Seconds()
		debugf("slow query %.2fs (%s) in %s: %d asserts", d.Seconds(), r, u.Name, len(as))
	}
	u.cacheRes[key] = r
	return r
}

// Prove records an obligation instance on the current path.
func (u *Unit) Prove(st *State, name, class string, tags []string, pos token.Pos, clause string, goal Term, values []Term) bool {
	o := u.getOblig(name, class, tags, pos, clause)
	o.Paths++
	if dbg := os.Getenv("GOVC_GOAL"); dbg != "" && strings.Contains(name, dbg) {
		g := goal.String()
		if len(g) > 20000 {
			g = g[:20000]
		}
		fmt.Fprintf(os.Stderr, "GOAL %s: %s\n", name, g)
	}
	if isTrue(goal) {
		o.Trivial++
		return true
	}
	t0 := time.Now()
	r := u.check(st, Not(goal))
	o.Secs += time.Since(t0).Seconds()
	if r == "unsat" {
		if u.keepProved && len(o.Proved) < 2 {
			o.Proved = append(o.Proved, &Failure{Asserts: append(append([]string(nil), st.PCs...), Not(goal).String()), Goal: goal.String(), Result: r})
		}
		st.Assume(goal)
		return true
	}
	f := &Failure{Asserts: append(append([]string(nil), st.PCs...), Not(goal).String()), Goal: goal.String(), Result: r, Trace: append([]string(nil), st.Trace...), NDecls: len(u.decls), Weak: st.Weak, Cuts: st.Cuts}
	switch class {
	case "bounds", "nilmap", "div0", "typeassert", "makeslice", "chan-closed":
		if len(st.Weak) > 0 && r != "unsat" {
			// on a weak path this is "cannot decide", not a panic of the real program: the
			// path goes on as if the operation had succeeded, so that what lies behind it is
			// still looked at (and is undecided as well if it fails)
			o.Failures = append(o.Failures, f)
			st.Assume(goal)
			return false
		}
		// the real program panics here: what follows on this path is not a reachable
		// state, and facts derived from it must not leak into other queries
		u.deadPath = true
	}
	for _, v := range values {
		f.Values = append(f.Values, v.String())
		if v.Sort == SStr {
			f.Values = append(f.Values, "(slen "+v.String()+")")
			for i := 0; i < 24; i++ {
				f.Values = append(f.Values, fmt.Sprintf("(sat %s %d)", v.String(), i))
			}
		}
	}
	o.Failures = append(o.Failures, f)
	// the goal is not assumed after a failure: assuming a refuted fact could make the
	// rest of the path vacuous
	return false
}

func (u *Unit) Feasible(st *State, extra ...Term) bool {
	r := u.check(st, extra...)
	return r != "unsat"
}

func (u *Unit) tagsOr(tags []string) []string {
	if len(tags) > 0 {
		return tags
	}
	return u.defaultTags
}

func (u *Unit) expired() bool {
	if u.timedOut {
		return true
	}
	if time.Now().After(u.deadline) {
		u.timedOut = true
		u.errs = append(u.errs, "unit wall-clock cap reached")
		return true
	}
	return false
}

func (u *Unit) sortedObligs() []*Oblig {
	out := make([]*Oblig, 0, len(u.obSeq))
	for _, n := range u.obSeq {
		out = append(out, u.obs[n])
	}
	sort.SliceStable(out, func(i, j int) bool { return out[i].Name < out[j].Name })
	return out
}

func debugf(f string, a ...interface{}) {
	if os.Getenv("GOVC_DEBUG") != "" {
		fmt.Fprintf(os.Stderr, f+"\n", a...)
	}
}

func (u *Unit) sptrOf(s Term) Term {
	if si, ok := u.slices[s.String()]; ok {
		return si.ptr
	}
	return App("sptr", SV, s)
}

func (u *Unit) soffOf(s Term) Term {
	if si, ok := u.slices[s.String()]; ok {
		return si.off
	}
	return App("soff", SInt, s)
}

func (u *Unit) vlenOf(s Term) Term {
	if si, ok := u.slices[s.String()]; ok && !si.len.IsZeroTerm() {
		return si.len
	}
	return App("vlen", SInt, s)
}
