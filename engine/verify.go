package main

// Top level of a unit: entry assumptions, postconditions, loop invariants,
// panics, allocation bounds.

import (
	"fmt"
	"go/token"
	"go/types"
	"sort"
	"strings"

	"golang.org/x/tools/go/ssa"
)

func (p *Prog) unitNameOf(f *ssa.Function) string {
	name := p.FuncNames[f]
	pk := ""
	for g := f; g != nil; g = g.Parent() {
		if g.Pkg != nil {
			pk = g.Pkg.Pkg.Name()
			break
		}
	}
	return pk + "." + name
}

func (u *Unit) entryEnv(top *Frame, entry *State) *Env {
	env := &Env{u: u, st: entry, old: entry, fr: nil, vars: map[string]EVal{}, pkg: u.Pkg, fn: u.Fn, freshLo: u.entryFresh}
	for n, v := range top.Params {
		env.vars[n] = EVal{T: v.T, Ty: top.paramTypes[n]}
		env.vars[n+"$entry"] = EVal{T: v.T, Ty: top.paramTypes[n]}
	}
	return env
}

// VerifyFunc runs the unit for a function under contract.
func (u *Unit) VerifyFunc() {
	fn := u.Fn
	if fn.Blocks == nil {
		u.errs = append(u.errs, "function has no body")
		return
	}
	if u.C != nil {
		u.defaultTags = unionTags(u.C)
	}
	u.assertCallSeen = map[int]bool{}
	st := NewState()
	fr := u.newFrame(fn, nil)
	fr.Params = map[string]Val{}
	fr.paramTypes = map[string]types.Type{}
	for _, p := range fn.Params {
		v := u.Const("p_"+sanitize(p.Name()), u.P.TW.SortOf(p.Type()))
		u.typeInv(st, v, p.Type())
		fr.Vals[p] = Val{T: v}
		fr.Params[p.Name()] = Val{T: v}
		fr.paramTypes[p.Name()] = p.Type()
	}
	for _, fv := range fn.FreeVars {
		a := u.Const("fv_"+sanitize(fv.Name()), SV)
		u.Axiom(Neq(a, NilV))
		u.Axiom(Eq(App("aobj", SV, a), a))
		u.Axiom(Eq(App("akind", SInt, a), IntLit(0)))
		u.Axiom(Le(App("aid", SInt, a), IntLit(0)))
		fr.Vals[fv] = Val{T: a}
	}
	// distinct free-variable cells
	for i := range fn.FreeVars {
		for j := i + 1; j < len(fn.FreeVars); j++ {
			u.Axiom(Neq(fr.Vals[fn.FreeVars[i]].T, fr.Vals[fn.FreeVars[j]].T))
		}
	}
	// parameters refer to objects that existed before the call
	for _, p := range fn.Params {
		v := fr.Vals[p].T
		if v.Sort == SV {
			u.Axiom(Le(App("aid", SInt, App("aobj", SV, v)), IntLit(0)))
			if _, ok := p.Type().Underlying().(*types.Slice); ok {
				u.Axiom(Le(App("aid", SInt, App("aobj", SV, App("sptr", SV, v))), IntLit(0)))
			}
		}
	}
	u.entryFresh = u.fresh
	u.borrowSetup(fr)
	// pre-create skolems so that range-exit facts can be instantiated at them
	u.precreateSkolems()
	// requires
	fr.Entry = st // temporarily, for entryEnv
	if u.C != nil {
		env := u.entryEnv(fr, st)
		env.assuming = true
		env.fr = fr
		env.keepUniversals = true
		env.target = st
		entrySnap := st.Clone()
		env.st = entrySnap
		env.old = entrySnap
		for i, cl := range u.C.Clauses {
			if cl.Kind != "requires" {
				continue
			}
			env.key = fmt.Sprintf("%s.req%d", u.Name, i)
			g, err := env.EvalBool(cl.Expr)
			if err != nil {
				u.specError(cl, err)
				continue
			}
			st.Assume(g)
			// `requires held(mu)`: the caller holds mu for the whole call
			var walk func(x Expr)
			walk = func(x Expr) {
				switch x := x.(type) {
				case EBinary:
					if x.Op == "&&" {
						walk(x.X)
						walk(x.Y)
					}
				case ECall:
					if x.Fn == "held" && len(x.Args) == 1 {
						if mv, err := env.Eval(x.Args[0]); err == nil {
							st.HeldMus = append(st.HeldMus, mv.T)
						}
					}
				}
			}
			walk(cl.Expr)
		}
	}
	u.globalAxioms(st)
	u.soleClosers(st, fr)
	// vacuity guard: requires ∧ type invariants must be satisfiable
	if r := u.check(st); r == "unsat" {
		u.errs = append(u.errs, "vacuity: requires ∧ type invariants is unsatisfiable")
		return
	}
	fr.Entry = st.Clone()
	fr.Top = true
	fr.OnPanic = func(st *State, _ *Frame, v Term) { u.paths++ }
	u.enterBlock(st, fr, fn.Blocks[0], nil)
	// clause coverage: every assert_call clause must have matched a call site
	if u.C != nil && !u.timedOut {
		for i, cl := range u.C.Clauses {
			if cl.Kind == "assert_call" && !u.assertCallSeen[i] {
				// the contract describes a call that the code no longer makes on any path
				lbl := cl.Name
				if lbl == "" {
					lbl = fmt.Sprintf("c%d", i)
				}
				if mt := u.P.desigNamesMissingTarget(cl.Desig); mt != nil {
					u.errs = append(u.errs, fmt.Sprintf("cannot decide assert_call %s (%s): the contract target %s (%s:%d) no longer exists under that name", cl.Desig, lbl, mt.Target, mt.File, mt.Line))
					continue
				}
				var hs []string
				for h, hf := range u.uncontracted {
					if u.helperMayCall(hf, cl.Desig) {
						hs = append(hs, h)
					}
				}
				if len(hs) > 0 {
					// the call moved into a helper that has no contract yet: that is not a
					// violation, the contract files have to follow the refactoring
					sort.Strings(hs)
					u.errs = append(u.errs, fmt.Sprintf("cannot decide assert_call %s (%s): no call to %s here, but this function calls %s which has no contract", cl.Desig, lbl, cl.Desig, strings.Join(hs, ", ")))
					continue
				}
				o := u.getOblig(u.obligName("assert_call:"+cl.Desig, lbl+"#missing"), "assert_call", u.tagsOr(cl.Tags), u.Fn.Pos(), "assert_call "+cl.Text+" (no call to "+cl.Desig+" is reachable)")
				o.Paths++
				o.Failures = append(o.Failures, &Failure{Asserts: []string{"true"}, Goal: "false", Result: "sat"})
			}
		}
	}
	u.markOutOfStep()
}

func (u *Unit) precreateSkolems() {
	if u.C == nil {
		return
	}
	var walk func(key string, x Expr)
	walk = func(key string, x Expr) {
		switch x := x.(type) {
		case EForall:
			env := &Env{u: u, key: key}
			func() {
				defer func() { recover() }()
				env.skolem(x.Var, x.Sort)
			}()
			walk(key, x.Body)
		case EBinary:
			walk(key, x.X)
			walk(key, x.Y)
		case EUnary:
			walk(key, x.X)
		}
	}
	for i, cl := range u.C.Clauses {
		if cl.Expr == nil {
			continue
		}
		switch cl.Kind {
		case "ensures":
			walk(fmt.Sprintf("%s.ens%d", u.Name, i), cl.Expr)
		case "invariant":
			walk(fmt.Sprintf("%s.inv%d", u.Name, i), cl.Expr)
		case "assert_call":
			walk(fmt.Sprintf("%s.ac%d", u.Name, i), cl.Expr)
		case "panic_ensures":
			walk(fmt.Sprintf("%s.pens%d", u.Name, i), cl.Expr)
		}
	}
}

// globalAxioms: assumed facts about ghost functions (axiom clauses without
// quantifiers are asserted as is; quantified ones are instantiated at skolems).
func (u *Unit) globalAxioms(st *State) {
	for i, ax := range u.P.Axioms {
		env := &Env{u: u, st: st, old: st, vars: map[string]EVal{}, pkg: u.Pkg, assuming: true, key: fmt.Sprintf("axiom%d", i)}
		g, err := env.EvalBool(ax.Expr)
		if err != nil {
			continue // axiom mentions symbols not meaningful here
		}
		st.Assume(g)
	}
}

func (u *Unit) topReturn(st *State, fr *Frame, res []Val) {
	u.paths++
	// vacuity guard: branches are pruned by feasibility, so a return reached with an
	// unsatisfiable path condition means contradictory assumptions were made
	if u.check(st) == "unsat" {
		u.errs = append(u.errs, "vacuity: a path reaching return has an unsatisfiable path condition (contradictory assumed contract?) trace: "+strings.Join(st.Trace, " "))
		return
	}
	u.returns++
	if u.C == nil {
		return
	}
	top := fr
	for top.Parent != nil {
		top = top.Parent
	}
	env := u.entryEnv(top, top.Entry)
	env.st = st
	env.fr = fr
	rts := resultTypes(u.Fn.Signature)
	var rterms []Term
	for _, r := range res {
		rterms = append(rterms, r.T)
	}
	var rnames []string
	for i := 0; i < u.Fn.Signature.Results().Len(); i++ {
		rnames = append(rnames, u.Fn.Signature.Results().At(i).Name())
	}
	u.bindResults(env, rnames, rts, rterms)
	var vals []Term
	for _, p := range u.Fn.Params {
		vals = append(vals, top.Vals[p].T)
	}
	vals = append(vals, rterms...)
	type pend struct {
		name, clause string
		tags         []string
		goal         Term
	}
	var pends []pend
	var goals []Term
	for i, cl := range u.C.Clauses {
		if cl.Kind != "ensures" {
			continue
		}
		env.key = fmt.Sprintf("%s.ens%d", u.Name, i)
		g, err := env.EvalBool(cl.Expr)
		if err != nil {
			if u.missingCallIsViolation(err) {
				g = False // the clause speaks about a call this path no longer makes
			} else {
				u.specError(cl, err)
				continue
			}
		}
		lbl := cl.Name
		if lbl == "" {
			lbl = fmt.Sprintf("e%d", i)
		}
		pends = append(pends, pend{u.obligName("post", lbl), "ensures " + cl.Text, u.tagsOr(cl.Tags), g})
		goals = append(goals, g)
	}
	// one query for the conjunction first; individual queries only if it is not discharged
	allOK := len(goals) > 1 && u.check(st, Not(And(goals...))) == "unsat"
	for _, p := range pends {
		if allOK {
			o := u.getOblig(p.name, "post", p.tags, u.Fn.Pos(), p.clause)
			o.Paths++
			continue
		}
		u.Prove(st.Clone(), p.name, "post", p.tags, u.Fn.Pos(), p.clause, p.goal, vals)
	}
	u.borrowAtReturn(st, env)
	u.lockBalance(st, fr)
}

func (u *Unit) topPanic(st *State, fr *Frame, v Term, site ssa.Instruction) {
	hasPanicClause := false
	if u.C != nil {
		top := fr
		env := u.entryEnv(top, top.Entry)
		env.st = st
		for i, cl := range u.C.Clauses {
			switch cl.Kind {
			case "panics_only_if":
				hasPanicClause = true
				env.key = fmt.Sprintf("%s.poi%d", u.Name, i)
				g, err := env.EvalBool(cl.Expr)
				if err != nil {
					u.specError(cl, err)
					continue
				}
				lbl := cl.Name
				if lbl == "" {
					lbl = fmt.Sprintf("p%d", i)
				}
				u.Prove(st.Clone(), u.obligName("panicpost", "only_if:"+lbl), "panicpost", u.tagsOr(cl.Tags), posOf(site), "panics_only_if "+cl.Text, g, nil)
			case "panic_ensures":
				hasPanicClause = true
				env.key = fmt.Sprintf("%s.pens%d", u.Name, i)
				g, err := env.EvalBool(cl.Expr)
				if err != nil {
					u.specError(cl, err)
					continue
				}
				lbl := cl.Name
				if lbl == "" {
					lbl = fmt.Sprintf("p%d", i)
				}
				u.Prove(st.Clone(), u.obligName("panicpost", lbl), "panicpost", u.tagsOr(cl.Tags), posOf(site), "on_panic ensures "+cl.Text, g, nil)
			}
		}
	}
	if !hasPanicClause && !st.PanicFromCallee {
		ord := u.siteOrdinal(site, "panic")
		u.Prove(st.Clone(), u.obligName("panic", fmt.Sprintf("unreachable#%d", ord)), "panic", u.tagsOr(nil), posOf(site), "explicit panic is unreachable", False, nil)
	}
}

// ---------------- loops ----------------

func (u *Unit) loopClauses(fr *Frame, li *loopInfo) []int {
	var out []int
	ct := u.contractFor(fr.Fn)
	if ct == nil {
		return nil
	}
	for i, cl := range ct.Clauses {
		if cl.Kind == "invariant" && cl.Loop == li.label {
			out = append(out, i)
		}
	}
	return out
}

// contractFor: the contract holding loop invariants for code of fn (the unit's
// own contract, or for inlined closures the closure's contract if any).
func (u *Unit) contractFor(fn *ssa.Function) *Contract {
	if fn == u.Fn {
		return u.C
	}
	return u.P.Contracts[fn]
}

func (u *Unit) invEnv(st *State, fr *Frame) *Env {
	top := fr
	for top.Parent != nil {
		top = top.Parent
	}
	var env *Env
	if top.Entry != nil && fr == top {
		env = u.entryEnv(top, top.Entry)
	} else {
		env = &Env{u: u, old: st, vars: map[string]EVal{}, pkg: u.Pkg, fn: fr.Fn, freshLo: u.entryFresh}
		for _, p := range fr.Fn.Params {
			if v, ok := fr.Vals[p]; ok && v.Cell == nil && v.Tuple == nil {
				env.vars[p.Name()+"$entry"] = EVal{T: v.T, Ty: p.Type()}
			}
		}
	}
	env.st = st
	env.fr = fr
	// inside the function body plain names denote the current value of the local
	// variable; the entry value of a parameter is available as name$entry
	for n, v := range env.vars {
		_ = v
		if !strings.HasSuffix(n, "$entry") && localAlloc(fr.Fn, n) != nil {
			delete(env.vars, n)
		}
	}
	return env
}

// rangeIndexInv: the built-in invariant of `for i := range slice` loops in
// naive form: -1 <= rangeindex < len (len evaluated once before the loop).
func (u *Unit) rangeIndexInv(st *State, fr *Frame, li *loopInfo) (Term, bool) {
	h := li.header
	if h.Comment != "rangeindex.loop" {
		return Term{}, false
	}
	var ri *ssa.Alloc
	var bound ssa.Value
	for _, in := range h.Instrs {
		switch x := in.(type) {
		case *ssa.Store:
			if a, ok := x.Addr.(*ssa.Alloc); ok && a.Comment == "rangeindex" {
				ri = a
			}
		case *ssa.BinOp:
			if x.Op == token.LSS {
				bound = x.Y
			}
		}
	}
	if ri == nil || bound == nil {
		return Term{}, false
	}
	bv, ok := fr.Vals[bound]
	if !ok || bv.Cell != nil || bv.Tuple != nil {
		return Term{}, false
	}
	cur, ok := fr.Cells[ri]
	if !ok {
		return Term{}, false
	}
	return And(Le(IntLit(-1), cur), Lt(cur, Ite(Ge(bv.T, IntLit(0)), bv.T, IntLit(0)))), true
}

func (u *Unit) loopInvariants(st *State, fr *Frame, li *loopInfo, class string) {
	if g, ok := u.rangeIndexInv(st, fr, li); ok {
		u.Prove(st, u.obligName(class, li.label+":rangeindex"), class, u.tagsOr(nil), li.header.Instrs[0].Pos(), "built-in range-loop invariant -1 <= rangeindex < len", g, nil)
	}
	ct := u.contractFor(fr.Fn)
	for _, i := range u.loopClauses(fr, li) {
		cl := ct.Clauses[i]
		if u.refute && cl.Aux {
			continue
		}
		env := u.invEnv(st, fr)
		env.key = fmt.Sprintf("%s.inv%d", u.Name, i)
		g, err := env.EvalBool(cl.Expr)
		if err != nil {
			if !u.refute {
				u.specError(cl, err)
				u.loopBroken(li.label)
			}
			continue
		}
		lbl := cl.Name
		if lbl == "" {
			lbl = fmt.Sprintf("i%d", i)
		}
		u.Prove(st, u.obligName(class, li.label+":"+lbl), class, u.tagsOr(cl.Tags), li.header.Instrs[0].Pos(), "loop "+li.label+" invariant "+cl.Text, g, nil)
	}
}

func (u *Unit) loopBroken(label string) {
	if u.brokenLoops == nil {
		u.brokenLoops = map[string]bool{}
	}
	u.brokenLoops[label] = true
}

func (u *Unit) assumeLoopInvariants(st *State, fr *Frame, li *loopInfo) {
	if g, ok := u.rangeIndexInv(st, fr, li); ok {
		st.Assume(g)
	}
	ct := u.contractFor(fr.Fn)
	var snap *State
	var snapFr *Frame
	for _, i := range u.loopClauses(fr, li) {
		cl := ct.Clauses[i]
		env := u.invEnv(st, fr)
		env.key = fmt.Sprintf("%s.inv%d", u.Name, i)
		env.assuming = false
		if _, isForall := cl.Expr.(EForall); isForall {
			// proved for an arbitrary index, hence usable at any index: assumed at the
			// skolems and remembered for instantiation at terms created later
			if snap == nil {
				snap = st.Clone()
				snapFr = fr.cloneFor()
			}
			env.assuming = true
			env.keepUniversals = true
			env.target = st
			env.st = snap
			env.fr = snapFr
		}
		// the invariant is assumed at the same skolems it is proved at
		g, err := env.EvalBool(cl.Expr)
		if err != nil {
			u.specError(cl, err)
			continue
		}
		st.Assume(g)
	}
}

// storeRoot finds the alloc an address operand is rooted at (through field /
// index chains), if any.
func storeRoot(v ssa.Value) *ssa.Alloc {
	for {
		switch x := v.(type) {
		case *ssa.Alloc:
			return x
		case *ssa.FieldAddr:
			v = x.X
		case *ssa.IndexAddr:
			v = x.X
		default:
			return nil
		}
	}
}

// writeSite: a heap write inside a loop, to be framed by the object it hits.
type writeSite struct {
	keys  map[string]bool
	addr  ssa.Value // address operand (Store) or nil
	slice ssa.Value // slice whose backing array is written (append in place)
	mapv  ssa.Value // map written
	fn    *ssa.Function
}

type loopEffects struct {
	cells     map[*ssa.Alloc]bool
	localHeap map[*ssa.Alloc]bool // heap allocs of the frame written directly
	keys      map[string]bool     // memory keys written through other pointers
	all       bool
	external  bool
	sites     []writeSite
	why       []string
	ghosts    map[string]bool
	iters     map[ssa.Value]bool
	desigs    map[string]bool
	chans     bool
}

func (u *Unit) collectEffects(fn *ssa.Function, blocks map[*ssa.BasicBlock]bool, eff *loopEffects, depth int) {
	for _, b := range fn.Blocks {
		if blocks != nil && !blocks[b] {
			continue
		}
		for _, in := range b.Instrs {
			switch x := in.(type) {
			case *ssa.Store:
				if a := storeRoot(x.Addr); a != nil && a.Parent() == fn {
					if !a.Heap {
						if _, isArr := derefType(a.Type()).Underlying().(*types.Array); !isArr {
							eff.cells[a] = true
							continue
						}
					}
					if !u.P.allocLeaks(a) {
						eff.localHeap[a] = true
						continue
					}
				}
				ks := map[string]bool{}
				u.leafKeys(x.Val.Type(), ks)
				eff.sites = append(eff.sites, writeSite{keys: ks, addr: x.Addr, fn: fn})
			case *ssa.MapUpdate:
				tk := typeKey(x.Map.Type().Underlying().(*types.Map))
				ks := map[string]bool{"maphas:" + tk: true, "mapval:" + tk: true, "maplen:" + tk: true}
				eff.sites = append(eff.sites, writeSite{keys: ks, mapv: x.Map, fn: fn})
			case *ssa.Next:
				eff.iters[x.Iter] = true
			case *ssa.Send, *ssa.Select:
				eff.chans = true
			case *ssa.UnOp:
				if x.Op == token.ARROW {
					eff.chans = true
				}
			case *ssa.Go:
				eff.all = true
				eff.why = append(eff.why, "go statement")
			case *ssa.Defer:
				// runs at exit, not in the loop
			case *ssa.Call:
				u.callEffects(fn, &x.Call, eff, depth)
			}
		}
	}
}

func fvRoot(v ssa.Value) *ssa.FreeVar {
	for {
		switch x := v.(type) {
		case *ssa.FreeVar:
			return x
		case *ssa.FieldAddr:
			v = x.X
		case *ssa.IndexAddr:
			v = x.X
		default:
			return nil
		}
	}
}

func (u *Unit) callEffects(fn *ssa.Function, c *ssa.CallCommon, eff *loopEffects, depth int) {
	for _, d := range u.dynDesignatorsSafe(c) {
		eff.desigs[d] = true
	}
	if b, ok := c.Value.(*ssa.Builtin); ok && !c.IsInvoke() {
		switch b.Name() {
		case "append":
			if sl, ok := c.Args[0].Type().Underlying().(*types.Slice); ok {
				ks := map[string]bool{}
				u.leafKeys(sl.Elem(), ks)
				eff.sites = append(eff.sites, writeSite{keys: ks, slice: c.Args[0], fn: fn})
			}
		case "delete":
			tk := typeKey(c.Args[0].Type().Underlying().(*types.Map))
			ks := map[string]bool{"maphas:" + tk: true, "maplen:" + tk: true}
			eff.sites = append(eff.sites, writeSite{keys: ks, mapv: c.Args[0], fn: fn})
		case "close":
			eff.chans = true
		case "copy":
			eff.all = true
			eff.why = append(eff.why, "builtin copy")
		}
		return
	}
	if f := c.StaticCallee(); f != nil && !c.IsInvoke() {
		for _, d := range u.funcDesignators(f) {
			eff.desigs[d] = true
		}
		if f.Pkg != nil && f.Pkg.Pkg.Path() == "sync" {
			eff.ghosts["held"] = true
			eff.ghosts["wg"] = true
			return
		}
		if ct, ok := u.P.Contracts[f]; ok && !ct.Inline {
			u.contractEffects(ct, eff, u.staticParamTypes(f, ct, c))
			return
		}
		for _, d := range u.funcDesignators(f) {
			if ct, ok := u.P.Externs[d]; ok {
				u.contractEffects(ct, eff, u.staticParamTypes(f, ct, c))
				return
			}
		}
		if f.Blocks != nil && (f.Synthetic != "" || f.Parent() != nil) && depth < 4 {
			u.collectEffects(f, nil, eff, depth+1)
			// stores through free variables of the closure hit the parent's variables: key-wide already
			return
		}
		if f.Pkg != nil && strings.HasPrefix(f.Pkg.Pkg.Path(), modulePath) {
			eff.all = true
			eff.why = append(eff.why, "uncontracted in-repo callee "+f.String())
		} else if f.Blocks == nil || f.Pkg == nil || !strings.HasPrefix(f.Pkg.Pkg.Path(), modulePath) {
			// external callee without a contract: same rule as at the call itself
			sig := f.Signature
			for i := 0; i < sig.Params().Len(); i++ {
				if u.P.TW.SortOf(sig.Params().At(i).Type()) == SV {
					eff.all = true
					eff.why = append(eff.why, "uncontracted extern callee with reference args "+f.String())
				}
			}
			if sig.Recv() != nil && u.P.TW.SortOf(sig.Recv().Type()) == SV {
				eff.all = true
				eff.why = append(eff.why, "uncontracted extern method "+f.String())
			}
		}
		return
	}
	for _, d := range u.dynDesignatorsSafe(c) {
		switch d {
		case "context.Context.Err", "context.Context.Done":
			eff.chans = true
			return
		}
	}
	// local closure through a variable?
	if ld, ok := c.Value.(*ssa.UnOp); ok && ld.Op == token.MUL {
		if a, ok := ld.X.(*ssa.Alloc); ok && a.Referrers() != nil {
			for _, r := range *a.Referrers() {
				if s, ok := r.(*ssa.Store); ok {
					if mc, ok := s.Val.(*ssa.MakeClosure); ok && depth < 4 {
						u.collectEffects(mc.Fn.(*ssa.Function), nil, eff, depth+1)
						return
					}
				}
			}
		}
	}
	for _, d := range u.dynDesignatorsSafe(c) {
		if ct, ok := u.P.Externs[d]; ok {
			u.contractEffects(ct, eff, u.staticParamTypes(nil, ct, c))
			return
		}
	}
	eff.all = true
	eff.why = append(eff.why, "dynamic call "+strings.Join(u.dynDesignatorsSafe(c), "|"))
}

func (u *Unit) staticParamTypes(callee *ssa.Function, ct *Contract, c *ssa.CallCommon) map[string]types.Type {
	out := map[string]types.Type{}
	sig := c.Signature()
	names := u.paramNames(callee, ct, sig, c.IsInvoke())
	var tys []types.Type
	if callee != nil {
		for _, p := range callee.Params {
			tys = append(tys, p.Type())
		}
	} else {
		if c.IsInvoke() {
			tys = append(tys, c.Value.Type())
		}
		for i := 0; i < sig.Params().Len(); i++ {
			tys = append(tys, sig.Params().At(i).Type())
		}
	}
	for i, n := range names {
		if i < len(tys) {
			out[n] = tys[i]
		}
	}
	return out
}

func (u *Unit) dynDesignatorsSafe(c *ssa.CallCommon) []string {
	if _, ok := c.Value.(*ssa.Builtin); ok {
		return nil
	}
	if c.StaticCallee() != nil && !c.IsInvoke() {
		return nil
	}
	return u.dynDesignators(c)
}

// staticType computes the Go type of a simple contract expression from
// parameter types alone (no state), or nil.
func (u *Unit) staticType(ex Expr, ptys map[string]types.Type, pk *types.Package) types.Type {
	switch x := ex.(type) {
	case EIdent:
		return ptys[x.Name]
	case ESel:
		bt := u.staticType(x.X, ptys, pk)
		if bt == nil {
			return nil
		}
		if obj, _ := lookupFieldAnyPkg(bt, x.Name); obj != nil {
			return obj.Type()
		}
	case EUnary:
		if x.Op == "*" {
			bt := u.staticType(x.X, ptys, pk)
			if bt == nil {
				return nil
			}
			if pt, ok := bt.Underlying().(*types.Pointer); ok {
				return pt.Elem()
			}
		}
	case EIndex:
		bt := u.staticType(x.X, ptys, pk)
		if bt == nil {
			return nil
		}
		switch t := bt.Underlying().(type) {
		case *types.Slice:
			return t.Elem()
		case *types.Map:
			return t.Elem()
		}
	case ECall:
		if x.Fn == "unbox" && len(x.Args) == 2 {
			if sv, ok := x.Args[1].(EStr); ok {
				return u.P.typeByName(pk, nil, sv.V)
			}
		}
	}
	return nil
}

func (u *Unit) contractEffects(ct *Contract, eff *loopEffects, ptys map[string]types.Type) {
	if ct.NoFrame {
		eff.all = true
		return
	}
	for _, cl := range ct.Clauses {
		if cl.Kind != "modifies" {
			continue
		}
		for _, ex := range cl.Exprs {
			switch x := ex.(type) {
			case EIdent:
				switch x.Name {
				case "external":
					eff.external = true
					continue
				case "everything":
					eff.all = true
					continue
				}
			case ECall:
				if g, ok := u.P.Ghosts[x.Fn]; ok && g.State {
					eff.ghosts["u_"+g.Name] = true
					continue
				}
				if x.Fn == "mem" && len(x.Args) == 1 {
					if sv, ok := x.Args[0].(EStr); ok {
						pk := u.Pkg
						if ct.Pkg != "" {
							pk = u.P.AllPkgs[ct.Pkg]
						}
						if t := u.P.typeByName(pk, nil, sv.V); t != nil {
							u.leafKeys(t, eff.keys)
							continue
						}
					}
				}
			}
			pk := u.Pkg
			if ct.Pkg != "" {
				pk = u.P.AllPkgs[ct.Pkg]
			}
			if c, ok := ex.(ECall); ok && c.Fn == "mapof" && len(c.Args) == 1 {
				if t := u.staticType(c.Args[0], ptys, pk); t != nil {
					if m, ok := t.Underlying().(*types.Map); ok {
						tk := typeKey(m)
						eff.keys["maphas:"+tk] = true
						eff.keys["mapval:"+tk] = true
						eff.keys["maplen:"+tk] = true
						continue
					}
				}
			}
			if c, ok := ex.(ECall); ok && c.Fn == "elems" && len(c.Args) == 1 {
				if t := u.staticType(c.Args[0], ptys, pk); t != nil {
					if sl, ok := t.Underlying().(*types.Slice); ok {
						u.leafKeys(sl.Elem(), eff.keys)
						continue
					}
				}
			}
			if t := u.staticType(ex, ptys, pk); t != nil {
				u.leafKeys(t, eff.keys)
				continue
			}
			// anything else needs evaluation to be precise: be conservative
			eff.all = true
			eff.why = append(eff.why, "modifies clause of "+ct.Target+": "+cl.Text)
		}
	}
}

func (u *Unit) havocLoop(st *State, fr *Frame, li *loopInfo) {
	hv0 := len(st.AllHavocs)
	defer func() { u.settleHavocs(st, hv0) }()
	eff := &loopEffects{cells: map[*ssa.Alloc]bool{}, localHeap: map[*ssa.Alloc]bool{}, keys: map[string]bool{}, iters: map[ssa.Value]bool{}, desigs: map[string]bool{}, ghosts: map[string]bool{}}
	u.collectEffects(fr.Fn, li.blocks, eff, 0)
	// cells
	var cells []*ssa.Alloc
	for a := range eff.cells {
		cells = append(cells, a)
	}
	sort.Slice(cells, func(i, j int) bool {
		return cells[i].Pos() < cells[j].Pos() || (cells[i].Pos() == cells[j].Pos() && cells[i].Name() < cells[j].Name())
	})
	for _, a := range cells {
		if _, ok := fr.Cells[a]; ok {
			nv := u.FreshOfType(st, "lh_"+a.Comment, derefType(a.Type()))
			// whatever the variable refers to at the loop head was allocated before the
			// allocations of the iteration that is about to be executed
			u.clockFacts(nv, derefType(a.Type()), 0)
			fr.Cells[a] = nv
		}
	}
	// unleaked local heap variables written in the loop
	var lh []*ssa.Alloc
	for a := range eff.localHeap {
		lh = append(lh, a)
	}
	sort.Slice(lh, func(i, j int) bool { return lh[i].Name() < lh[j].Name() })
	for _, a := range lh {
		if v, ok := fr.Vals[a]; ok && v.Cell == nil {
			el := derefType(a.Type())
			nv := u.FreshOfType(st, "lh_"+a.Comment, el)
			u.clockFacts(nv, el, 0)
			u.store(st, v.T, el, nv)
		}
	}
	var gks []string
	for g := range eff.ghosts {
		gks = append(gks, g)
	}
	sort.Strings(gks)
	for _, g := range gks {
		key := "ghost:" + g
		if so, ok := st.MemSort[key]; ok {
			st.Mem[key] = u.Fresh("G_"+g, ArrSort(SV, so))
		}
	}
	if eff.all {
		// locals written in the loop were given fresh values above; the rest of the
		// unleaked locals keep their values
		debugf("loop %s of %s havocs everything: %v", li.label, fr.Fn.Name(), eff.why)
		u.havocAll(st, fr)
		for _, w := range eff.why {
			if strings.HasPrefix(w, "uncontracted in-repo callee ") {
				// what the loop changes is unknown only because a function of the module it
				// calls has no contract: everything is forgotten at its head, and what fails
				// behind it may fail for that reason alone
				why := "loop " + li.label + " of " + fr.Fn.String() + " calls " + strings.TrimPrefix(w, "uncontracted in-repo callee ") + ", which has no contract: everything was forgotten at the loop head"
				st.ExitWeak = append(append([]exitWeak(nil), st.ExitWeak...), exitWeak{fn: fr.Fn, blocks: li.blocks, why: why})
				break
			}
		}
	} else {
		u.framedWrites(st, fr, li, eff)
		if eff.external {
			locals := u.notInLocals(u.unleakedLocals(fr))
			pred := func(addr Term) Term { return And(locals(addr), u.notPrivate(addr)) }
			st.AllHavocs = append(st.AllHavocs, u.newAllHavoc(pred))
		}
		if len(eff.sites) == 0 {
			var ks []string
			for k := range eff.keys {
				ks = append(ks, k)
			}
			sort.Strings(ks)
			pred := u.notInLocals(u.unleakedLocals(fr))
			for _, k := range ks {
				if _, ok := st.MemSort[k]; !ok {
					continue
				}
				u.curMem(st, k)
				u.havocKey(st, k, pred)
			}
		}
	}
	for it := range eff.iters {
		if is := fr.IterOf[it]; is != nil && !is.IsString {
			n := *is
			n.Visited = u.Fresh("visited", is.Visited.Sort)
			n.Count = u.Fresh("itercount", SInt)
			st.Assume(Ge(n.Count, IntLit(0)))
			// visited keys are present keys (map not shrunk while iterating is not assumed:
			// stated pointwise at the unit's skolems)
			hasArr := u.mapHasOf(st, is.MapType, is.Map)
			for _, sk := range u.skol {
				ks, _ := u.mapSorts(is.MapType)
				if sk.Sort == ks {
					_ = hasArr
				}
			}
			fr.IterOf[it] = &n
		}
	}
	var ds []string
	for d := range eff.desigs {
		ds = append(ds, d)
	}
	sort.Strings(ds)
	for _, d := range ds {
		old, ok := st.CallCnt[d]
		if !ok {
			old = IntLit(0)
		}
		n := u.Fresh("cnt", SInt)
		st.Assume(Ge(n, old))
		st.CallCnt[d] = n
	}
	if len(ds) > 0 {
		st.Calls = append(st.Calls, CallEvent{Desigs: ds, Havoc: true, HavocVals: map[string]Term{}})
	}
	if eff.chans || eff.all {
		u.havocChans(st)
	}
}

// ---------------- allocation bounds ----------------

func (u *Unit) allocBound(st *State, fr *Frame, x *ssa.MakeSlice, n Term) {
	if _, isConst := x.Cap.(*ssa.Const); isConst {
		return
	}
	ct := u.contractFor(fr.Fn)
	if ct == nil {
		ct = u.C
	}
	if ct == nil {
		return
	}
	for i, cl := range ct.Clauses {
		if cl.Kind != "alloc_bound" {
			continue
		}
		env := u.invEnv(st, fr)
		env.key = fmt.Sprintf("%s.ab%d", u.Name, i)
		b, err := env.Eval(cl.Expr)
		if err != nil {
			u.specError(cl, err)
			continue
		}
		ord := u.siteOrdinal(x, "alloc")
		u.Prove(st, u.obligName("alloc", fmt.Sprintf("#%d", ord)), "alloc", u.tagsOr(cl.Tags), x.Pos(), "allocation size bounded by "+cl.Text+": "+x.String(), Le(n, b.T), []Term{n})
	}
}

// loadGlobal reads a package-level variable.
func (u *Unit) loadGlobal(st *State, g *ssa.Global) Term {
	el := derefType(g.Type())
	if u.P.immutableGlobal(g) {
		// value fixed after package initialisation
		so := u.P.TW.SortOf(el)
		c := u.Const("gval!"+sanitize(g.String()), so)
		if so == SV {
			if _, isIface := el.Underlying().(*types.Interface); isIface || isPointerLike(el) {
				if u.P.nonNilGlobal(g) {
					u.Axiom(Neq(c, NilV))
				}
			}
		}
		u.P.sentinelDistinct(u, g, c)
		if _, isMap := el.Underlying().(*types.Map); isMap && u.P.readOnlyMapGlobal(g) {
			if u.roMaps == nil {
				u.roMaps = map[string]bool{}
			}
			u.roMaps[c.A] = true
		}
		return c
	}
	return u.load(st, u.globalAddr(g), el)
}

func isPointerLike(t types.Type) bool {
	switch t.Underlying().(type) {
	case *types.Pointer, *types.Map, *types.Slice, *types.Chan, *types.Signature:
		return true
	}
	return false
}

func (u *Unit) loadAt(st *State, fr *Frame, in ssa.Instruction, addr Term, t types.Type) Term {
	if g, ok := in.(*ssa.UnOp); ok {
		if gl, ok := g.X.(*ssa.Global); ok {
			return u.loadGlobal(st, gl)
		}
	}
	u.lockCheck(st, fr, in, addr, false)
	v := u.load(st, addr, t)
	if v.Sort == SInt {
		u.Axiom(inRange(t, v)) // a typed location always holds a value of its type
	}
	return v
}

// framedWrites turns the write sites of a loop into a frame: a site whose
// target object can be evaluated at the loop head from loop-invariant
// locations only modifies that object (or objects allocated by the loop);
// any other site modifies its memory keys wholesale.
func (u *Unit) framedWrites(st *State, fr *Frame, li *loopInfo, eff *loopEffects) {
	if len(eff.sites) == 0 {
		return
	}
	clock := IntLit(int64(u.fresh))
	// fields (struct type, index) stored directly in the loop: loads of those are unstable
	storedFields := map[string]bool{}
	for _, s := range eff.sites {
		if fa, ok := s.addr.(*ssa.FieldAddr); ok {
			storedFields[u.fieldFn(derefType(fa.X.Type()), fa.Field)] = true
		}
	}
	inLoop := func(v ssa.Value) bool {
		in, ok := v.(ssa.Instruction)
		if !ok {
			return false
		}
		if in.Parent() != fr.Fn {
			return true // inside an inlined closure of the loop body
		}
		return li.blocks[in.Block()]
	}
	imprecise := map[string]bool{}
	for k := range eff.keys {
		imprecise[k] = true
	}
	type base struct {
		obj   Term // object identity: aobj(...) term or map reference
		isMap bool
	}
	var eval func(v ssa.Value, depth int) (Term, bool, bool) // term, freshInLoop, ok
	eval = func(v ssa.Value, depth int) (Term, bool, bool) {
		if depth > 8 {
			return Term{}, false, false
		}
		switch x := v.(type) {
		case *ssa.Alloc:
			if inLoop(x) {
				return Term{}, true, true
			}
			if val, ok := fr.Vals[x]; ok && val.Cell == nil && val.Tuple == nil {
				return val.T, false, true
			}
			return Term{}, false, false
		case *ssa.Parameter, *ssa.FreeVar, *ssa.Global, *ssa.Const:
			if x.Parent() != nil && x.Parent() != fr.Fn {
				return Term{}, false, false
			}
			val := u.val(st, fr, v)
			if val.Cell != nil || val.Tuple != nil {
				return Term{}, false, false
			}
			return val.T, false, true
		case *ssa.MakeSlice, *ssa.MakeMap, *ssa.MakeClosure, *ssa.MakeChan:
			if inLoop(v) {
				return Term{}, true, true
			}
		case *ssa.FieldAddr:
			b, fresh, ok := eval(x.X, depth+1)
			if !ok || fresh {
				return Term{}, fresh, ok
			}
			return u.fieldAddr(b, derefType(x.X.Type()), x.Field), false, true
		case *ssa.IndexAddr:
			// the element address is not needed, only the object: return the base object
			return eval(x.X, depth+1)
		case *ssa.Slice:
			return eval(x.X, depth+1)
		case *ssa.Call:
			if b, ok := x.Call.Value.(*ssa.Builtin); ok && b.Name() == "append" {
				return eval(x.Call.Args[0], depth+1)
			}
		case *ssa.UnOp:
			if x.Op != token.MUL {
				return Term{}, false, false
			}
			// load: from a stable cell, or from a heap location not written in the loop
			if a, ok := x.X.(*ssa.Alloc); ok && !a.Heap && a.Parent() == fr.Fn {
				if eff.cells[a] {
					// a loop-carried variable: its value at the head is arbitrary, but if it
					// only ever holds objects created by the loop or the pre-loop value we
					// cannot tell; give up
					return Term{}, false, false
				}
				if _, ok := fr.Cells[a]; ok {
					t, _ := u.cellLoad(fr, &CellAddr{A: a})
					return t, false, true
				}
				return Term{}, false, false
			}
			if fa, ok := x.X.(*ssa.FieldAddr); ok {
				if storedFields[u.fieldFn(derefType(fa.X.Type()), fa.Field)] {
					return Term{}, false, false
				}
				if imprecise[typeKey(x.Type())] {
					return Term{}, false, false
				}
				addr, fresh, ok := eval(fa, depth+1)
				if !ok || fresh {
					return Term{}, fresh, ok
				}
				return u.load(st, addr, x.Type()), false, true
			}
			if a, ok := x.X.(*ssa.Alloc); ok && a.Heap && a.Parent() == fr.Fn && !inLoop(a) {
				if eff.localHeap[a] || imprecise[typeKey(x.Type())] {
					return Term{}, false, false
				}
				if val, ok := fr.Vals[a]; ok && val.Cell == nil {
					return u.load(st, val.T, x.Type()), false, true
				}
			}
		}
		return Term{}, false, false
	}
	for round := 0; round < 3; round++ {
		bases := map[string][]base{}
		changed := false
		for _, s := range eff.sites {
			var t Term
			var fresh, ok, isMap bool
			switch {
			case s.fn != fr.Fn:
				ok = false // written by an inlined closure: not analysed
			case s.addr != nil:
				t, fresh, ok = eval(s.addr, 0)
				if ok && !fresh {
					t = App("aobj", SV, t)
				}
			case s.slice != nil:
				t, fresh, ok = eval(s.slice, 0)
				if ok && !fresh {
					t = App("aobj", SV, u.sptrOf(t))
				}
			case s.mapv != nil:
				t, fresh, ok = eval(s.mapv, 0)
				isMap = true
			}
			// IndexAddr / Slice bases evaluate to the slice header or array pointer
			if ok && !fresh && s.addr != nil {
				if root := indexRoot(s.addr); root != nil {
					if _, isSl := root.Type().Underlying().(*types.Slice); isSl {
						hv, f2, ok2 := eval(root, 0)
						if ok2 && !f2 {
							t = App("aobj", SV, u.sptrOf(hv))
						}
						ok, fresh = ok2, f2
					}
				}
			}
			for k := range s.keys {
				if !ok {
					if !imprecise[k] {
						imprecise[k] = true
						changed = true
					}
					continue
				}
				if !fresh {
					bases[k] = append(bases[k], base{obj: t, isMap: isMap})
				} else if _, have := bases[k]; !have {
					bases[k] = nil
				}
			}
		}
		if changed && round < 2 {
			continue
		}
		locals := u.notInLocals(u.unleakedLocals(fr))
		var ks []string
		for k := range bases {
			ks = append(ks, k)
		}
		for k := range imprecise {
			if _, ok := bases[k]; !ok {
				ks = append(ks, k)
			}
		}
		sort.Strings(ks)
		for _, k := range ks {
			if _, ok := st.MemSort[k]; !ok {
				continue
			}
			u.curMem(st, k)
			if imprecise[k] {
				debugf("loop %s of %s: key %s havocked wholesale", li.label, fr.Fn.Name(), k)
				u.havocKey(st, k, locals)
				continue
			}
			bs := bases[k]
			u.havocKey(st, k, func(addr Term) Term {
				var alts []Term
				isMapKey := strings.HasPrefix(k, "map")
				obj := App("aobj", SV, addr)
				if isMapKey {
					obj = addr
				}
				alts = append(alts, Gt(App("aid", SInt, obj), clock))
				for _, b := range bs {
					alts = append(alts, Eq(obj, b.obj))
				}
				return And(locals(addr), Or(alts...))
			})
		}
		return
	}
}

// indexRoot returns the collection operand of the innermost IndexAddr of an address chain.
func indexRoot(v ssa.Value) ssa.Value {
	for {
		switch x := v.(type) {
		case *ssa.FieldAddr:
			v = x.X
		case *ssa.IndexAddr:
			return x.X
		default:
			return nil
		}
	}
}

// readOnlyMapGlobal: an unexported package-level map of the module that is never
// reassigned and whose every use is a lookup, a range or len — nothing inside
// or outside the module can change its content after package initialisation.
func (p *Prog) readOnlyMapGlobal(g *ssa.Global) bool {
	if g.Pkg == nil || !strings.HasPrefix(g.Pkg.Pkg.Path(), modulePath) || g.Object() == nil || g.Object().Exported() {
		return false
	}
	if !p.immutableGlobal(g) {
		return false
	}
	ok := true
	var checkUses func(v ssa.Value)
	checkUses = func(v ssa.Value) {
		if v.Referrers() == nil {
			ok = false
			return
		}
		for _, r := range *v.Referrers() {
			switch x := r.(type) {
			case *ssa.DebugRef:
			case *ssa.Lookup:
				if x.X != v {
					ok = false
				}
			case *ssa.Range:
			case *ssa.Call:
				if b, isB := x.Call.Value.(*ssa.Builtin); !isB || b.Name() != "len" {
					ok = false
				}
			default:
				ok = false
			}
		}
	}
	for _, f := range p.Funcs {
		if f.Name() == "init" || strings.HasPrefix(f.Name(), "init#") {
			continue
		}
		var visit func(fn *ssa.Function)
		seen := map[*ssa.Function]bool{}
		visit = func(fn *ssa.Function) {
			if seen[fn] {
				return
			}
			seen[fn] = true
			for _, b := range fn.Blocks {
				for _, in := range b.Instrs {
					if un, isUn := in.(*ssa.UnOp); isUn && un.Op == token.MUL && un.X == ssa.Value(g) {
						checkUses(un)
					} else {
						for _, op := range in.Operands(nil) {
							if op != nil && *op == ssa.Value(g) {
								ok = false // address of the variable used otherwise
							}
						}
					}
				}
			}
			for _, af := range fn.AnonFuncs {
				visit(af)
			}
		}
		visit(f)
	}
	return ok
}
