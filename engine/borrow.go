package main

// `borrowed[tags] <param> [until <expr>]`: ownership of an argument. The
// function may use the value the parameter denotes only while the call lasts:
// on no path may it store that value (or anything built around it: a struct
// holding it, a part of the object it points to) outside its own variables,
// send it on a channel, or put it into a map; and if it hands it to a
// goroutine (a `go` whose function value or arguments reach it: directly,
// through a variable the closure captures, or through another closure) then on
// every return after that `go` the condition after `until` must hold (it says
// why the goroutine is known to have finished with the value); without `until`
// no such goroutine may be started at all.
//
// This is the permission argument of a separation-logic verifier reduced to
// what this code base needs. It is decided on the symbolic state of each path:
// "reaches the parameter" means that the term of the value that is leaving
// mentions the parameter's entry term. Callees that receive the value as a
// plain argument (cloners, codecs, isNil) are assumed not to retain it.

import (
	"fmt"
	"strings"

	"golang.org/x/tools/go/ssa"
)

type borrowInfo struct {
	clause int
	param  string
	term   Term // the parameter's value at entry
}

func (u *Unit) borrowSetup(fr *Frame) {
	u.borrows = nil
	if u.C == nil {
		return
	}
	for i, cl := range u.C.Clauses {
		if cl.Kind != "borrowed" {
			continue
		}
		name := cl.Desig
		if nn, ok := u.P.paramAlias[u.Fn][name]; ok {
			name = nn
		}
		v, ok := fr.Params[name]
		if !ok {
			u.specError(cl, fmt.Errorf("borrowed: no parameter %q", cl.Desig))
			continue
		}
		u.borrows = append(u.borrows, &borrowInfo{clause: i, param: cl.Desig, term: v.T})
		u.assume("borrowed: callees that receive the borrowed value as a plain argument (cloners, codecs, isNil, reflection) do not retain it beyond their own return")
	}
}

func mentions(t Term, target string) bool {
	s := t.String()
	for i := 0; ; {
		j := strings.Index(s[i:], target)
		if j < 0 {
			return false
		}
		j += i
		end := j + len(target)
		// whole symbol only
		if (j == 0 || !isSymChar(s[j-1])) && (end == len(s) || !isSymChar(s[end])) {
			return true
		}
		i = j + 1
	}
}

func isSymChar(c byte) bool {
	return c == '_' || c == '!' || c == '.' || c == '$' || (c >= '0' && c <= '9') || (c >= 'a' && c <= 'z') || (c >= 'A' && c <= 'Z')
}

// borrowReaches: does the value reach the parameter's entry value?
func (u *Unit) borrowReaches(st *State, fr *Frame, v Val, target string, depth int) bool {
	if depth > 6 {
		return true
	}
	if v.Cell != nil {
		t, _ := u.cellLoad(v.Cell.Fr, v.Cell)
		return u.borrowReaches(st, fr, Val{T: t}, target, depth+1)
	}
	for _, tv := range v.Tuple {
		if u.borrowReaches(st, fr, tv, target, depth+1) {
			return true
		}
	}
	if v.T.Op == "" && v.T.A == "" {
		return false
	}
	if mentions(v.T, target) {
		return true
	}
	if clo := st.Closures[v.T.String()]; clo != nil {
		for i, b := range clo.Bindings {
			if u.borrowReaches(st, fr, b, target, depth+1) {
				return true
			}
			// a captured variable that lives on the heap: what it holds now
			if b.Cell == nil && i < len(clo.Fn.FreeVars) {
				el := derefType(clo.Fn.FreeVars[i].Type())
				cur := u.load(st, b.T, el)
				if mentions(cur, target) {
					return true
				}
				if inner := st.Closures[cur.String()]; inner != nil && u.borrowReaches(st, fr, Val{T: cur}, target, depth+1) {
					return true
				}
			}
		}
	}
	return false
}

func (u *Unit) borrowFail(st *State, in ssa.Instruction, bi *borrowInfo, why string) {
	cl := u.C.Clauses[bi.clause]
	ord := u.siteOrdinal(in, "borrow:"+bi.param)
	u.Prove(st, u.obligName("borrow:"+bi.param, fmt.Sprintf("does_not_leave_the_call#%d", ord)), "borrow", u.tagsOr(cl.Tags), posOf(in), "borrowed "+cl.Text+" ("+why+")", False, nil)
}

// borrowAtInstr: an instruction of the function itself (or of code executed in
// place for it) through which a borrowed value would leave is a failed
// obligation on the paths that execute it with such a value.
func (u *Unit) borrowAtInstr(st *State, fr *Frame, in ssa.Instruction) {
	for _, bi := range u.borrows {
		target := bi.term.String()
		switch x := in.(type) {
		case *ssa.Store:
			if _, local := x.Addr.(*ssa.Alloc); local {
				continue // one of the function's own variables
			}
			a, okA := fr.Vals[x.Addr]
			if okA && a.Cell != nil {
				continue // a part of a local that does not escape
			}
			if u.borrowReaches(st, fr, u.val(st, fr, x.Val), target, 0) {
				u.borrowFail(st, in, bi, "stored outside the function's own variables")
			}
		case *ssa.Send:
			if u.borrowReaches(st, fr, u.val(st, fr, x.X), target, 0) {
				u.borrowFail(st, in, bi, "sent on a channel")
			}
		case *ssa.MapUpdate:
			if u.borrowReaches(st, fr, u.val(st, fr, x.Value), target, 0) {
				u.borrowFail(st, in, bi, "stored in a map")
			}
		}
	}
}

// borrowLendDesigs: extra call-log designators of a go statement that hands a
// borrowed parameter to the new goroutine, so that the obligation at return
// can ask whether that happened on the path.
func (u *Unit) borrowLendDesigs(st *State, fr *Frame, fn Val, args []Val) []string {
	var out []string
	for _, bi := range u.borrows {
		target := bi.term.String()
		lent := u.borrowReaches(st, fr, fn, target, 0)
		for _, a := range args {
			if u.borrowReaches(st, fr, a, target, 0) {
				lent = true
			}
		}
		if lent {
			out = append(out, "go:lends:"+bi.param)
		}
	}
	return out
}

// borrowAtReturn: after a goroutine was given the value, returning needs the
// `until` condition (or is refused outright when there is none).
func (u *Unit) borrowAtReturn(st *State, env *Env) {
	for _, bi := range u.borrows {
		cl := u.C.Clauses[bi.clause]
		cnt, ok := st.CallCnt["go:lends:"+bi.param]
		name := u.obligName("borrow:"+bi.param, "given_back_at_return")
		if !ok {
			o := u.getOblig(name, "borrow", u.tagsOr(cl.Tags), u.Fn.Pos(), "borrowed "+cl.Text)
			o.Paths++
			o.Trivial++
			continue
		}
		goal := False
		if cl.Expr != nil {
			env.key = fmt.Sprintf("%s.borrow%d", u.Name, bi.clause)
			g, err := env.EvalBool(cl.Expr)
			if err != nil {
				u.specError(cl, err)
				continue
			}
			goal = g
		}
		u.Prove(st.Clone(), name, "borrow", u.tagsOr(cl.Tags), u.Fn.Pos(), "borrowed "+cl.Text, Implies(Gt(cnt, IntLit(0)), goal), nil)
	}
}
