package main

import (
	"flag"
	"fmt"
	"os"
	"sort"
	"strings"
	"time"
)

func main() {
	if len(os.Args) < 2 {
		fmt.Fprintln(os.Stderr, "usage: govc <check|debug|list> ...")
		os.Exit(2)
	}
	switch os.Args[1] {
	case "debug":
		cmdDebug(os.Args[2:])
	case "list":
		cmdList(os.Args[2:])
	case "check":
		os.Exit(cmdCheck(os.Args[2:]))
	default:
		fmt.Fprintln(os.Stderr, "unknown command", os.Args[1])
		os.Exit(2)
	}
}

func loadAll(repo, verif string) *Prog {
	t0 := time.Now()
	p, err := LoadProg(repo, verif)
	if err != nil {
		fmt.Fprintln(os.Stderr, "load:", err)
		os.Exit(3)
	}
	p.QueryTimeoutMs = 4000
	p.UnitTimeout = 180 * time.Second
	if err := p.LoadSpecs(verif); err != nil {
		fmt.Fprintln(os.Stderr, "specs:", err)
		os.Exit(3)
	}
	p.buildGuards()
	p.registerModuleFields()
	p.loadParamAliases(verif)
	p.loadCalleeBaseline(verif)
	debugf("loaded in %.1fs: %d functions, %d contracts, %d extern specs", time.Since(t0).Seconds(), len(p.Funcs), len(p.Contracts), len(p.Externs))
	return p
}

func cmdList(args []string) {
	fs := flag.NewFlagSet("list", flag.ExitOnError)
	repo := fs.String("repo", "/repo", "")
	verif := fs.String("verif", "/verif", "")
	fs.Parse(args)
	p := loadAll(*repo, *verif)
	var names []string
	for k := range p.Funcs {
		names = append(names, k)
	}
	sort.Strings(names)
	for _, n := range names {
		mark := " "
		if _, ok := p.Contracts[p.Funcs[n]]; ok {
			mark = "*"
		}
		fmt.Println(mark, n)
	}
}

func cmdDebug(args []string) {
	fs := flag.NewFlagSet("debug", flag.ExitOnError)
	repo := fs.String("repo", "/repo", "")
	verif := fs.String("verif", "/verif", "")
	fn := fs.String("func", "", "pkgpath::name or suffix")
	fs.Parse(args)
	p := loadAll(*repo, *verif)
	var units []*Unit
	for k, f := range p.Funcs {
		if *fn != "" && !strings.HasSuffix(k, *fn) {
			continue
		}
		ct := p.Contracts[f]
		if ct == nil && *fn == "" {
			continue
		}
		if p.FuncNames[f] != k[strings.Index(k, "::")+2:] {
			continue // alias label
		}
		units = append(units, NewUnit(p, p.unitNameOf(f), f, ct))
	}
	sort.Slice(units, func(i, j int) bool { return units[i].Name < units[j].Name })
	for _, u := range units {
		t0 := time.Now()
		if err := u.start(); err != nil {
			fmt.Println("solver:", err)
			continue
		}
		func() {
			defer func() {
				if r := recover(); r != nil {
					if os.Getenv("GOVC_PANIC") != "" {
						panic(r)
					}
					u.errs = append(u.errs, fmt.Sprint("engine panic: ", r))
				}
			}()
			u.VerifyFunc()
		}()
		u.finish()
		ss := 0.0
		if u.sol != nil {
			ss = u.sol.secs
		}
		fmt.Printf("== %s: paths=%d pruned=%d queries=%d obligations=%d %.2fs (solver %.2fs, %d decls)\n", u.Name, u.paths, u.pruned, u.queries, len(u.obs), time.Since(t0).Seconds(), ss, len(u.decls))
		for _, o := range u.sortedObligs() {
			status := "ok"
			if len(o.Failures) > 0 {
				status = "FAIL(" + o.Failures[0].Result + ")"
			}
			fmt.Printf("   %-8s %-70s paths=%d %v %s\n", status, strings.TrimPrefix(o.Name, u.Name), o.Paths, o.Tags, o.Pos)
			if len(o.Failures) > 0 && os.Getenv("GOVC_DUMP") != "" {
				f := o.Failures[0]
				dd := u.decls
				if f.NDecls > 0 && f.NDecls <= len(dd) {
					dd = dd[:f.NDecls]
				}
				path, _ := writeQueryFile("/verif/out/debug", o.Name, dd, f.Asserts, f.Values)
				fmt.Println("      dumped", path)
				fmt.Println("      trace:", strings.Join(f.Trace, " "))
			}
		}
		if os.Getenv("GOVC_DECLS") != "" {
			os.MkdirAll("/verif/out/debug", 0o755)
			os.WriteFile("/verif/out/debug/decls_"+sanitize(u.Name)+".smt2", []byte(strings.Join(u.decls, "\n")), 0o644)
		}
		for _, e := range u.errs {
			fmt.Println("   ERROR:", e)
		}
		var abs []string
		for a, n := range u.abstractions {
			abs = append(abs, fmt.Sprintf("%s x%d", a, n))
		}
		sort.Strings(abs)
		for _, a := range abs {
			fmt.Println("   abs:", a)
		}
	}
}
