package main

// Calls: builtins, modular application of contracts, assumed extern
// contracts, inlining of local closures, dynamic calls (havoc), ghost call
// counters, frame (modifies) obligations.

import (
	"regexp"
	"fmt"
	"go/token"
	"go/types"
	"sort"
	"strings"

	"golang.org/x/tools/go/ssa"
)

type CallK func(st *State, fr *Frame, res Val)

func (u *Unit) evalCallOperands(st *State, fr *Frame, c *ssa.CallCommon) (Val, []Val) {
	var fn Val
	var args []Val
	if c.IsInvoke() {
		fn = u.val(st, fr, c.Value) // receiver
		args = append(args, fn)
	} else {
		fn = u.val(st, fr, c.Value)
	}
	for _, a := range c.Args {
		args = append(args, u.val(st, fr, a))
	}
	return fn, args
}

func (u *Unit) execCall(st *State, fr *Frame, site ssa.Instruction, c *ssa.CallCommon, k CallK) {
	fn, args := u.evalCallOperands(st, fr, c)
	u.execCallVals(st, fr, site, c, fn, args, k)
}

func pkgShort(p *types.Package) string {
	if p == nil {
		return ""
	}
	return p.Name()
}

// designators of a static function: full, short, and bare forms.
func (u *Unit) funcDesignators(f *ssa.Function) []string {
	var out []string
	out = append(out, f.String())
	if f.Pkg != nil {
		rel := f.RelString(f.Pkg.Pkg)
		// (*T).M -> (*pkg.T).M ; F -> pkg.F
		pn := f.Pkg.Pkg.Name()
		if strings.HasPrefix(rel, "(*") {
			out = append(out, "(*"+pn+"."+rel[2:])
		} else if strings.HasPrefix(rel, "(") {
			out = append(out, "("+pn+"."+rel[1:])
		} else {
			out = append(out, pn+"."+rel)
		}
		if u.Pkg != nil && f.Pkg.Pkg == u.Pkg {
			out = append(out, rel)
		}
	} else if f.Signature.Recv() != nil {
		// method of an instantiated / external type without ssa package
		out = append(out, f.Name())
	}
	if n, ok := u.P.FuncNames[f]; ok && f.Pkg == nil {
		out = append(out, n)
	}
	for _, d := range out {
		out = append(out, u.P.DesigGroups[d]...)
	}
	return out
}

func namedTypeShort(t types.Type) string {
	switch t := t.(type) {
	case *types.Named:
		o := t.Obj()
		if o.Pkg() != nil {
			return o.Pkg().Name() + "." + o.Name()
		}
		return o.Name()
	case *types.Alias:
		o := t.Obj()
		if o.Pkg() != nil {
			return o.Pkg().Name() + "." + o.Name()
		}
		return o.Name()
	case *types.Pointer:
		return "*" + namedTypeShort(t.Elem())
	}
	return ""
}

// dynDesignators names a dynamic callee by its type and by where it came from.
func (u *Unit) dynDesignators(c *ssa.CallCommon) []string {
	var out []string
	if c.IsInvoke() {
		if n := namedTypeShort(c.Value.Type()); n != "" {
			out = append(out, n+"."+c.Method.Name())
		}
		// the interface that declares the method (embedded interfaces)
		if c.Method.Pkg() != nil {
			if recv := c.Method.Type().(*types.Signature).Recv(); recv != nil {
				if n := namedTypeShort(recv.Type()); n != "" {
					out = append(out, n+"."+c.Method.Name())
				}
			}
		}
		out = append(out, "."+c.Method.Name())
		return out
	}
	if n := namedTypeShort(c.Value.Type()); n != "" {
		out = append(out, n)
	}
	v := c.Value
	if ld, ok := v.(*ssa.UnOp); ok && ld.Op == token.MUL {
		switch a := ld.X.(type) {
		case *ssa.FieldAddr:
			st := derefType(a.X.Type())
			if n := namedTypeShort(st); n != "" {
				out = append(out, n+"."+st.Underlying().(*types.Struct).Field(a.Field).Name())
			}
		case *ssa.Alloc:
			out = append(out, "var:"+a.Comment)
		case *ssa.FreeVar:
			out = append(out, "var:"+a.Name())
		}
	}
	if p, ok := v.(*ssa.Parameter); ok {
		out = append(out, "var:"+p.Name())
	}
	if fld, ok := v.(*ssa.Field); ok {
		if n := namedTypeShort(fld.X.Type()); n != "" {
			out = append(out, n+"."+fld.X.Type().Underlying().(*types.Struct).Field(fld.Field).Name())
		}
	}
	return out
}

func (u *Unit) bumpCalls(st *State, desigs []string, args []Term, res []Term, rtys ...types.Type) {
	st.Seq++
	seen := map[string]bool{}
	for _, d := range desigs {
		if seen[d] {
			continue
		}
		seen[d] = true
		cur, ok := st.CallCnt[d]
		if !ok {
			cur = IntLit(0)
		}
		st.CallCnt[d] = Add(cur, IntLit(1))
	}
	st.Calls = append(st.Calls, CallEvent{Desigs: desigs, Args: args, Res: res, ResTys: rtys, Seq: st.Seq})
}

var atReturnRe = regexp.MustCompile(`at_return\(\s*"?([^",]+?)"?\s*,`)

// snapDesigs: designators whose return state some clause of this unit's contract asks for.
func (u *Unit) snapDesigs() map[string]bool {
	if u.snapD == nil {
		u.snapD = map[string]bool{}
		if u.C != nil {
			for _, cl := range u.C.Clauses {
				for _, m := range atReturnRe.FindAllStringSubmatch(cl.Text, -1) {
					u.snapD[m[1]] = true
				}
			}
		}
	}
	return u.snapD
}

func termsOf(vs []Val) []Term {
	out := make([]Term, len(vs))
	for i, v := range vs {
		if v.Cell != nil || v.Tuple != nil {
			out[i] = NilV
		} else {
			out[i] = v.T
		}
	}
	return out
}

func (u *Unit) execCallVals(st *State, fr *Frame, site ssa.Instruction, c *ssa.CallCommon, fn Val, args []Val, k0 CallK) {
	// remember argument types of the call event (for lastarg)
	n0 := len(st.Calls)
	hv0 := len(st.AllHavocs)
	k := func(st *State, fr *Frame, res Val) {
		u.settleHavocs(st, hv0)
		if len(u.snapDesigs()) > 0 {
			for i := n0; i < len(st.Calls); i++ {
				if st.Calls[i].Post != nil || st.Calls[i].Havoc {
					continue
				}
				for _, d := range st.Calls[i].Desigs {
					if u.snapD[d] {
						snap := st.Clone()
						snap.Calls = nil // the snapshot is only read for its heap
						st.Calls[i].Post = snap
						break
					}
				}
			}
		}
		if len(st.Calls) > n0 {
			var tys []types.Type
			if c.IsInvoke() {
				tys = append(tys, c.Value.Type())
			}
			for _, a := range c.Args {
				tys = append(tys, a.Type())
			}
			for i := n0; i < len(st.Calls); i++ {
				if st.Calls[i].ArgTys == nil && len(st.Calls[i].Args) == len(tys) {
					st.Calls[i].ArgTys = tys
				}
			}
		}
		k0(st, fr, res)
	}
	if b, ok := c.Value.(*ssa.Builtin); ok && !c.IsInvoke() {
		u.builtin(st, fr, site, c, b, args, k)
		return
	}
	if len(st.PrivChans) > 0 {
		for _, a := range args {
			if a.Cell == nil && a.Tuple == nil {
				u.chanLeak(st, a.T)
			}
		}
	}
	sig := c.Signature()
	var callee *ssa.Function
	var desigs []string
	if c.IsInvoke() {
		desigs = u.dynDesignators(c)
		// devirtualise when the dynamic type is syntactically known
		if f := u.devirtualize(args[0].T, c.Method); f != nil {
			callee = f
			desigs = append(desigs, u.funcDesignators(f)...)
			// receiver: unbox
			args = append([]Val{{T: u.unboxFor(args[0].T, f)}}, args[1:]...)
		}
	} else if f := c.StaticCallee(); f != nil {
		callee = f
		desigs = u.funcDesignators(f)
		if _, isClo := c.Value.(*ssa.MakeClosure); isClo {
			if clo := st.Closures[fn.T.String()]; clo != nil {
				u.inlineCall(st, fr, site, clo.Fn, clo.Bindings, args, desigs, k)
				return
			}
		}
	} else {
		desigs = u.dynDesignators(c)
		if clo := st.Closures[fn.T.String()]; clo != nil {
			desigs = append(desigs, u.funcDesignators(clo.Fn)...)
			u.callAssertions(st, fr, site, desigs, termsOf(args))
			u.inlineCall(st, fr, site, clo.Fn, clo.Bindings, args, desigs, k)
			return
		}
		if fn.T.Op == "" && strings.HasPrefix(fn.T.A, "fn!") {
			if f := u.P.fnByAtomName(fn.T.A); f != nil {
				callee = f
				desigs = append(desigs, u.funcDesignators(f)...)
			}
		}
	}
	argT := termsOf(args)
	u.callAssertions(st, fr, site, desigs, argT)
	if rv, ok := u.builtinModels(st, fr, site, desigs, argT); ok {
		var res []Term
		if rv.Tuple == nil {
			res = []Term{rv.T}
		}
		u.bumpCalls(st, desigs, argT, res)
		k(st, fr, rv)
		return
	}

	if callee != nil {
		// 1. in-repo contract
		if ct, ok := u.P.Contracts[callee]; ok && !ct.Inline {
			u.applyContract(st, fr, site, callee, ct, sig, desigs, argT, false, k)
			return
		}
		// 2. assumed extern contract
		for _, d := range desigs {
			if ct, ok := u.P.Externs[d]; ok {
				u.applyContract(st, fr, site, callee, ct, sig, desigs, argT, true, k)
				return
			}
		}
		// 3. synthetic wrappers and explicitly inlined functions
		if callee.Blocks != nil && (callee.Synthetic != "" || callee.Parent() != nil || (u.P.Contracts[callee] != nil && u.P.Contracts[callee].Inline)) && fr.Depth < 6 {
			u.inlineCall(st, fr, site, callee, nil, args, desigs, k)
			return
		}
		// 4. in-repo function without a contract (a helper somebody extracted): its body is
		// executed in place, which is exact as long as it has no loop and does not recurse;
		// where it is not, what is lost is remembered on the path (State.Weak) and a failure
		// there is reported as undecided ("needs a contract"), not as a violation
		if callee.Pkg != nil && strings.HasPrefix(callee.Pkg.Pkg.Path(), modulePath) {
			if u.uncontracted == nil {
				u.uncontracted = map[string]*ssa.Function{}
			}
			u.uncontracted[callee.Name()] = callee
			recursive := false
			for f := fr; f != nil; f = f.Parent {
				if f.Fn == callee {
					recursive = true
				}
			}
			if callee.Blocks != nil && !recursive && fr.Depth < 6 {
				u.abstracted("in-repo function without contract, body executed in place: " + callee.String())
				u.inlineCall(st, fr, site, callee, nil, args, desigs, k)
				return
			}
			u.lockSetCall(st, fr, site, callee, nil, nil)
			u.abstracted("call to in-repo function without contract (results and heap havocked): " + callee.String())
			st.weaken("call to " + callee.String() + ", which has no contract and cannot be executed in place")
			u.unknownCall(st, fr, site, sig, desigs, argT, true, k)
			return
		}
		// 5. external static callee without contract: results only
		ptrArg := false
		for i := 0; i < sig.Params().Len(); i++ {
			if u.P.TW.SortOf(sig.Params().At(i).Type()) == SV {
				ptrArg = true
			}
		}
		if sig.Recv() != nil && u.P.TW.SortOf(sig.Recv().Type()) == SV {
			ptrArg = true
		}
		if ptrArg {
			u.abstracted("extern call without contract, reference arguments (results and heap havocked): " + callee.String())
		} else {
			u.abstracted("extern call without contract, scalar arguments only (results havocked, heap kept): " + callee.String())
			u.assume("package-boundary framing: an external function without a contract that receives only scalars does not modify this module's objects")
		}
		if v, ok := site.(ssa.Value); ok {
			if u.unspecResult == nil {
				u.unspecResult = map[ssa.Value]string{}
			}
			u.unspecResult[v] = callee.String()
		}
		u.unknownCall(st, fr, site, sig, desigs, argT, ptrArg, k)
		return
	}
	// interface / dynamic: assumed contract by designator?
	for _, d := range desigs {
		if ct, ok := u.P.Externs[d]; ok {
			u.applyContract(st, fr, site, nil, ct, sig, desigs, argT, true, k)
			return
		}
	}
	u.abstracted("dynamic call (heap havocked): " + strings.Join(desigs, "|"))
	if c.IsInvoke() && c.Method != nil && (c.Method.Pkg() == nil || !strings.HasPrefix(c.Method.Pkg().Path(), modulePath)) {
		// a method of an interface declared outside the module for which no contract is
		// assumed: everything reachable is forgotten here. What fails afterwards on
		// this path may fail only for that reason: a missing assumed contract, not a
		// refutation (contracts/extern/std.spec lists the pure library calls)
		st.weaken("call of the interface method " + c.Method.FullName() + ", for which no contract is assumed (add it to contracts/extern/*.spec)")
	}
	u.unknownCall(st, fr, site, sig, desigs, argT, true, k)
}

func (p *Prog) fnByAtomName(atom string) *ssa.Function {
	p.mu.Lock()
	defer p.mu.Unlock()
	for _, f := range p.fnByID {
		if "fn!"+sanitize(f.String()) == atom {
			return f
		}
	}
	return nil
}

// devirtualize resolves an interface method call when the receiver term is a
// syntactic box of a known concrete type.
func (u *Unit) devirtualize(recv Term, m *types.Func) *ssa.Function {
	if !strings.HasPrefix(recv.Op, "box_") {
		return nil
	}
	var id int
	fmt.Sscanf(recv.Op, "box_%d", &id)
	t := u.P.TW.TypeByID(id)
	if t == nil {
		return nil
	}
	sel := u.P.Prog.MethodSets.MethodSet(t).Lookup(m.Pkg(), m.Name())
	if sel == nil {
		return nil
	}
	return u.P.Prog.MethodValue(sel)
}

func (u *Unit) unboxFor(recv Term, f *ssa.Function) Term {
	if strings.HasPrefix(recv.Op, "box_") && len(recv.Args) == 1 {
		return recv.Args[0]
	}
	return recv
}

func resultTypes(sig *types.Signature) []types.Type {
	var out []types.Type
	for i := 0; i < sig.Results().Len(); i++ {
		out = append(out, sig.Results().At(i).Type())
	}
	return out
}

func (u *Unit) freshResults(st *State, prefix string, sig *types.Signature) ([]Term, Val) {
	rts := resultTypes(sig)
	var res []Term
	for i, rt := range rts {
		res = append(res, u.FreshOfType(st, fmt.Sprintf("%s_r%d", prefix, i), rt))
	}
	return res, packResults(res)
}

func packResults(res []Term) Val {
	switch len(res) {
	case 0:
		return Val{T: NilV}
	case 1:
		return Val{T: res[0]}
	}
	tv := Val{}
	for _, r := range res {
		tv.Tuple = append(tv.Tuple, Val{T: r})
	}
	return tv
}

func calleeShort(desigs []string) string {
	best := ""
	for _, d := range desigs {
		if best == "" || (len(d) < len(best) && !strings.HasPrefix(d, "var:") && !strings.HasPrefix(d, ".")) {
			best = d
		}
	}
	return best
}

func (u *Unit) unknownCall(st *State, fr *Frame, site ssa.Instruction, sig *types.Signature, desigs []string, args []Term, havocHeap bool, k CallK) {
	if havocHeap {
		u.havocAll(st, fr)
	}
	res, rv := u.freshResults(st, "call_"+sanitize(calleeShort(desigs)), sig)
	for i, r := range res {
		if r.Sort == SV {
			u.clockFacts(r, resultTypes(sig)[i], 0)
		}
	}
	u.bumpCalls(st, desigs, args, res, resultTypes(sig)...)
	k(st, fr, rv)
}

// ---------------- havoc ----------------

// unleakedLocals: addresses of heap allocs in the current frame chain whose
// address never escapes to code we do not execute inline.
func (u *Unit) unleakedLocals(fr *Frame) []Term {
	var out []Term
	for f := fr; f != nil; f = f.Parent {
		for v, val := range f.Vals {
			if fv, isFV := v.(*ssa.FreeVar); isFV && val.Cell == nil && val.Tuple == nil {
				// a captured variable that is assigned exactly once (its initialisation in
				// the enclosing function) cannot change any more
				if u.P.captureImmutable(fv) {
					out = append(out, val.T)
				}
				continue
			}
			a, ok := v.(*ssa.Alloc)
			if !ok || val.Cell != nil {
				continue
			}
			if !u.P.allocLeaks(a) {
				out = append(out, val.T)
			}
		}
	}
	sort.Slice(out, func(i, j int) bool { return out[i].String() < out[j].String() })
	return out
}

func addrRoot(t Term) Term {
	for {
		if strings.HasPrefix(t.Op, "fa_") || t.Op == "ia" {
			t = t.Args[0]
			continue
		}
		return t
	}
}

func (u *Unit) notInLocals(locals []Term) func(addr Term) Term {
	return func(addr Term) Term {
		root := addrRoot(addr)
		if u.isAllocAtom(root) {
			for _, l := range locals {
				if l.String() == root.String() {
					return False
				}
			}
			return True
		}
		var eqs []Term
		for _, l := range locals {
			eqs = append(eqs, Eq(App("aobj", SV, addr), l))
		}
		return Not(Or(eqs...))
	}
}

func (u *Unit) havocAll(st *State, fr *Frame) {
	locals := u.unleakedLocals(fr)
	inner := u.notInLocals(locals)
	// even arbitrary user code is assumed not to rewrite the structures declared
	// `assume_stable` (requests, responses, service descriptors)
	pred := func(addr Term) Term { return And(inner(addr), u.notStable(addr)) }
	st.AllHavocs = append(st.AllHavocs, u.newAllHavoc(pred)) // applied lazily per key (getMem)
	st.Clock = u.fresh
}

func (u *Unit) havocKey(st *State, key string, modified func(addr Term) Term) {
	st.Clock = u.fresh
	so := st.MemSort[key]
	old := st.Mem[key] // callers bring the key up to date first (getMem / curMem)
	nm := u.Fresh("M_"+shorten(sanitize(key), 40), ArrSort(SV, so))
	st.Derivs[nm.A] = &MemDeriv{Old: old, Elem: so, Kind: "frame", Modified: modified}
	st.Mem[key] = nm
}

type allHavoc struct {
	id   int
	pred func(addr Term) Term
	// clk: the allocation clock when the havocking call had returned (everything the
	// havocked memory can refer to was allocated by then); -1 until that is known. Shared
	// by all copies of the havoc in cloned states.
	clk *int
}

func (u *Unit) newAllHavoc(pred func(addr Term) Term) allHavoc {
	u.havocSeq++
	c := new(int)
	*c = -1
	return allHavoc{id: u.havocSeq, pred: pred, clk: c}
}

// settleHavocs: the call (or loop cut) that registered the havocs from index `from` on is
// over; what they left in memory was allocated no later than now.
func (u *Unit) settleHavocs(st *State, from int) {
	for i := from; i < len(st.AllHavocs); i++ {
		if c := st.AllHavocs[i].clk; c != nil && *c < 0 {
			*c = u.fresh
		}
	}
}

// applyAllHavoc applies a whole-heap havoc to one key. Clones of a state apply
// the same pending havoc lazily and independently: they must end up with the
// same memory constant, so the result is memoised per (memory before, havoc).
func (u *Unit) applyAllHavoc(st *State, key string, h allHavoc) {
	// a havoc is applied to a key when the key is next read, possibly much later (or in a
	// snapshot of an earlier state): the clock is the one of the havocking call
	c := u.fresh
	if h.clk != nil && *h.clk >= 0 {
		c = *h.clk
	}
	if c > st.Clock {
		st.Clock = c
	}
	so := st.MemSort[key]
	old := st.Mem[key]
	mk := fmt.Sprintf("%d#%s", h.id, old.String())
	if u.havocMemo == nil {
		u.havocMemo = map[string]Term{}
	}
	nm, ok := u.havocMemo[mk]
	if !ok {
		nm = u.Fresh("M_"+shorten(sanitize(key), 40), ArrSort(SV, so))
		u.havocMemo[mk] = nm
	}
	st.Derivs[nm.A] = &MemDeriv{Old: old, Elem: so, Kind: "frame", Modified: h.pred}
	st.Mem[key] = nm
}

// ---------------- leak analysis ----------------

func (p *Prog) allocLeaks(a *ssa.Alloc) bool {
	p.mu.Lock()
	defer p.mu.Unlock()
	if p.leakCache == nil {
		p.leakCache = map[ssa.Value]bool{}
	}
	if v, ok := p.leakCache[a]; ok {
		return v
	}
	p.leakCache[a] = true // cycles: conservative
	r := p.addrLeaks(a, 0)
	p.leakCache[a] = r
	return r
}

func (p *Prog) addrLeaks(v ssa.Value, depth int) bool {
	if depth > 6 || v.Referrers() == nil {
		return true
	}
	for _, r := range *v.Referrers() {
		switch r := r.(type) {
		case *ssa.DebugRef:
		case *ssa.UnOp:
			if r.Op != token.MUL {
				return true
			}
		case *ssa.Store:
			if r.Val == v {
				// storing the address into the function's own result slot does not
				// publish it before the function returns
				if a, ok := r.Addr.(*ssa.Alloc); ok && !a.Heap && a.Comment == "" && onlyLoadedForReturn(a) {
					continue
				}
				return true
			}
		case *ssa.Return:
		case *ssa.FieldAddr:
			if p.addrLeaks(r, depth+1) {
				return true
			}
		case *ssa.IndexAddr:
			if p.addrLeaks(r, depth+1) {
				return true
			}
		case *ssa.MakeClosure:
			fn := r.Fn.(*ssa.Function)
			local := p.closureIsLocal(r, depth+1)
			for i, b := range r.Bindings {
				if b == v {
					if p.addrLeaks(fn.FreeVars[i], depth+1) {
						return true
					}
					// a closure that escapes may run at any time: the variable is only safe
					// from outside modification if the closure never writes it
					if !local && freeVarWritten(fn, fn.FreeVars[i]) {
						return true
					}
				}
			}
		default:
			return true
		}
	}
	return false
}

// closureIsLocal: the closure value is only ever called / deferred by the
// enclosing function (possibly through a local variable).
func (p *Prog) closureIsLocal(v ssa.Value, depth int) bool {
	if depth > 6 || v.Referrers() == nil {
		return false
	}
	for _, r := range *v.Referrers() {
		switch r := r.(type) {
		case *ssa.DebugRef:
		case *ssa.Call:
			if r.Call.Value != v || r.Call.IsInvoke() {
				return false
			}
			for _, a := range r.Call.Args {
				if a == v {
					return false
				}
			}
		case *ssa.Defer:
			if r.Call.Value != v {
				return false
			}
		case *ssa.Store:
			if r.Val != v {
				continue
			}
			a, ok := r.Addr.(*ssa.Alloc)
			if !ok {
				return false
			}
			// every load of that variable must be used as a callee only
			if a.Referrers() == nil {
				return false
			}
			for _, ar := range *a.Referrers() {
				switch ar := ar.(type) {
				case *ssa.DebugRef, *ssa.Store:
				case *ssa.UnOp:
					if !p.closureIsLocal(ar, depth+1) {
						return false
					}
				default:
					return false
				}
			}
		default:
			return false
		}
	}
	return true
}

// ---------------- inlining ----------------

func (u *Unit) inlineCall(st *State, fr *Frame, site ssa.Instruction, fn *ssa.Function, bindings []Val, args []Val, desigs []string, k CallK) {
	if fn.Blocks == nil {
		u.unknownCall(st, fr, site, fn.Signature, desigs, termsOf(args), true, k)
		return
	}
	if fr.Depth >= 8 {
		u.abstracted("inline depth cap at " + fn.String())
		u.unknownCall(st, fr, site, fn.Signature, desigs, termsOf(args), true, k)
		return
	}
	for f := fr; f != nil; f = f.Parent {
		if f.Fn == fn {
			u.abstracted("recursive inline of " + fn.String())
			u.unknownCall(st, fr, site, fn.Signature, desigs, termsOf(args), true, k)
			return
		}
	}
	u.bumpCalls(st, desigs, termsOf(args), nil)
	nf := u.newFrame(fn, fr)
	nf.Site = site
	for i, p := range fn.Params {
		if i < len(args) {
			nf.Vals[p] = args[i]
		}
	}
	for i, fv := range fn.FreeVars {
		if i < len(bindings) {
			nf.Vals[fv] = bindings[i]
		}
	}
	nf.OnReturn = func(st *State, caller *Frame, res []Val) {
		// caller is the (possibly cloned) caller frame of this path
		var rv Val
		switch len(res) {
		case 0:
			rv = Val{T: NilV}
		case 1:
			rv = res[0]
		default:
			rv = Val{Tuple: res}
		}
		k(st, caller, rv)
	}
	nf.OnPanic = func(st *State, caller *Frame, v Term) {
		u.doPanic(st, caller, v, site)
	}
	u.enterBlock(st, nf, fn.Blocks[0], nil)
}

// ---------------- contracts ----------------

func (u *Unit) paramNames(callee *ssa.Function, ct *Contract, sig *types.Signature, isInvoke bool) []string {
	if len(ct.Params) > 0 {
		return ct.Params
	}
	var out []string
	if callee != nil {
		for _, p := range callee.Params {
			out = append(out, p.Name())
		}
		return out
	}
	if isInvoke || sig.Recv() != nil {
		out = append(out, "recv")
	}
	for i := 0; i < sig.Params().Len(); i++ {
		n := sig.Params().At(i).Name()
		if n == "" || n == "_" {
			n = fmt.Sprintf("arg%d", i)
		}
		out = append(out, n)
	}
	return out
}

func (u *Unit) resultNames(callee *ssa.Function, ct *Contract, sig *types.Signature) []string {
	if len(ct.Results) > 0 {
		return ct.Results
	}
	var out []string
	for i := 0; i < sig.Results().Len(); i++ {
		out = append(out, sig.Results().At(i).Name())
	}
	return out
}

func paramTypes(callee *ssa.Function, sig *types.Signature, nargs int) []types.Type {
	var out []types.Type
	if callee != nil {
		for _, p := range callee.Params {
			out = append(out, p.Type())
		}
		return out
	}
	if sig.Recv() != nil {
		out = append(out, sig.Recv().Type())
	} else if nargs == sig.Params().Len()+1 {
		out = append(out, nil)
	}
	for i := 0; i < sig.Params().Len(); i++ {
		out = append(out, sig.Params().At(i).Type())
	}
	return out
}

func (u *Unit) bindParams(env *Env, names []string, tys []types.Type, args []Term) {
	for i, a := range args {
		var ty types.Type
		if i < len(tys) {
			ty = tys[i]
		}
		ev := EVal{T: a, Ty: ty}
		if i < len(names) && names[i] != "" && names[i] != "_" {
			env.vars[names[i]] = ev
			env.vars[names[i]+"$entry"] = ev
		}
		env.vars[fmt.Sprintf("arg%d", i)] = ev
	}
	if len(args) > 0 {
		if _, ok := env.vars["recv"]; !ok {
			var ty types.Type
			if len(tys) > 0 {
				ty = tys[0]
			}
			env.vars["recv"] = EVal{T: args[0], Ty: ty}
		}
	}
}

func (u *Unit) bindResults(env *Env, names []string, tys []types.Type, res []Term) {
	for i, r := range res {
		var ty types.Type
		if i < len(tys) {
			ty = tys[i]
		}
		ev := EVal{T: r, Ty: ty}
		env.vars[fmt.Sprintf("result%d", i)] = ev
		if i < len(names) && names[i] != "" && names[i] != "_" {
			env.vars[names[i]] = ev
		}
		if i == 0 {
			env.vars["result"] = ev
		}
	}
}

func contractPkg(p *Prog, ct *Contract, callee *ssa.Function) *types.Package {
	if ct.Pkg != "" {
		return p.AllPkgs[ct.Pkg]
	}
	if callee != nil && callee.Pkg != nil {
		return callee.Pkg.Pkg
	}
	return nil
}

func unionTags(ct *Contract) []string {
	set := map[string]bool{}
	for _, c := range ct.Clauses {
		for _, t := range c.Tags {
			set[t] = true
		}
	}
	var out []string
	for t := range set {
		out = append(out, t)
	}
	sort.Strings(out)
	return out
}

func (u *Unit) specError(cl *Clause, err error) {
	msg := fmt.Sprintf("%s:%d: %v", cl.File, cl.Line, err)
	for _, e := range u.errs {
		if e == msg {
			return
		}
	}
	u.errs = append(u.errs, msg)
}

func (u *Unit) applyContract(st *State, fr *Frame, site ssa.Instruction, callee *ssa.Function, ct *Contract, sig *types.Signature, desigs []string, args []Term, trusted bool, k CallK) {
	name := calleeShort(desigs)
	if callee != nil {
		if n, ok := u.P.FuncNames[callee]; ok && callee.Pkg != nil {
			name = callee.Pkg.Pkg.Name() + "." + n
		}
	}
	pre := st.Clone()
	preFr := fr
	env := &Env{u: u, st: st, old: pre, vars: map[string]EVal{}, pkg: contractPkg(u.P, ct, callee), fn: callee, freshLo: u.fresh}
	if env.pkg == nil {
		env.pkg = u.Pkg
	}
	_ = preFr
	names := u.paramNames(callee, ct, sig, len(args) == sig.Params().Len()+1 && sig.Recv() == nil)
	ptys := paramTypes(callee, sig, len(args))
	u.bindParams(env, names, ptys, args)
	if !trusted {
		u.lockSetCall(st, fr, site, callee, ct, env)
	}
	tags := unionTags(ct)
	// requires
	for i, cl := range ct.Clauses {
		if cl.Kind != "requires" {
			continue
		}
		env.key = fmt.Sprintf("%s.req%d", name, i)
		g, err := env.EvalBool(cl.Expr)
		if err != nil {
			u.specError(cl, err)
			continue
		}
		ord := 0
		if site != nil {
			ord = u.siteOrdinal(site, "pre:"+name)
		}
		lbl := cl.Name
		if lbl == "" {
			lbl = fmt.Sprintf("r%d", i)
		}
		u.Prove(st, u.obligName("pre:"+name, fmt.Sprintf("%s#%d", lbl, ord)), "pre", u.tagsOr(mergeTags(tags, cl.Tags)), posOf(site), "requires "+cl.Text, g, args)
	}
	// frame
	u.applyModifies(st, fr, site, ct, env, trusted, name)
	if !trusted || contractHasClause(ct, "chan_effects") {
		// an in-repo callee may send / receive / close on channels it can reach
		u.havocChans(st)
	}
	// a callee of the module whose contract says when it may panic: the call may also end
	// in that panic, with the callee's on_panic postconditions, and the caller's deferred
	// functions and panic clauses then apply to it
	if !trusted && callee != nil && (contractHasClause(ct, "panics_only_if") || contractHasClause(ct, "panic_ensures")) {
		pst, pfr := st.Clone(), fr.cloneFor()
		penv := &Env{u: u, st: pst, old: pre, vars: env.vars, pkg: env.pkg, fn: callee, assuming: true, freshLo: env.freshLo}
		for i, cl := range ct.Clauses {
			if cl.Kind != "panics_only_if" && cl.Kind != "panic_ensures" {
				continue
			}
			if mentionsCallLog(cl.Expr) {
				continue
			}
			penv.key = fmt.Sprintf("%s.pan%d", name, i)
			g, err := penv.EvalBool(cl.Expr)
			if err != nil {
				continue
			}
			pst.Assume(g)
		}
		if u.Feasible(pst) {
			u.bumpCalls(pst, desigs, args, nil)
			pst.PanicFromCallee = true
			pst.Trace = append(pst.Trace, "panic-in:"+name)
			u.doPanic(pst, pfr, u.Fresh("panicval", SV), site)
		}
	}
	// results
	rts := resultTypes(sig)
	// objects the callee allocates are new to the caller: their content is whatever
	// the callee's postcondition says, not the caller's pre-call memory
	returnsRefs := false
	for _, rt := range rts {
		if u.P.TW.SortOf(rt) == SV {
			returnsRefs = true
		}
	}
	clockAfter := new(int)
	*clockAfter = 1 << 60
	if returnsRefs {
		clock := u.fresh
		st.AllHavocs = append(st.AllHavocs, u.newAllHavoc(func(addr Term) Term {
			root := addrRoot(addr)
			if root.Op == "" {
				if strings.HasPrefix(root.A, "p_") || strings.HasPrefix(root.A, "fv_") || strings.HasPrefix(root.A, "glob!") {
					return False
				}
				if strings.HasPrefix(root.A, "obj!") {
					if i := strings.LastIndex(root.A, "!"); i >= 0 {
						var n int
						if _, err := fmt.Sscanf(root.A[i+1:], "%d", &n); err == nil {
							if n > clock && n <= *clockAfter {
								return True
							}
							return False
						}
					}
				}
			}
			id := App("aid", SInt, App("aobj", SV, addr))
			return And(Gt(id, IntLit(int64(clock))), Le(id, IntLit(int64(*clockAfter))))
		}))
	}
	var res []Term
	for i, rt := range rts {
		res = append(res, u.FreshOfType(st, fmt.Sprintf("%s_r%d", sanitize(name), i), rt))
	}
	u.bumpCalls(st, desigs, args, res, rts...)
	// ensures (assumed)
	post := &Env{u: u, st: st, old: pre, vars: env.vars, pkg: env.pkg, fn: callee, assuming: true, freshLo: env.freshLo}
	u.bindResults(post, u.resultNames(callee, ct, sig), rts, res)
	for i, cl := range ct.Clauses {
		if cl.Kind != "ensures" {
			continue
		}
		if mentionsCallLog(cl.Expr) {
			// a clause about the callee's own calls says nothing in the caller's call log
			continue
		}
		post.key = fmt.Sprintf("%s.ens%d", name, i)
		g, err := post.EvalBool(cl.Expr)
		if err != nil {
			// a clause that needs the callee's locals cannot be used by a caller (it is
			// checked in the callee's own unit, where a real error would surface)
			if !strings.Contains(err.Error(), "unknown identifier") {
				u.specError(cl, err)
			}
			continue
		}
		st.Assume(g)
	}
	// pointwise (forall) postconditions are remembered against the state right
	// after the call and instantiated at indexes used later (u.instantiateAt)
	var frozen *State
	for i, cl := range ct.Clauses {
		if cl.Kind != "ensures" || mentionsCallLog(cl.Expr) || !hasForall(cl.Expr) {
			continue
		}
		if frozen == nil {
			frozen = st.Clone()
		}
		e2 := *post
		e2.st = frozen
		e2.keepUniversals = true
		e2.target = st
		e2.key = fmt.Sprintf("%s.ensU%d", name, i)
		e2.EvalBool(cl.Expr)
	}
	if trusted {
		u.assumptions["assumed contract: "+ct.Target] = true
	} else if callee != nil {
		u.usedContracts[u.P.unitNameOf(callee)] = true
	}
	// whatever the callee returned was allocated no later than now
	*clockAfter = u.fresh
	st.Clock = u.fresh
	for i, r := range res {
		if r.Sort == SV && i < len(rts) {
			u.clockFacts(r, rts[i], 0)
		}
	}
	k(st, fr, packResults(res))
}

func mergeTags(a, b []string) []string {
	set := map[string]bool{}
	for _, t := range a {
		set[t] = true
	}
	for _, t := range b {
		set[t] = true
	}
	var out []string
	for t := range set {
		out = append(out, t)
	}
	sort.Strings(out)
	return out
}

func posOf(in ssa.Instruction) token.Pos {
	if in == nil {
		return token.NoPos
	}
	if p := in.Pos(); p.IsValid() {
		return p
	}
	// fall back to the nearest instruction with a position in the block
	b := in.Block()
	if b != nil {
		for _, x := range b.Instrs {
			if x.Pos().IsValid() {
				return x.Pos()
			}
		}
	}
	return token.NoPos
}

// modTarget is one evaluated modifies entry.
type modTarget struct {
	external bool
	sortOf map[string]Sort
	all   bool
	key   string               // memory key ("" = by address only)
	addr  *Term                // single location
	pred  func(addr Term) Term // region predicate
	keys  []string
	sorts []Sort
	text  string
}

func (u *Unit) evalModifies(env *Env, ct *Contract) (targets []modTarget, everything bool) {
	for _, cl := range ct.Clauses {
		if cl.Kind != "modifies" {
			continue
		}
		for _, ex := range cl.Exprs {
			t, all, err := u.evalModTarget(env, ex)
			if err != nil {
				u.specError(cl, err)
				everything = true
				continue
			}
			if all {
				everything = true
				continue
			}
			t.text = cl.Text
			targets = append(targets, t)
		}
	}
	if ct.NoFrame {
		everything = true
	}
	return
}

func (u *Unit) evalModTarget(env *Env, ex Expr) (mt modTarget, all bool, err error) {
	defer func() {
		if r := recover(); r != nil {
			if ee, ok := r.(evalError); ok {
				err = ee
				return
			}
			panic(r)
		}
	}()
	if id, ok := ex.(EIdent); ok && id.Name == "everything" {
		return modTarget{}, true, nil
	}
	if id, ok := ex.(EIdent); ok && id.Name == "external" {
		// everything code outside this module could write: all locations except
		// module-private fields (and unleaked locals, handled by havocKey users)
		mt.keys = nil
		mt.external = true
		mt.pred = func(addr Term) Term { return u.notPrivate(addr) }
		return mt, false, nil
	}
	if c, ok := ex.(ECall); ok {
		if g, isG := u.P.Ghosts[c.Fn]; isG && g.State && len(c.Args) == 1 {
			v := env.eval(c.Args[0])
			rs, _ := sortByName(u, g.Result)
			u.ghostArr(env.st, "u_"+g.Name, rs)
			a := v.T
			mt.keys = []string{"ghost:u_" + g.Name}
			mt.addr = &a
			mt.pred = func(x Term) Term { return Eq(x, a) }
			return mt, false, nil
		}
		switch c.Fn {
		case "mem":
			// mem("pkg.Type"): whole memory of that leaf type
			s, ok := c.Args[0].(EStr)
			if !ok {
				efail("mem(\"type\")")
			}
			t := u.P.typeByName(env.pkg, env.fn, s.V)
			if t == nil {
				efail("mem: unknown type %q", s.V)
			}
			keys := map[string]bool{}
			u.leafKeys(t, keys)
			for k := range keys {
				mt.keys = append(mt.keys, k)
			}
			sort.Strings(mt.keys)
			mt.pred = func(Term) Term { return True }
			return mt, false, nil
		case "obj":
			// obj(p): every location inside the object p points into
			v := env.eval(c.Args[0])
			root := App("aobj", SV, v.T)
			mt.pred = func(addr Term) Term { return Eq(App("aobj", SV, addr), root) }
			mt.keys = nil // all keys
			return mt, false, nil
		case "elems":
			v := env.eval(c.Args[0])
			if v.Ty == nil {
				efail("elems: untyped")
			}
			sl, ok := v.Ty.Underlying().(*types.Slice)
			if !ok {
				efail("elems: not a slice")
			}
			keys := map[string]bool{}
			u.leafKeys(sl.Elem(), keys)
			mt.sortOf = map[string]Sort{}
			for k := range keys {
				mt.keys = append(mt.keys, k)
				mt.sortOf[k] = u.sortOfKey(sl.Elem(), k)
			}
			sort.Strings(mt.keys)
			p := App("sptr", SV, v.T)
			mt.pred = func(addr Term) Term { return Eq(App("aobj", SV, addr), App("aobj", SV, p)) }
			return mt, false, nil
		case "mapof":
			// mapof(m): the content of map m
			v := env.eval(c.Args[0])
			if v.Ty == nil {
				efail("mapof: untyped")
			}
			m, ok := v.Ty.Underlying().(*types.Map)
			if !ok {
				efail("mapof: not a map")
			}
			tk := typeKey(m)
			mt.keys = []string{"maphas:" + tk, "mapval:" + tk, "maplen:" + tk}
			mv := v.T
			mt.pred = func(addr Term) Term { return Eq(addr, mv) }
			return mt, false, nil
		case "maps":
			// maps("type"): all maps of that type
			s, ok := c.Args[0].(EStr)
			if !ok {
				efail("maps(\"type\")")
			}
			t := u.P.typeByName(env.pkg, env.fn, s.V)
			if t == nil {
				efail("maps: unknown type %q", s.V)
			}
			m, ok := t.Underlying().(*types.Map)
			if !ok {
				efail("maps: not a map type")
			}
			tk := typeKey(m)
			mt.keys = []string{"maphas:" + tk, "mapval:" + tk, "maplen:" + tk}
			mt.pred = func(Term) Term { return True }
			return mt, false, nil
		}
	}
	a, ty := env.addrOf(ex)
	keys := map[string]bool{}
	u.leafKeys(ty, keys)
	mt.sortOf = map[string]Sort{}
	for k := range keys {
		mt.keys = append(mt.keys, k)
		mt.sortOf[k] = u.sortOfKey(ty, k)
	}
	sort.Strings(mt.keys)
	addr := a
	if _, isSt := isStruct(ty); isSt {
		mt.pred = func(x Term) Term { return u.insideStruct(x, addr) }
	} else {
		mt.addr = &addr
		mt.pred = func(x Term) Term { return Eq(x, addr) }
	}
	return mt, false, nil
}

// insideStruct: x is addr or a (nested) field address of addr.
func (u *Unit) insideStruct(x, addr Term) Term {
	cur := x
	var alts []Term
	eq := func(a Term) {
		if !u.distinctAddr(a, addr) {
			alts = append(alts, Eq(a, addr))
		}
	}
	// syntactic part of the chain
	for strings.HasPrefix(cur.Op, "fa_") || cur.Op == "ia" {
		eq(cur)
		cur = cur.Args[0]
	}
	eq(cur)
	if u.isAllocAtom(cur) {
		return Or(alts...)
	}
	// opaque root: it may itself be a field / element address (akind != 0)
	guard := True
	for i := 0; i < 3; i++ {
		isPart := Neq(App("akind", SInt, cur), IntLit(0))
		guard = And(guard, isPart)
		// a field / element address lies one level below its base
		u.Axiom(Implies(isPart, Eq(Add(App("adepth", SInt, App("abase", SV, cur)), IntLit(1)), App("adepth", SInt, cur))))
		cur = App("abase", SV, cur)
		alts = append(alts, And(guard, Eq(cur, addr)))
	}
	return Or(alts...)
}

func (u *Unit) applyModifies(st *State, fr *Frame, site ssa.Instruction, ct *Contract, env *Env, trusted bool, name string) {
	targets, everything := u.evalModifies(env, ct)
	// the caller's own frame must cover the callee's
	u.checkCalleeFrame(st, fr, site, targets, everything, name)
	if everything {
		u.havocAll(st, fr)
		return
	}
	for _, t := range targets {
		keys := t.keys
		if keys == nil {
			locals := u.notInLocals(u.unleakedLocals(fr))
			inner := t.pred
			st.AllHavocs = append(st.AllHavocs, u.newAllHavoc(func(addr Term) Term { return And(locals(addr), inner(addr)) }))
			continue
		}
		for _, k := range keys {
			if _, ok := st.MemSort[k]; !ok {
				so, known := t.sortOf[k]
				if !known {
					continue
				}
				u.getMem(st, k, so)
			}
			if t.addr != nil {
				so := st.MemSort[k]
				nv := u.Fresh("hv", so)
				st.Mem[k] = Store(u.curMem(st, k), *t.addr, nv)
				continue
			}
			u.curMem(st, k)
			u.havocKey(st, k, t.pred)
		}
	}
}

// ---------------- frame obligations of the unit itself ----------------

func (u *Unit) ownModifies(st *State, fr *Frame) (targets []modTarget, everything bool, has bool) {
	top := fr
	for top.Parent != nil {
		top = top.Parent
	}
	if u.C == nil || top.Entry == nil {
		return nil, true, false
	}
	if u.modCache != nil {
		return u.modCache.targets, u.modCache.everything, true
	}
	env := u.entryEnv(top, top.Entry)
	targets, everything = u.evalModifies(env, u.C)
	u.modCache = &modCacheT{targets, everything}
	return targets, everything, true
}

type modCacheT struct {
	targets    []modTarget
	everything bool
}

func (u *Unit) heapWriteChecks(st *State, fr *Frame, in ssa.Instruction, addr Term, t types.Type) {
	u.lockCheck(st, fr, in, addr, true)
	targets, everything, has := u.ownModifies(st, fr)
	if !has || everything {
		return
	}
	root := addrRoot(addr)
	if u.isAllocAtom(root) && st.Fresh[root.String()] {
		return
	}
	keys := map[string]bool{}
	u.leafKeys(t, keys)
	var alts []Term
	// objects allocated since entry are always writable
	alts = append(alts, Gt(App("aid", SInt, App("aobj", SV, addr)), IntLit(int64(u.entryFresh))))
	for _, tg := range targets {
		applies := tg.keys == nil
		for _, k := range tg.keys {
			if keys[k] {
				applies = true
			}
		}
		if applies {
			alts = append(alts, tg.pred(addr))
		}
	}
	ord := u.siteOrdinal(in, "modifies")
	u.Prove(st, u.obligName("modifies", fmt.Sprintf("#%d", ord)), "modifies", u.tagsOr(nil), posOf(in), "write stays inside the function's modifies clause: "+in.String(), Or(alts...), []Term{addr})
}

func (u *Unit) mapWriteChecks(st *State, fr *Frame, in ssa.Instruction, m Term, mt *types.Map) {
	targets, everything, has := u.ownModifies(st, fr)
	if !has || everything {
		return
	}
	if u.isAllocAtom(m) && st.Fresh[m.String()] {
		return
	}
	key := "maphas:" + typeKey(mt)
	alts := []Term{Gt(App("aid", SInt, App("aobj", SV, m)), IntLit(int64(u.entryFresh)))}
	for _, tg := range targets {
		for _, k := range tg.keys {
			if k == key {
				alts = append(alts, tg.pred(m))
			}
		}
	}
	ord := u.siteOrdinal(in, "modifies")
	u.Prove(st, u.obligName("modifies", fmt.Sprintf("map#%d", ord)), "modifies", u.tagsOr(nil), posOf(in), "map write stays inside the function's modifies clause: "+in.String(), Or(alts...), []Term{m})
}

func (u *Unit) checkCalleeFrame(st *State, fr *Frame, site ssa.Instruction, callee []modTarget, calleeAll bool, name string) {
	targets, everything, has := u.ownModifies(st, fr)
	if !has || everything {
		return
	}
	ord := 0
	if site != nil {
		ord = u.siteOrdinal(site, "modifies-call")
	}
	if calleeAll {
		u.Prove(st, u.obligName("modifies", fmt.Sprintf("call:%s#%d", name, ord)), "modifies", u.tagsOr(nil), posOf(site), "callee "+name+" may modify anything but this function has a modifies clause", False, nil)
		return
	}
	for i, ct := range callee {
		// the callee target must be inside one of ours: compare at a skolem address
		sk := u.Const(fmt.Sprintf("sk!modaddr!%d", i), SV)
		var alts []Term
		alts = append(alts, Gt(App("aid", SInt, App("aobj", SV, sk)), IntLit(int64(u.entryFresh))))
		for _, tg := range targets {
			overlap := tg.keys == nil || ct.keys == nil
			for _, k := range tg.keys {
				for _, k2 := range ct.keys {
					if k == k2 {
						overlap = true
					}
				}
			}
			if overlap {
				alts = append(alts, tg.pred(sk))
			}
		}
		u.Prove(st, u.obligName("modifies", fmt.Sprintf("call:%s#%d.%d", name, ord, i)), "modifies", u.tagsOr(nil), posOf(site), "callee "+name+" modifies only what this function may modify", Implies(ct.pred(sk), Or(alts...)), nil)
	}
}

// callAssertions evaluates the unit's assert_call clauses for a call site.
func (u *Unit) callAssertions(st *State, fr *Frame, site ssa.Instruction, desigs []string, args []Term) {
	if u.C == nil {
		return
	}
	top := fr
	for top.Parent != nil {
		top = top.Parent
	}
	for i, cl := range u.C.Clauses {
		if cl.Kind != "assert_call" {
			continue
		}
		match := false
		for _, d := range desigs {
			if d == cl.Desig {
				match = true
			}
		}
		if !match {
			continue
		}
		u.assertCallSeen[i] = true
		env := u.entryEnv(top, top.Entry)
		env.st = st
		// the clause was written for the unit's own function: its identifiers are
		// resolved in the nearest enclosing frame that lexically belongs to it (the
		// function itself or a literal nested in it), not in the frame of a helper
		// without contract that is being executed in place
		env.fr = fr // identifiers resolve innermost-first through the run-time frame chain (Env.ident)
		env.key = fmt.Sprintf("%s.ac%d", u.Name, i)
		if fr == top {
			for n, v := range env.vars {
				_ = v
				if !strings.HasSuffix(n, "$entry") && localAlloc(fr.Fn, n) != nil {
					delete(env.vars, n)
				}
			}
		}
		for j, a := range args {
			env.vars[fmt.Sprintf("arg%d", j)] = EVal{T: a, Ty: argTypeAt(site, j)}
		}
		if len(args) > 0 {
			env.vars["recv"] = EVal{T: args[0], Ty: argTypeAt(site, 0)}
		}
		g, err := env.EvalBool(cl.Expr)
		if err != nil && env.fr != fr && !u.missingCallIsViolation(err) {
			// a local the clause names may have moved into the helper together with
			// the call: then the helper's own frame knows it
			env.fr = fr
			if g2, err2 := env.EvalBool(cl.Expr); err2 == nil {
				g, err = g2, nil
			}
		}
		if err != nil {
			if u.missingCallIsViolation(err) {
				g = False // the clause speaks about a call this path no longer makes
			} else {
				u.specError(cl, err)
				continue
			}
		}
		ord := u.siteOrdinal(site, "assert_call:"+cl.Desig)
		lbl := cl.Name
		if lbl == "" {
			lbl = fmt.Sprintf("c%d", i)
		}
		u.Prove(st, u.obligName("assert_call:"+cl.Desig, fmt.Sprintf("%s#%d", lbl, ord)), "assert_call", u.tagsOr(cl.Tags), posOf(site), "assert_call "+cl.Text, g, args)
	}
}

func argTypeAt(site ssa.Instruction, j int) types.Type {
	if sel, ok := site.(*ssa.Select); ok {
		// send case of a select: arg0 = channel, arg1 = value
		for _, s := range sel.States {
			if s.Dir == types.SendOnly {
				if j == 0 {
					return s.Chan.Type()
				}
				return s.Send.Type()
			}
		}
		return nil
	}
	if snd, ok := site.(*ssa.Send); ok {
		if j == 0 {
			return snd.Chan.Type()
		}
		return snd.X.Type()
	}
	var c *ssa.CallCommon
	switch s := site.(type) {
	case *ssa.Call:
		c = &s.Call
	case *ssa.Defer:
		c = &s.Call
	case *ssa.Go:
		c = &s.Call
	}
	if c == nil {
		return nil
	}
	if c.IsInvoke() {
		if j == 0 {
			return c.Value.Type()
		}
		j--
	}
	if j < len(c.Args) {
		return c.Args[j].Type()
	}
	return nil
}

// ---------------- builtins ----------------

func (u *Unit) builtin(st *State, fr *Frame, site ssa.Instruction, c *ssa.CallCommon, b *ssa.Builtin, args []Val, k CallK) {
	tw := u.P.TW
	switch b.Name() {
	case "len":
		a := args[0].T
		switch t := c.Args[0].Type().Underlying().(type) {
		case *types.Basic:
			k(st, fr, Val{T: u.strLen(a)})
		case *types.Map:
			k(st, fr, Val{T: u.mapLenOf(st, t, a)})
		case *types.Chan:
			k(st, fr, Val{T: u.FreshOfType(st, "chlen", types.Typ[types.Int])})
		case *types.Slice:
			l := App("vlen", SInt, a)
			u.Axiom(Ge(l, IntLit(0)))
			// a slice cannot be longer than the address space allows for its element size
			sz := types.SizesFor("gc", "amd64").Sizeof(t.Elem())
			if sz < 1 {
				sz = 1
			}
			u.Axiom(Le(Mul(l, IntLit(sz)), maxInt))
			k(st, fr, Val{T: l})
		default:
			l := App("vlen", SInt, a)
			u.Axiom(And(Ge(l, IntLit(0)), Le(l, maxInt)))
			k(st, fr, Val{T: l})
		}
		return
	case "cap":
		l := App("vcap", SInt, args[0].T)
		u.Axiom(Ge(l, IntLit(0)))
		k(st, fr, Val{T: l})
		return
	case "append":
		u.doAppend(st, fr, site, c, args, k)
		return
	case "copy":
		// copy(dst, src): n = min(len(dst), len(src)) elements are written; which values is
		// not modelled, so everything inside the object dst points into is forgotten
		u.abstracted("builtin copy (count exact, copied contents havocked)")
		n := u.FreshOfType(st, "copyn", types.Typ[types.Int])
		dl := App("vlen", SInt, args[0].T)
		var sl Term
		if args[1].T.Sort == SStr {
			sl = App("slen", SInt, args[1].T)
		} else {
			sl = App("vlen", SInt, args[1].T)
		}
		st.Assume(Eq(n, Ite(Le(dl, sl), dl, sl)))
		if ds, ok := c.Args[0].Type().Underlying().(*types.Slice); ok {
			keys := map[string]bool{}
			u.leafKeys(ds.Elem(), keys)
			obj := App("aobj", SV, u.sptrOf(args[0].T))
			for key := range keys {
				u.havocMem(st, key, func(addr Term) Term { return And(Gt(n, IntLit(0)), Eq(App("aobj", SV, addr), obj)) })
			}
		}
		k(st, fr, Val{T: n})
		return
	case "delete":
		mt := c.Args[0].Type().Underlying().(*types.Map)
		u.mapWriteChecks(st, fr, site, args[0].T, mt)
		u.mapDelete(st, mt, args[0].T, args[1].T)
		k(st, fr, Val{T: NilV})
		return
	case "close":
		u.chanClose(st, fr, site, args[0].T)
		k(st, fr, Val{T: NilV})
		return
	case "panic":
		u.doPanic(st, fr, args[0].T, site)
		return
	case "print", "println":
		k(st, fr, Val{T: NilV})
		return
	case "ssa:wrapnilchk":
		k(st, fr, args[0])
		return
	case "ssa:deferstack":
		k(st, fr, Val{T: NilV})
		return
	case "recover":
		if st.Panicked {
			// called while a panic is in flight (from a deferred function): it stops the
			// panic and yields its value, which is never nil
			st.Panicked = false
			st.PanicFromCallee = false
			v := st.PanicVal
			if v.Op == "" && v.A == "" || v.String() == NilV.String() {
				v = u.Fresh("panicval", SV)
			}
			st.Assume(Neq(v, NilV))
			k(st, fr, Val{T: v})
			return
		}
		k(st, fr, Val{T: NilV})
		return
	case "min", "max":
		if len(args) == 2 && args[0].T.Sort == SInt {
			a, bb := args[0].T, args[1].T
			if b.Name() == "min" {
				k(st, fr, Val{T: Ite(Le(a, bb), a, bb)})
			} else {
				k(st, fr, Val{T: Ite(Ge(a, bb), a, bb)})
			}
			return
		}
	}
	u.abstracted("builtin " + b.Name())
	rt := c.Signature().Results()
	if rt.Len() == 1 {
		k(st, fr, Val{T: u.FreshOfType(st, "builtin", rt.At(0).Type())})
		return
	}
	_ = tw
	k(st, fr, Val{T: NilV})
}

// doAppend models append(s, e...) exactly: if len(s)+len(e) <= cap(s) the
// elements are written in place into s's backing array (visible through every
// slice header that shares it), otherwise the result has a fresh backing array
// holding s's elements followed by e's.
func (u *Unit) doAppend(st *State, fr *Frame, site ssa.Instruction, c *ssa.CallCommon, args []Val, k CallK) {
	s, e := args[0].T, args[1].T
	sl, ok := c.Args[0].Type().Underlying().(*types.Slice)
	if !ok {
		u.abstracted("append on non-slice")
		k(st, fr, Val{T: u.Fresh("append", SV)})
		return
	}
	ls := App("vlen", SInt, s)
	var le Term
	if e.Sort == SStr { // append([]byte, string...)
		le = u.strLen(e)
	} else {
		le = u.vlenOf(e)
	}
	u.Axiom(And(Ge(ls, IntLit(0)), Le(ls, App("vcap", SInt, s)), Le(App("vcap", SInt, s), maxInt)))
	u.Axiom(Ge(le, IntLit(0)))
	n := Add(ls, le)
	fits := Le(n, App("vcap", SInt, s))
	fitsFeas := u.Feasible(st, fits)
	growFeas := u.Feasible(st, Not(fits))
	if fitsFeas {
		s2, f2 := st, fr
		if growFeas {
			s2, f2 = st.Clone(), fr.cloneFor()
		}
		s2.Assume(fits)
		u.appendInPlace(s2, f2, sl, s, e, ls, le, n, k)
	}
	if growFeas {
		st.Assume(Not(fits))
		u.appendGrow(st, fr, sl, s, e, ls, le, n, k)
	}
}

func (u *Unit) appendInPlace(st *State, fr *Frame, sl *types.Slice, s, e, ls, le, n Term, k CallK) {
	r := u.Fresh("appendip", SV)
	sp, so := u.sptrOf(s), u.soffOf(s)
	st.Assume(Eq(App("vlen", SInt, r), n))
	st.Assume(Eq(App("vcap", SInt, r), App("vcap", SInt, s)))
	u.Axiom(Eq(App("sptr", SV, r), sp))
	u.Axiom(Eq(App("soff", SInt, r), so))
	u.Axiom(Neq(r, NilV))
	u.slices[r.String()] = sliceInfo{ptr: sp, off: so, len: n, cap: App("vcap", SInt, s)}
	if e.Sort == SStr {
		u.abstracted("append of string bytes in place")
		k(st, fr, Val{T: r})
		return
	}
	ep, eo := u.sptrOf(e), u.soffOf(e)
	if lv, isLit := intVal(le); isLit && lv.IsInt64() && lv.Int64() <= 4 {
		// a few explicit elements: plain stores
		for i := int64(0); i < lv.Int64(); i++ {
			v := u.load(st, u.elemAddr(ep, Add(eo, IntLit(i))), sl.Elem())
			u.store(st, u.elemAddr(sp, Add(so, Add(ls, IntLit(i)))), sl.Elem(), v)
		}
		k(st, fr, Val{T: r})
		return
	}
	// general case: positions [len(s), len(s)+len(e)) of the backing array take e's elements
	keys := map[string]bool{}
	u.leafKeys(sl.Elem(), keys)
	var ks []string
	for key := range keys {
		ks = append(ks, key)
	}
	sort.Strings(ks)
	for _, key := range ks {
		if _, ok := st.MemSort[key]; !ok {
			u.getMem(st, key, u.sortOfKey(sl.Elem(), key))
		}
		elemSort := st.MemSort[key]
		old := u.curMem(st, key)
		nm := u.Fresh("Mapi_"+shorten(sanitize(key), 30), ArrSort(SV, elemSort))
		lo, hi := Add(so, ls), Add(so, n)
		d := &MemDeriv{Old: old, Elem: elemSort, Kind: "frame"}
		d.Modified = func(addr Term) Term {
			if idx, _, ok := splitElemPathAny(addr); ok {
				base := elemBase(addr)
				return And(Eq(base, sp), Le(lo, idx), Lt(idx, hi))
			}
			// opaque address: inside the backing array object
			return Eq(App("aobj", SV, addr), App("aobj", SV, sp))
		}
		d.NewVal = func(addr Term) (Term, bool) {
			idx, rebuild, ok := splitElemPathAny(addr)
			if !ok {
				return Term{}, false
			}
			return u.selectMem(st, old, rebuild(u.elemAddr(ep, Add(eo, Sub(idx, lo)))), elemSort, 1), true
		}
		st.Derivs[nm.A] = d
		st.Mem[key] = nm
	}
	k(st, fr, Val{T: r})
}

func (u *Unit) appendGrow(st *State, fr *Frame, sl *types.Slice, s, e, ls, le, n Term, k CallK) {
	r := u.newSlice(st, "append", n, u.Fresh("appcap", SInt))
	st.Assume(Ge(App("vcap", SInt, r), n))
	keys := map[string]bool{}
	u.leafKeys(sl.Elem(), keys)
	rp := u.sptrOf(r)
	sp, so := u.sptrOf(s), u.soffOf(s)
	var ep, eo Term
	if e.Sort != SStr {
		ep, eo = u.sptrOf(e), u.soffOf(e)
	}
	var ks []string
	for key := range keys {
		ks = append(ks, key)
	}
	sort.Strings(ks)
	for _, key := range ks {
		if _, ok := st.MemSort[key]; !ok {
			u.getMem(st, key, u.sortOfKey(sl.Elem(), key))
		}
		elemSort := st.MemSort[key]
		old := u.curMem(st, key)
		nm := u.Fresh("Mapp_"+shorten(sanitize(key), 30), ArrSort(SV, elemSort))
		d := &MemDeriv{Old: old, Elem: elemSort, Kind: "frame"}
		d.Modified = func(addr Term) Term {
			root := addrRoot(addr)
			if u.isAllocAtom(root) {
				if root.String() == rp.String() {
					return True
				}
				return False
			}
			return Eq(App("aobj", SV, addr), rp)
		}
		if e.Sort != SStr {
			d.NewVal = func(addr Term) (Term, bool) {
				i, rebuild, ok := splitElemPath(addr, rp)
				if !ok {
					return Term{}, false
				}
				fromS := u.selectMem(st, old, rebuild(u.elemAddr(sp, Add(so, i))), elemSort, 1)
				fromE := u.selectMem(st, old, rebuild(u.elemAddr(ep, Add(eo, Sub(i, ls)))), elemSort, 1)
				return Ite(Lt(i, ls), fromS, fromE), true
			}
		}
		st.Derivs[nm.A] = d
		st.Mem[key] = nm
	}
	k(st, fr, Val{T: r})
}

// splitElemPathAny decomposes addr = f1(...(ia(base, i))) for any base.
func splitElemPathAny(addr Term) (idx Term, rebuild func(Term) Term, ok bool) {
	var fas []string
	cur := addr
	for strings.HasPrefix(cur.Op, "fa_") {
		fas = append(fas, cur.Op)
		cur = cur.Args[0]
	}
	if cur.Op != "ia" {
		return Term{}, nil, false
	}
	idx = cur.Args[1]
	rebuild = func(elem Term) Term {
		t := elem
		for i := len(fas) - 1; i >= 0; i-- {
			t = App(fas[i], SV, t)
		}
		return t
	}
	return idx, rebuild, true
}

func elemBase(addr Term) Term {
	cur := addr
	for strings.HasPrefix(cur.Op, "fa_") {
		cur = cur.Args[0]
	}
	if cur.Op == "ia" {
		return cur.Args[0]
	}
	return cur
}

func (u *Unit) sortOfKey(t types.Type, key string) Sort {
	if st, ok := isStruct(t); ok {
		for i := 0; i < st.NumFields(); i++ {
			if s := u.sortOfKey(st.Field(i).Type(), key); s != "" {
				return s
			}
		}
		return ""
	}
	if a, ok := t.Underlying().(*types.Array); ok {
		return u.sortOfKey(a.Elem(), key)
	}
	if typeKey(t) == key {
		return u.P.TW.SortOf(t)
	}
	return ""
}

// splitElemPath decomposes addr = f1(f2(...(ia(base, i)))) with base == want.
func splitElemPath(addr, want Term) (idx Term, rebuild func(Term) Term, ok bool) {
	var fas []string
	cur := addr
	for strings.HasPrefix(cur.Op, "fa_") {
		fas = append(fas, cur.Op)
		cur = cur.Args[0]
	}
	if cur.Op != "ia" || cur.Args[0].String() != want.String() {
		return Term{}, nil, false
	}
	idx = cur.Args[1]
	rebuild = func(elem Term) Term {
		t := elem
		for i := len(fas) - 1; i >= 0; i-- {
			t = App(fas[i], SV, t)
		}
		return t
	}
	return idx, rebuild, true
}

// onlyLoadedForReturn: every load of the local is used by a Return only.
func onlyLoadedForReturn(a *ssa.Alloc) bool {
	if a.Referrers() == nil {
		return false
	}
	for _, r := range *a.Referrers() {
		switch r := r.(type) {
		case *ssa.Store, *ssa.DebugRef:
		case *ssa.UnOp:
			if r.Referrers() == nil {
				return false
			}
			for _, rr := range *r.Referrers() {
				if _, ok := rr.(*ssa.Return); !ok {
					if _, isDbg := rr.(*ssa.DebugRef); !isDbg {
						return false
					}
				}
			}
		default:
			return false
		}
	}
	return true
}

// mentionsCallLog: the expression refers to the ghost call log (calls, called,
// lastresult, lastarg), which is per function activation.
func mentionsCallLog(x Expr) bool {
	switch x := x.(type) {
	case ECall:
		switch x.Fn {
		case "calls", "called", "lastresult", "lastarg", "iter_count", "iter_key", "iter_visited":
			return true
		}
		for _, a := range x.Args {
			if mentionsCallLog(a) {
				return true
			}
		}
	case EBinary:
		return mentionsCallLog(x.X) || mentionsCallLog(x.Y)
	case EUnary:
		return mentionsCallLog(x.X)
	case ESel:
		return mentionsCallLog(x.X)
	case EIndex:
		return mentionsCallLog(x.X) || mentionsCallLog(x.I)
	case EForall:
		return mentionsCallLog(x.Body)
	case ESlice:
		return mentionsCallLog(x.X)
	case EIdent:
		return false
	}
	return false
}

func contractHasClause(ct *Contract, kind string) bool {
	for _, cl := range ct.Clauses {
		if cl.Kind == kind {
			return true
		}
	}
	return false
}

// captureImmutable: the variable captured as fv is stored to exactly once in the
// whole enclosing function tree.
func (p *Prog) captureImmutable(fv *ssa.FreeVar) bool {
	p.mu.Lock()
	defer p.mu.Unlock()
	if p.capImm == nil {
		p.capImm = map[*ssa.FreeVar]bool{}
	}
	if v, ok := p.capImm[fv]; ok {
		return v
	}
	res := false
	// find the Alloc behind the free variable
	var origin func(fv *ssa.FreeVar, depth int) *ssa.Alloc
	origin = func(fv *ssa.FreeVar, depth int) *ssa.Alloc {
		fn := fv.Parent()
		parent := fn.Parent()
		if parent == nil || depth > 5 {
			return nil
		}
		idx := -1
		for i, x := range fn.FreeVars {
			if x == fv {
				idx = i
			}
		}
		for _, b := range parent.Blocks {
			for _, in := range b.Instrs {
				if mc, ok := in.(*ssa.MakeClosure); ok && mc.Fn == ssa.Value(fn) && idx >= 0 && idx < len(mc.Bindings) {
					switch bv := mc.Bindings[idx].(type) {
					case *ssa.Alloc:
						return bv
					case *ssa.FreeVar:
						return origin(bv, depth+1)
					}
				}
			}
		}
		return nil
	}
	a := origin(fv, 0)
	if a != nil {
		stores := 0
		var count func(f *ssa.Function, target ssa.Value)
		count = func(f *ssa.Function, target ssa.Value) {
			for _, b := range f.Blocks {
				for _, in := range b.Instrs {
					switch x := in.(type) {
					case *ssa.Store:
						root := x.Addr
						for {
							if fa, ok := root.(*ssa.FieldAddr); ok {
								root = fa.X
								continue
							}
							if ia, ok := root.(*ssa.IndexAddr); ok {
								root = ia.X
								continue
							}
							break
						}
						if root == target {
							stores++
						}
					case *ssa.MakeClosure:
						cf := x.Fn.(*ssa.Function)
						for i, bd := range x.Bindings {
							if bd == target && i < len(cf.FreeVars) {
								count(cf, cf.FreeVars[i])
							}
						}
					case *ssa.Call:
						// the address passed to a call: could be written there
						for _, arg := range x.Call.Args {
							if arg == target {
								stores += 2
							}
						}
					}
				}
			}
		}
		count(a.Parent(), a)
		res = stores <= 1
	}
	p.capImm[fv] = res
	return res
}

func hasForall(x Expr) bool {
	switch x := x.(type) {
	case EForall:
		return true
	case EBinary:
		return hasForall(x.X) || hasForall(x.Y)
	case EUnary:
		return hasForall(x.X)
	case ECall:
		for _, a := range x.Args {
			if hasForall(a) {
				return true
			}
		}
	}
	return false
}

// instantiateAt: retained integer universals (assumed pointwise facts) at an
// index term the program uses.
func (u *Unit) instantiateAt(st *State, idx Term) {
	if len(st.Universals) == 0 || idx.Sort != SInt {
		return
	}
	key := idx.String()
	for i, un := range st.Universals {
		if un.sort != SInt {
			continue
		}
		k := fmt.Sprintf("%d@%s", i, key)
		if st.UnivDone[k] {
			continue
		}
		nd := make(map[string]bool, len(st.UnivDone)+1)
		for a, b := range st.UnivDone {
			nd[a] = b
		}
		nd[k] = true
		st.UnivDone = nd
		if f, good := un.inst(idx); good {
			st.Assume(f)
		}
	}
}

// helperMayCall: helper, or a function of the module it statically calls, contains a
// call site whose designators include desig.
func (u *Unit) helperMayCall(helper *ssa.Function, desig string) bool {
	seen := map[*ssa.Function]bool{}
	var visit func(f *ssa.Function) bool
	visit = func(f *ssa.Function) bool {
		if f == nil || seen[f] {
			return false
		}
		seen[f] = true
		for _, b := range f.Blocks {
			for _, in := range b.Instrs {
				var c *ssa.CallCommon
				switch x := in.(type) {
				case *ssa.Call:
					c = &x.Call
				case *ssa.Defer:
					c = &x.Call
				case *ssa.Go:
					c = &x.Call
				case *ssa.MakeClosure:
					if visit(x.Fn.(*ssa.Function)) {
						return true
					}
					continue
				default:
					continue
				}
				var ds []string
				if sc := c.StaticCallee(); sc != nil {
					ds = u.funcDesignators(sc)
					if sc.Pkg != nil && strings.HasPrefix(sc.Pkg.Pkg.Path(), modulePath) && visit(sc) {
						return true
					}
				} else {
					ds = u.dynDesignators(c)
				}
				for _, d := range ds {
					if d == desig {
						return true
					}
				}
			}
		}
		return false
	}
	return visit(helper)
}

// missingCallIsViolation: a clause could not be evaluated because it mentions
// lastresult/lastarg of a call that does not happen on this path. The contracts guard
// such mentions with called(...) wherever the call is conditional, so on the unchanged
// tree this never happens; after a change it means the call was removed. It stays
// "cannot decide" when the call may have moved into a helper without contract or the
// callee's own contract lost its target (rename).
func (u *Unit) missingCallIsViolation(err error) bool {
	msg := err.Error()
	var desig string
	for _, pfx := range []string{`lastresult: no call to "`, `lastarg: no call to "`} {
		if i := strings.Index(msg, pfx); i >= 0 {
			rest := msg[i+len(pfx):]
			if j := strings.Index(rest, `"`); j >= 0 {
				desig = rest[:j]
			}
		}
	}
	if desig == "" {
		return false
	}
	if u.P.desigNamesMissingTarget(desig) != nil {
		return false
	}
	for _, hf := range u.uncontracted {
		if u.helperMayCall(hf, desig) || u.helperMayCall(hf, shortDesig(desig)) {
			return false
		}
	}
	return true
}

func shortDesig(d string) string { return d }

// lexicalFrame returns the innermost frame at or above fr whose function is
// top's function or a function literal nested in it.
func lexicalFrame(fr, top *Frame) *Frame {
	for f := fr; f != nil; f = f.Parent {
		for g := f.Fn; g != nil; g = g.Parent() {
			if g == top.Fn {
				return f
			}
		}
	}
	return top
}
