package main

// Terms: a tiny structured representation of SMT-LIB2 terms with a few
// syntactic simplifications (read-over-write, selector-over-constructor,
// boolean constant folding). Everything the generator hands to a solver is a
// rendering of these trees.

import (
	"fmt"
	"math/big"
	"strings"
)

type Sort string

const (
	SInt  Sort = "Int"
	SBool Sort = "Bool"
	SStr  Sort = "Str"
	SV    Sort = "V"
	SF    Sort = "Flt"
)

func ArrSort(idx, elem Sort) Sort { return Sort("(Array " + string(idx) + " " + string(elem) + ")") }

type Term struct {
	Op   string // "" for atoms
	Args []Term
	A    string // atom text (when Op == "")
	Sort Sort
	s    string
}

func (t Term) String() string {
	if t.s != "" {
		return t.s
	}
	if t.Op == "" {
		return t.A
	}
	var b strings.Builder
	b.WriteByte('(')
	b.WriteString(t.Op)
	for _, a := range t.Args {
		b.WriteByte(' ')
		b.WriteString(a.String())
	}
	b.WriteByte(')')
	return b.String()
}

func (t Term) IsZeroTerm() bool { return t.Op == "" && t.A == "" }

func Atom(s string, so Sort) Term { return Term{A: s, Sort: so, s: s} }

func App(op string, so Sort, args ...Term) Term {
	t := Term{Op: op, Args: args, Sort: so}
	t.s = t.String()
	return t
}

var (
	True  = Atom("true", SBool)
	False = Atom("false", SBool)
	NilV  = Atom("nilV", SV)
)

func IntLit(n int64) Term {
	if n < 0 {
		return Atom(fmt.Sprintf("(- %d)", -n), SInt)
	}
	return Atom(fmt.Sprintf("%d", n), SInt)
}

func BigLit(n *big.Int) Term {
	if n.Sign() < 0 {
		return Atom("(- "+new(big.Int).Neg(n).String()+")", SInt)
	}
	return Atom(n.String(), SInt)
}

func isTrue(t Term) bool  { return t.Op == "" && t.A == "true" }
func isFalse(t Term) bool { return t.Op == "" && t.A == "false" }

// intVal returns the value of an integer literal term.
func intVal(t Term) (*big.Int, bool) {
	if t.Op != "" || t.Sort != SInt {
		return nil, false
	}
	s := t.A
	neg := false
	if strings.HasPrefix(s, "(- ") && strings.HasSuffix(s, ")") {
		neg = true
		s = s[3 : len(s)-1]
	}
	n, ok := new(big.Int).SetString(s, 10)
	if !ok {
		return nil, false
	}
	if neg {
		n.Neg(n)
	}
	return n, true
}

func Not(t Term) Term {
	if isTrue(t) {
		return False
	}
	if isFalse(t) {
		return True
	}
	if t.Op == "not" {
		return t.Args[0]
	}
	return App("not", SBool, t)
}

func And(ts ...Term) Term {
	var out []Term
	for _, t := range ts {
		if isTrue(t) {
			continue
		}
		if isFalse(t) {
			return False
		}
		if t.Op == "and" {
			out = append(out, t.Args...)
			continue
		}
		out = append(out, t)
	}
	switch len(out) {
	case 0:
		return True
	case 1:
		return out[0]
	}
	return App("and", SBool, out...)
}

func Or(ts ...Term) Term {
	var out []Term
	for _, t := range ts {
		if isFalse(t) {
			continue
		}
		if isTrue(t) {
			return True
		}
		if t.Op == "or" {
			out = append(out, t.Args...)
			continue
		}
		out = append(out, t)
	}
	switch len(out) {
	case 0:
		return False
	case 1:
		return out[0]
	}
	return App("or", SBool, out...)
}

func Implies(a, b Term) Term {
	if isTrue(a) {
		return b
	}
	if isFalse(a) || isTrue(b) {
		return True
	}
	if isFalse(b) {
		return Not(a)
	}
	return App("=>", SBool, a, b)
}

func Eq(a, b Term) Term {
	if a.String() == b.String() {
		return True
	}
	if a.Sort != b.Sort {
		panic(fmt.Sprintf("Eq: sort mismatch %s:%s vs %s:%s", a, a.Sort, b, b.Sort))
	}
	if x, ok := intVal(a); ok {
		if y, ok := intVal(b); ok {
			if x.Cmp(y) == 0 {
				return True
			}
			return False
		}
	}
	if a.Sort == SBool {
		if isTrue(a) {
			return b
		}
		if isTrue(b) {
			return a
		}
		if isFalse(a) {
			return Not(b)
		}
		if isFalse(b) {
			return Not(a)
		}
	}
	return App("=", SBool, a, b)
}

func Neq(a, b Term) Term { return Not(Eq(a, b)) }

func Ite(c, a, b Term) Term {
	if isTrue(c) {
		return a
	}
	if isFalse(c) {
		return b
	}
	if a.String() == b.String() {
		return a
	}
	if a.Sort == SBool {
		if isTrue(a) && isFalse(b) {
			return c
		}
		if isFalse(a) && isTrue(b) {
			return Not(c)
		}
	}
	return App("ite", a.Sort, c, a, b)
}

func arith(op string, a, b Term) Term {
	x, okx := intVal(a)
	y, oky := intVal(b)
	if okx && oky {
		r := new(big.Int)
		switch op {
		case "+":
			return BigLit(r.Add(x, y))
		case "-":
			return BigLit(r.Sub(x, y))
		case "*":
			return BigLit(r.Mul(x, y))
		}
	}
	if oky && y.Sign() == 0 && (op == "+" || op == "-") {
		return a
	}
	if okx && x.Sign() == 0 && op == "+" {
		return b
	}
	if op == "*" {
		if oky && y.Cmp(big.NewInt(1)) == 0 {
			return a
		}
		if okx && x.Cmp(big.NewInt(1)) == 0 {
			return b
		}
	}
	return App(op, SInt, a, b)
}

func Add(a, b Term) Term { return arith("+", a, b) }
func Sub(a, b Term) Term { return arith("-", a, b) }
func Mul(a, b Term) Term { return arith("*", a, b) }

func cmp(op string, a, b Term) Term {
	x, okx := intVal(a)
	y, oky := intVal(b)
	if okx && oky {
		c := x.Cmp(y)
		var r bool
		switch op {
		case "<":
			r = c < 0
		case "<=":
			r = c <= 0
		case ">":
			r = c > 0
		case ">=":
			r = c >= 0
		}
		if r {
			return True
		}
		return False
	}
	return App(op, SBool, a, b)
}

func Lt(a, b Term) Term { return cmp("<", a, b) }
func Le(a, b Term) Term { return cmp("<=", a, b) }
func Gt(a, b Term) Term { return cmp(">", a, b) }
func Ge(a, b Term) Term { return cmp(">=", a, b) }

// Select with read-over-write simplification. distinct reports whether two
// index terms are known to differ syntactically.
func Select(arr, idx Term, elem Sort, distinct func(a, b Term) bool) Term {
	for arr.Op == "store" {
		if arr.Args[1].String() == idx.String() {
			return arr.Args[2]
		}
		if distinct != nil && distinct(arr.Args[1], idx) {
			arr = arr.Args[0]
			continue
		}
		break
	}
	return App("select", elem, arr, idx)
}

func Store(arr, idx, val Term) Term {
	// overwrite of the same syntactic index at the top
	if arr.Op == "store" && arr.Args[1].String() == idx.String() {
		return App("store", arr.Sort, arr.Args[0], idx, val)
	}
	return App("store", arr.Sort, arr, idx, val)
}

func sanitize(s string) string {
	var b strings.Builder
	for _, r := range s {
		switch {
		case r >= 'a' && r <= 'z', r >= 'A' && r <= 'Z', r >= '0' && r <= '9', r == '_':
			b.WriteRune(r)
		case r == '*':
			b.WriteString("P")
		case r == '[':
			b.WriteString("L")
		case r == ']':
			b.WriteString("R")
		default:
			b.WriteByte('_')
		}
	}
	return b.String()
}

var maxInt = Atom("9223372036854775807", SInt)
