package main

// Go types -> SMT sorts, struct datatypes, type ids, zero values.

import (
	"fmt"
	"go/types"
	"math/big"
	"sort"
	"strings"
	"sync"
)

type StructInfo struct {
	Key    string // canonical type string
	Sort   Sort
	Ctor   string
	Fields []FieldInfo
	St     *types.Struct
	Deps   []string // struct keys this one embeds by value
}

type FieldInfo struct {
	Name string
	Sel  string // selector function
	Sort Sort
	Type types.Type
}

// TypeWorld is shared by all units of one run (names must be stable).
type TypeWorld struct {
	structs   map[string]*StructInfo
	structSeq []string
	typeIDs   map[string]int
	typeByID  []types.Type
	shortUsed map[string]string
	mu        sync.Mutex
	sortCache map[types.Type]Sort
}

func NewTypeWorld() *TypeWorld {
	return &TypeWorld{structs: map[string]*StructInfo{}, typeIDs: map[string]int{}, typeByID: []types.Type{nil}, shortUsed: map[string]string{}}
}

// canonType strips parameter / result names from function types (they do not
// affect type identity but are printed by types.TypeString).
func canonType(t types.Type) types.Type {
	switch x := t.(type) {
	case *types.Signature:
		strip := func(tp *types.Tuple) *types.Tuple {
			if tp == nil {
				return nil
			}
			vars := make([]*types.Var, tp.Len())
			for i := 0; i < tp.Len(); i++ {
				vars[i] = types.NewVar(0, nil, "", canonType(tp.At(i).Type()))
			}
			return types.NewTuple(vars...)
		}
		return types.NewSignatureType(nil, nil, nil, strip(x.Params()), strip(x.Results()), x.Variadic())
	case *types.Pointer:
		return types.NewPointer(canonType(x.Elem()))
	case *types.Slice:
		return types.NewSlice(canonType(x.Elem()))
	case *types.Array:
		return types.NewArray(canonType(x.Elem()), x.Len())
	case *types.Map:
		return types.NewMap(canonType(x.Key()), canonType(x.Elem()))
	case *types.Chan:
		return types.NewChan(x.Dir(), canonType(x.Elem()))
	}
	return t
}

func typeKey(t types.Type) string {
	t = canonType(t)
	if b, ok := t.(*types.Basic); ok {
		switch b.Kind() {
		case types.Uint8:
			return "uint8"
		case types.Int32:
			return "int32"
		}
	}
	s := types.TypeString(t, nil)
	if strings.Contains(s, "byte") || strings.Contains(s, "rune") {
		s = canonBasicNames(s)
	}
	return s
}

// canonBasicNames rewrites the alias spellings byte / rune inside composite type strings.
func canonBasicNames(s string) string {
	var b strings.Builder
	i := 0
	isIdent := func(c byte) bool {
		return c == '_' || c == '.' || c == '/' || c >= '0' && c <= '9' || c >= 'a' && c <= 'z' || c >= 'A' && c <= 'Z'
	}
	for i < len(s) {
		if isIdent(s[i]) {
			j := i
			for j < len(s) && isIdent(s[j]) {
				j++
			}
			w := s[i:j]
			switch w {
			case "byte":
				w = "uint8"
			case "rune":
				w = "int32"
			}
			b.WriteString(w)
			i = j
			continue
		}
		b.WriteByte(s[i])
		i++
	}
	return b.String()
}

func shortTypeName(t types.Type) string {
	s := types.TypeString(t, func(p *types.Package) string { return p.Name() })
	return sanitize(s)
}

func (w *TypeWorld) uniqueShort(t types.Type) string {
	k := typeKey(t)
	base := shortTypeName(t)
	if len(base) > 60 {
		base = base[:60]
	}
	name := base
	for i := 2; ; i++ {
		if prev, ok := w.shortUsed[name]; !ok || prev == k {
			break
		}
		name = fmt.Sprintf("%s_%d", base, i)
	}
	w.shortUsed[name] = k
	return name
}

// TypeID returns a stable small integer for a (dynamic) type.
func (w *TypeWorld) TypeID(t types.Type) int {
	w.mu.Lock()
	defer w.mu.Unlock()
	k := typeKey(t)
	if id, ok := w.typeIDs[k]; ok {
		return id
	}
	id := len(w.typeByID)
	w.typeIDs[k] = id
	w.typeByID = append(w.typeByID, t)
	return id
}

func isStruct(t types.Type) (*types.Struct, bool) {
	s, ok := t.Underlying().(*types.Struct)
	return s, ok
}

// SortOf maps a Go type to its SMT sort, registering struct datatypes.
func (w *TypeWorld) SortOf(t types.Type) Sort {
	w.mu.Lock()
	defer w.mu.Unlock()
	return w.sortOf(t)
}

func (w *TypeWorld) sortOf(t types.Type) Sort {
	switch u := t.Underlying().(type) {
	case *types.Basic:
		switch {
		case u.Info()&types.IsBoolean != 0:
			return SBool
		case u.Info()&types.IsInteger != 0:
			return SInt
		case u.Info()&types.IsString != 0:
			return SStr
		case u.Info()&types.IsFloat != 0, u.Info()&types.IsComplex != 0:
			return SF
		}
		return SV
	case *types.Struct:
		return w.structOf(t).Sort
	}
	return SV
}

func (w *TypeWorld) Struct(t types.Type) *StructInfo {
	w.mu.Lock()
	defer w.mu.Unlock()
	return w.structOf(t)
}

func (w *TypeWorld) StructByKey(k string) *StructInfo {
	w.mu.Lock()
	defer w.mu.Unlock()
	return w.structs[k]
}

func (w *TypeWorld) StructBySort(so Sort) *StructInfo {
	w.mu.Lock()
	defer w.mu.Unlock()
	for _, si := range w.structs {
		if si.Sort == so {
			return si
		}
	}
	return nil
}

func (w *TypeWorld) TypeByID(id int) types.Type {
	w.mu.Lock()
	defer w.mu.Unlock()
	if id <= 0 || id >= len(w.typeByID) {
		return nil
	}
	return w.typeByID[id]
}

func (w *TypeWorld) AllTypes() []types.Type {
	w.mu.Lock()
	defer w.mu.Unlock()
	return append([]types.Type(nil), w.typeByID...)
}

func (w *TypeWorld) structOf(t types.Type) *StructInfo {
	k := typeKey(t)
	if si, ok := w.structs[k]; ok {
		return si
	}
	st := t.Underlying().(*types.Struct)
	name := "S_" + w.uniqueShort(t)
	si := &StructInfo{Key: k, Sort: Sort(name), Ctor: "mk_" + name, St: st}
	w.structs[k] = si // register first (no recursion by value possible in Go)
	for i := 0; i < st.NumFields(); i++ {
		f := st.Field(i)
		fs := w.sortOf(f.Type())
		if _, ok := isStruct(f.Type()); ok {
			si.Deps = append(si.Deps, typeKey(f.Type()))
		}
		si.Fields = append(si.Fields, FieldInfo{Name: f.Name(), Sel: fmt.Sprintf("%s_f%d_%s", name, i, sanitize(f.Name())), Sort: fs, Type: f.Type()})
	}
	w.structSeq = append(w.structSeq, k)
	return si
}

// DeclOrder returns struct infos in dependency order, restricted to the
// transitive closure of the given keys.
func (w *TypeWorld) DeclOrder(keys map[string]bool) []*StructInfo {
	var out []*StructInfo
	done := map[string]bool{}
	var visit func(k string)
	visit = func(k string) {
		if done[k] {
			return
		}
		done[k] = true
		si := w.structs[k]
		for _, d := range si.Deps {
			visit(d)
		}
		out = append(out, si)
	}
	ks := make([]string, 0, len(keys))
	for k := range keys {
		ks = append(ks, k)
	}
	sort.Strings(ks)
	for _, k := range ks {
		visit(k)
	}
	return out
}

func (si *StructInfo) Decl() string {
	var b strings.Builder
	fmt.Fprintf(&b, "(declare-datatypes ((%s 0)) (((%s", si.Sort, si.Ctor)
	for _, f := range si.Fields {
		fmt.Fprintf(&b, " (%s %s)", f.Sel, f.Sort)
	}
	if len(si.Fields) == 0 {
		// nullary constructor
		return fmt.Sprintf("(declare-datatypes ((%s 0)) (((%s))))", si.Sort, si.Ctor)
	}
	b.WriteString("))))")
	return b.String()
}

func intRange(t types.Type) (lo, hi *big.Int, ok bool) {
	b, isb := t.Underlying().(*types.Basic)
	if !isb || b.Info()&types.IsInteger == 0 {
		return nil, nil, false
	}
	bits := 0
	unsigned := b.Info()&types.IsUnsigned != 0
	switch b.Kind() {
	case types.Int8, types.Uint8:
		bits = 8
	case types.Int16, types.Uint16:
		bits = 16
	case types.Int32, types.Uint32:
		bits = 32
	case types.Int, types.Int64, types.Uint, types.Uint64, types.Uintptr:
		bits = 64
	case types.UntypedInt, types.UntypedRune:
		return nil, nil, false
	default:
		return nil, nil, false
	}
	one := big.NewInt(1)
	if unsigned {
		hi = new(big.Int).Sub(new(big.Int).Lsh(one, uint(bits)), one)
		return big.NewInt(0), hi, true
	}
	hi = new(big.Int).Sub(new(big.Int).Lsh(one, uint(bits-1)), one)
	lo = new(big.Int).Neg(new(big.Int).Lsh(one, uint(bits-1)))
	return lo, hi, true
}

func isUnsigned(t types.Type) bool {
	b, ok := t.Underlying().(*types.Basic)
	return ok && b.Info()&types.IsUnsigned != 0
}

// wrapInt applies Go's wraparound for integer type t to x.
func wrapInt(t types.Type, x Term) Term {
	lo, hi, ok := intRange(t)
	if !ok {
		return x
	}
	if v, isLit := intVal(x); isLit {
		// constant fold
		m := new(big.Int).Add(new(big.Int).Sub(hi, lo), big.NewInt(1))
		r := new(big.Int).Sub(v, lo)
		r.Mod(r, m)
		r.Add(r, lo)
		return BigLit(r)
	}
	return App("wrapS", SInt, x, BigLit(lo), BigLit(hi))
}

func inRange(t types.Type, x Term) Term {
	lo, hi, ok := intRange(t)
	if !ok {
		return True
	}
	return And(Le(BigLit(lo), x), Le(x, BigLit(hi)))
}

func derefType(t types.Type) types.Type {
	if p, ok := t.Underlying().(*types.Pointer); ok {
		return p.Elem()
	}
	panic("derefType: not a pointer: " + t.String())
}
