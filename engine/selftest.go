package main

// Must-fail self-test (thorough tier): every confirmed seeded change of a
// property that still applies to /repo's current tree is applied to a scratch
// copy outside /repo and /verif, the property's quick check is run against the
// copy, and the change has to be reported. A miss means the machinery has lost
// detection power (a vacuity hole): the check then exits 3 with an
// ENGINE-ERROR line, never with a VIOLATION line (the code is not at fault).

import (
	"bytes"
	"encoding/json"
	"fmt"
	"io"
	"os"
	"os/exec"
	"path/filepath"
	"sort"
	"strings"
	"time"
)

type selftestResult struct {
	Seed       string   `json:"seed"`
	Applied    bool     `json:"applied"`
	Detected   bool     `json:"detected"`
	Reported   []string `json:"reported_obligations,omitempty"`
	Secs       float64  `json:"secs"`
	Note       string   `json:"note,omitempty"`
	ExitStatus int      `json:"check_exit"`
}

func copyTree(src, dst string) error {
	return filepath.Walk(src, func(p string, info os.FileInfo, err error) error {
		if err != nil {
			return err
		}
		rel, _ := filepath.Rel(src, p)
		if rel == ".git" {
			if info.IsDir() {
				return filepath.SkipDir
			}
			return nil
		}
		target := filepath.Join(dst, rel)
		if info.IsDir() {
			return os.MkdirAll(target, 0o755)
		}
		if !info.Mode().IsRegular() {
			return nil
		}
		in, err := os.Open(p)
		if err != nil {
			return err
		}
		defer in.Close()
		out, err := os.Create(target)
		if err != nil {
			return err
		}
		defer out.Close()
		_, err = io.Copy(out, in)
		return err
	})
}

func safeLoad(repo, verif string) (p *Prog, err error) {
	defer func() {
		if r := recover(); r != nil {
			err = fmt.Errorf("load panic: %v", r)
		}
	}()
	p, err = LoadProg(repo, verif)
	if err != nil {
		return nil, err
	}
	p.QueryTimeoutMs = 4000
	p.UnitTimeout = 180 * time.Second
	if err := p.LoadSpecs(verif); err != nil {
		return nil, err
	}
	p.buildGuards()
	p.registerModuleFields()
	p.loadParamAliases(verif)
	p.loadCalleeBaseline(verif)
	return p, nil
}

func runSelftest(repo, verif, prop string, known []KnownFinding, baseline map[string][]string) []selftestResult {
	dirs, _ := filepath.Glob(filepath.Join(verif, "seeded", prop+"*"))
	sort.Strings(dirs)
	var out []selftestResult
	for _, d := range dirs {
		patch := filepath.Join(d, "patch.rebased.diff")
		if _, err := os.Stat(patch); err != nil {
			patch = filepath.Join(d, "patch.diff")
		}
		if _, err := os.Stat(patch); err != nil {
			continue
		}
		r := selftestResult{Seed: filepath.Base(d)}
		if mb, err := os.ReadFile(filepath.Join(d, "meta.json")); err == nil {
			var meta struct {
				Selftest string `json:"selftest"`
				Reason   string `json:"selftest_reason"`
			}
			if json.Unmarshal(mb, &meta) == nil && meta.Selftest == "skip" {
				r.Note = "recorded as not reported: " + meta.Reason
				out = append(out, r)
				continue
			}
		}
		t0 := time.Now()
		func() {
			scratch, err := os.MkdirTemp("", "govc-selftest-")
			if err != nil {
				r.Note = err.Error()
				return
			}
			defer os.RemoveAll(scratch)
			work := filepath.Join(scratch, "repo")
			if err := copyTree(repo, work); err != nil {
				r.Note = "copy: " + err.Error()
				return
			}
			chk := exec.Command("git", "apply", "--check", patch)
			chk.Dir = work
			if err := chk.Run(); err != nil {
				r.Note = "patch does not apply to the current tree (skipped)"
				return
			}
			ap := exec.Command("git", "apply", patch)
			ap.Dir = work
			if err := ap.Run(); err != nil {
				r.Note = "apply: " + err.Error()
				return
			}
			r.Applied = true
			keep := keepProvedInstances
			keepProvedInstances = false
			defer func() { keepProvedInstances = keep }()
			p, err := safeLoad(work, verif)
			if err != nil {
				r.Note = "the changed tree does not load: " + err.Error()
				return
			}
			var buf bytes.Buffer
			cc := &checkCtx{p: p, tier: "quick", verif: verif, results: map[string]*unitResult{}, solverWins: map[string]int{}, out: &buf, outRoot: filepath.Join(scratch, "out"), noReplay: true}
			cc.raceTmo = 20 * time.Second
			code, _ := cc.checkProperty(prop, 0, known, baseline, false, false, 0)
			r.ExitStatus = code
			for _, l := range strings.Split(buf.String(), "\n") {
				if strings.HasPrefix(l, "VIOLATION ") {
					if i := strings.Index(l, "obligation="); i >= 0 {
						r.Reported = append(r.Reported, strings.TrimSuffix(strings.TrimSpace(l[i+len("obligation="):]), " no-failing-input-found"))
					}
				}
			}
			r.Detected = code == 1 && len(r.Reported) > 0
			if !r.Detected {
				tail := buf.String()
				if len(tail) > 600 {
					tail = tail[len(tail)-600:]
				}
				r.Note = "NOT detected; check output: " + tail
			}
		}()
		r.Secs = time.Since(t0).Seconds()
		out = append(out, r)
	}
	return out
}

type auditResult struct {
	OK     bool
	Output string
	Secs   float64
}

// runAudit runs the executable audit of assumed extern contracts (/verif/audit).
func runAudit(verif string) *auditResult {
	t0 := time.Now()
	cmd := exec.Command("go", "test", "-count=1", "-vet=off", "./...")
	cmd.Dir = filepath.Join(verif, "audit")
	cmd.Env = append(os.Environ(), "GOFLAGS=-mod=mod", "GOPROXY=off", "GOSUMDB=off", "GOTOOLCHAIN=local")
	out, err := cmd.CombinedOutput()
	res := &auditResult{OK: err == nil, Secs: time.Since(t0).Seconds()}
	if err != nil {
		o := string(out)
		if len(o) > 1500 {
			o = o[len(o)-1500:]
		}
		res.Output = strings.ReplaceAll(o, "\n", " | ")
	}
	return res
}
