package main

// Contract files: `//@` lines (Gobra-flavoured) in comment-only Go files
// guarded by the `verif` build tag, and the same syntax (prefix optional) in
// /verif/contracts/extern/*.spec for assumed contracts on dependencies.

import (
	"fmt"
	"os"
	"strconv"
	"strings"
	"unicode"
)

type Clause struct {
	Kind  string // requires, ensures, panic_ensures, panics_only_if, invariant, modifies, assert_call, alloc_bound, assume_call, havoc
	Tags  []string
	Expr  Expr
	Exprs []Expr // modifies list
	Loop  string // loop label for invariants
	Desig string // assert_call designator
	Text  string
	File  string
	Line  int
	Name  string // optional clause name ("ensures[C09] saturating: expr")
	Known string
	Aux   bool // invariant that describes how the loop computes (bookkeeping), not what the property needs
}

type Contract struct {
	Target  string // function designator as written
	Kind    string // func | closure | extern | method | dyn
	Params  []string
	Results []string
	Clauses []*Clause
	File    string
	Line    int
	Pkg     string // package path of the contract file (in-repo)
	Trusted bool   // extern: ensures are assumed
	Pure    bool
	Inline  bool
	NoFrame bool
}

type GhostFunc struct {
	Name   string
	Params []string // sort names
	Result string
	State  bool // ghost state: a mutable map from references to values
}

type Macro struct {
	Name   string
	Params []string
	Body   Expr
}

type TypeSpec struct {
	Tags        []string
	Name        string
	Pkg         string
	Clauses     []*Clause
	Guarded     map[string]string // field -> mutex field
	ClosesUnder map[string]string // channel field -> mutex field
	Final       []FinalSpec       // fields written only while their object is being constructed
	KeptAlive   []FinalSpec       // methods during which the receiver must stay reachable (a finalizer is set on it)
}

type FinalSpec struct {
	Fields []string
	Tags   []string
	Line   int
}

type SpecFile struct {
	Path      string
	Pkg       string
	Contracts []*Contract
	Ghosts    []*GhostFunc
	Macros    []*Macro
	Types     []*TypeSpec
	Axioms    []*Clause
	Lemmas    []*Lemma
	Stable    []string
	Groups    map[string][]string // designator -> group designators it also answers to
}

type Lemma struct {
	Name    string
	Tags    []string
	Vars    [][2]string // name, sort
	Clauses []*Clause   // requires / ensures
	File    string
	Line    int
}

// ---------- expression AST ----------

type Expr interface{ exprNode() }

type (
	EIdent struct{ Name string }
	EInt   struct{ V string }
	EStr   struct{ V string }
	EChar  struct{ V int64 }
	EBool  struct{ V bool }
	ENil   struct{}
	EUnary struct {
		Op string
		X  Expr
	}
	EBinary struct {
		Op   string
		X, Y Expr
	}
	ESel struct {
		X    Expr
		Name string
	}
	EIndex struct{ X, I Expr }
	ECall  struct {
		Fn   string
		Args []Expr
	}
	EForall struct {
		Var, Sort string
		Body      Expr
		Exists    bool
	}
	ESlice struct{ X, Lo, Hi Expr }
)

func (EIdent) exprNode()  {}
func (EInt) exprNode()    {}
func (EStr) exprNode()    {}
func (EChar) exprNode()   {}
func (EBool) exprNode()   {}
func (ENil) exprNode()    {}
func (EUnary) exprNode()  {}
func (EBinary) exprNode() {}
func (ESel) exprNode()    {}
func (EIndex) exprNode()  {}
func (ECall) exprNode()   {}
func (EForall) exprNode() {}
func (ESlice) exprNode()  {}

// ---------- lexer ----------

type tok struct {
	k string // id int str chr op eof
	s string
}

func lexExpr(s string) ([]tok, error) {
	var out []tok
	i := 0
	for i < len(s) {
		c := s[i]
		switch {
		case c == ' ' || c == '\t':
			i++
		case unicode.IsLetter(rune(c)) || c == '_' || c == '#' || c == '$':
			j := i + 1
			for j < len(s) && (unicode.IsLetter(rune(s[j])) || unicode.IsDigit(rune(s[j])) || s[j] == '_' || s[j] == '#' || s[j] == '$') {
				j++
			}
			out = append(out, tok{"id", s[i:j]})
			i = j
		case c >= '0' && c <= '9':
			j := i + 1
			for j < len(s) && (s[j] >= '0' && s[j] <= '9' || s[j] == 'x' || s[j] >= 'a' && s[j] <= 'f' || s[j] >= 'A' && s[j] <= 'F' || s[j] == '_') {
				j++
			}
			out = append(out, tok{"int", strings.ReplaceAll(s[i:j], "_", "")})
			i = j
		case c == '"':
			j := i + 1
			for j < len(s) && s[j] != '"' {
				if s[j] == '\\' {
					j++
				}
				j++
			}
			if j >= len(s) {
				return nil, fmt.Errorf("unterminated string")
			}
			v, err := strconv.Unquote(s[i : j+1])
			if err != nil {
				return nil, err
			}
			out = append(out, tok{"str", v})
			i = j + 1
		case c == '\'':
			j := i + 1
			for j < len(s) && s[j] != '\'' {
				if s[j] == '\\' {
					j++
				}
				j++
			}
			if j >= len(s) {
				return nil, fmt.Errorf("unterminated char")
			}
			v, _, _, err := strconv.UnquoteChar(s[i+1:j], '\'')
			if err != nil {
				return nil, err
			}
			out = append(out, tok{"chr", strconv.FormatInt(int64(v), 10)})
			i = j + 1
		default:
			ops := []string{"<==>", "==>", "::", "==", "!=", "<=", ">=", "&&", "||", "+", "-", "*", "/", "%", "<", ">", "!", "(", ")", "[", "]", ".", ",", ":", "&", "?"}
			matched := false
			for _, op := range ops {
				if strings.HasPrefix(s[i:], op) {
					out = append(out, tok{"op", op})
					i += len(op)
					matched = true
					break
				}
			}
			if !matched {
				return nil, fmt.Errorf("unexpected character %q in %q", c, s)
			}
		}
	}
	out = append(out, tok{"eof", ""})
	return out, nil
}

type parser struct {
	toks []tok
	p    int
}

func (p *parser) peek() tok { return p.toks[p.p] }
func (p *parser) next() tok { t := p.toks[p.p]; p.p++; return t }
func (p *parser) accept(op string) bool {
	if t := p.peek(); t.k == "op" && t.s == op {
		p.p++
		return true
	}
	return false
}
func (p *parser) expect(op string) error {
	if !p.accept(op) {
		return fmt.Errorf("expected %q, got %q", op, p.peek().s)
	}
	return nil
}

func ParseExpr(s string) (Expr, error) {
	toks, err := lexExpr(s)
	if err != nil {
		return nil, err
	}
	p := &parser{toks: toks}
	e, err := p.parseExpr(0)
	if err != nil {
		return nil, fmt.Errorf("%v in %q", err, s)
	}
	if p.peek().k != "eof" {
		return nil, fmt.Errorf("trailing tokens at %q in %q", p.peek().s, s)
	}
	return e, nil
}

var binPrec = map[string]int{
	"<==>": 1, "==>": 2, "||": 3, "&&": 4,
	"==": 5, "!=": 5, "<": 5, "<=": 5, ">": 5, ">=": 5,
	"+": 6, "-": 6, "*": 7, "/": 7, "%": 7,
}

func (p *parser) parseExpr(minPrec int) (Expr, error) {
	// quantifiers bind loosest
	if t := p.peek(); t.k == "id" && (t.s == "forall" || t.s == "exists") {
		p.next()
		v := p.next()
		so := p.next()
		if v.k != "id" || so.k != "id" {
			return nil, fmt.Errorf("bad quantifier header")
		}
		if err := p.expect("::"); err != nil {
			return nil, err
		}
		body, err := p.parseExpr(0)
		if err != nil {
			return nil, err
		}
		return EForall{Var: v.s, Sort: so.s, Body: body, Exists: t.s == "exists"}, nil
	}
	lhs, err := p.parseUnary()
	if err != nil {
		return nil, err
	}
	for {
		t := p.peek()
		if t.k != "op" {
			break
		}
		prec, ok := binPrec[t.s]
		if !ok || prec < minPrec {
			break
		}
		p.next()
		var rhs Expr
		if t.s == "==>" { // right associative
			rhs, err = p.parseExpr(prec)
		} else {
			rhs, err = p.parseExpr(prec + 1)
		}
		if err != nil {
			return nil, err
		}
		lhs = EBinary{Op: t.s, X: lhs, Y: rhs}
	}
	return lhs, nil
}

func (p *parser) parseUnary() (Expr, error) {
	t := p.peek()
	if t.k == "op" && (t.s == "!" || t.s == "-" || t.s == "*" || t.s == "&") {
		p.next()
		x, err := p.parseUnary()
		if err != nil {
			return nil, err
		}
		return EUnary{Op: t.s, X: x}, nil
	}
	return p.parsePostfix()
}

func (p *parser) parsePostfix() (Expr, error) {
	x, err := p.parsePrimary()
	if err != nil {
		return nil, err
	}
	for {
		switch {
		case p.accept("."):
			t := p.next()
			if t.k != "id" {
				return nil, fmt.Errorf("expected field name after '.'")
			}
			x = ESel{X: x, Name: t.s}
		case p.accept("["):
			var lo Expr
			if !(p.peek().k == "op" && p.peek().s == ":") {
				lo, err = p.parseExpr(0)
				if err != nil {
					return nil, err
				}
			}
			if p.accept(":") {
				var hi Expr
				if !(p.peek().k == "op" && p.peek().s == "]") {
					hi, err = p.parseExpr(0)
					if err != nil {
						return nil, err
					}
				}
				if err := p.expect("]"); err != nil {
					return nil, err
				}
				x = ESlice{X: x, Lo: lo, Hi: hi}
			} else {
				if err := p.expect("]"); err != nil {
					return nil, err
				}
				x = EIndex{X: x, I: lo}
			}
		case p.peek().k == "op" && p.peek().s == "(":
			// call: only on identifiers / qualified identifiers
			name := exprName(x)
			if name == "" {
				return x, nil
			}
			p.next()
			var args []Expr
			for !(p.peek().k == "op" && p.peek().s == ")") {
				a, err := p.parseExpr(0)
				if err != nil {
					return nil, err
				}
				args = append(args, a)
				if !p.accept(",") {
					break
				}
			}
			if err := p.expect(")"); err != nil {
				return nil, err
			}
			x = ECall{Fn: name, Args: args}
		default:
			return x, nil
		}
	}
}

func exprName(x Expr) string {
	switch e := x.(type) {
	case EIdent:
		return e.Name
	case ESel:
		if b := exprName(e.X); b != "" {
			return b + "." + e.Name
		}
	}
	return ""
}

func (p *parser) parsePrimary() (Expr, error) {
	t := p.next()
	switch t.k {
	case "int":
		return EInt{V: t.s}, nil
	case "str":
		return EStr{V: t.s}, nil
	case "chr":
		v, _ := strconv.ParseInt(t.s, 10, 64)
		return EChar{V: v}, nil
	case "id":
		switch t.s {
		case "true":
			return EBool{true}, nil
		case "false":
			return EBool{false}, nil
		case "nil":
			return ENil{}, nil
		}
		return EIdent{Name: t.s}, nil
	case "op":
		if t.s == "(" {
			e, err := p.parseExpr(0)
			if err != nil {
				return nil, err
			}
			if err := p.expect(")"); err != nil {
				return nil, err
			}
			return e, nil
		}
	}
	return nil, fmt.Errorf("unexpected token %q", t.s)
}

// ---------- file parser ----------

func parseTags(s string) (kind string, tags []string, rest string) {
	// s like "ensures[C01,C02] name: expr" or "requires expr"
	i := 0
	for i < len(s) && (unicode.IsLetter(rune(s[i])) || s[i] == '_') {
		i++
	}
	kind = s[:i]
	rest = s[i:]
	if strings.HasPrefix(rest, "[") {
		j := strings.Index(rest, "]")
		if j > 0 {
			for _, t := range strings.Split(rest[1:j], ",") {
				if t = strings.TrimSpace(t); t != "" {
					tags = append(tags, t)
				}
			}
			rest = rest[j+1:]
		}
	}
	return kind, tags, strings.TrimSpace(rest)
}

func splitTopLevel(s string, sep byte) []string {
	var out []string
	depth := 0
	inStr := false
	last := 0
	for i := 0; i < len(s); i++ {
		c := s[i]
		if inStr {
			if c == '\\' {
				i++
			} else if c == '"' {
				inStr = false
			}
			continue
		}
		switch c {
		case '"':
			inStr = true
		case '(', '[':
			depth++
		case ')', ']':
			depth--
		default:
			if c == sep && depth == 0 {
				out = append(out, strings.TrimSpace(s[last:i]))
				last = i + 1
			}
		}
	}
	out = append(out, strings.TrimSpace(s[last:]))
	return out
}

// clauseName extracts an optional leading "name:" label.
func clauseName(s string) (string, string) {
	for i := 0; i < len(s); i++ {
		c := s[i]
		if unicode.IsLetter(rune(c)) || unicode.IsDigit(rune(c)) || c == '_' || c == '-' {
			continue
		}
		if c == ':' && i > 0 && !(i+1 < len(s) && s[i+1] == ':') {
			return s[:i], strings.TrimSpace(s[i+1:])
		}
		break
	}
	return "", s
}

func ParseSpecFile(path string, pkg string, requirePrefix bool) (*SpecFile, error) {
	data, err := os.ReadFile(path)
	if err != nil {
		return nil, err
	}
	sf := &SpecFile{Path: path, Pkg: pkg}
	var cur *Contract
	var curType *TypeSpec
	var curLemma *Lemma
	lines := strings.Split(string(data), "\n")
	// join continuation lines: a line starting with `//@ |` continues the previous clause
	type ln struct {
		text string
		no   int
	}
	var logical []ln
	for i, raw := range lines {
		l := strings.TrimSpace(raw)
		if requirePrefix {
			if !strings.HasPrefix(l, "//@") {
				continue
			}
			l = strings.TrimSpace(l[3:])
		} else {
			if strings.HasPrefix(l, "//@") {
				l = strings.TrimSpace(l[3:])
			} else if strings.HasPrefix(l, "//") || strings.HasPrefix(l, "#") {
				continue
			}
		}
		if l == "" {
			continue
		}
		if strings.HasPrefix(l, "|") && len(logical) > 0 {
			logical[len(logical)-1].text += " " + strings.TrimSpace(l[1:])
			continue
		}
		logical = append(logical, ln{l, i + 1})
	}
	fail := func(no int, f string, a ...interface{}) error {
		return fmt.Errorf("%s:%d: %s", path, no, fmt.Sprintf(f, a...))
	}
	for _, l := range logical {
		word := l.text
		if i := strings.IndexAny(word, " \t["); i >= 0 {
			word = word[:i]
		}
		switch word {
		case "func", "closure", "extern", "method", "dyn":
			curType, curLemma = nil, nil
			rest := strings.TrimSpace(l.text[len(word):])
			c := &Contract{Kind: word, File: path, Line: l.no, Pkg: pkg}
			if word == "extern" || word == "method" || word == "dyn" {
				c.Trusted = true
			}
			// optional (params) (results)
			if i := strings.Index(rest, " ("); i >= 0 && !strings.HasPrefix(rest, "(") || (strings.HasPrefix(rest, "(") && strings.Count(rest, "(") > 1 && strings.Index(rest[1:], " (") >= 0) {
				// find the first " (" that is after the target
				idx := strings.Index(rest, " (")
				if strings.HasPrefix(rest, "(") {
					idx = strings.Index(rest[1:], " (") + 1
				}
				target := strings.TrimSpace(rest[:idx])
				sig := strings.TrimSpace(rest[idx:])
				c.Target = target
				parts := splitParenGroups(sig)
				if len(parts) > 0 {
					c.Params = splitNames(parts[0])
				}
				if len(parts) > 1 {
					c.Results = splitNames(parts[1])
				}
			} else {
				c.Target = rest
			}
			sf.Contracts = append(sf.Contracts, c)
			cur = c
		case "type":
			cur, curLemma = nil, nil
			curType = &TypeSpec{Name: strings.TrimSpace(l.text[4:]), Pkg: pkg, Guarded: map[string]string{}}
			sf.Types = append(sf.Types, curType)
		case "ghost":
			// ghost func name(sort, sort) sort
			rest := strings.TrimSpace(l.text[5:])
			isState := false
			if strings.HasPrefix(rest, "state") {
				isState = true
				rest = strings.TrimSpace(rest[5:])
			}
			rest = strings.TrimSpace(strings.TrimPrefix(rest, "func"))
			i := strings.Index(rest, "(")
			j := strings.LastIndex(rest, ")")
			if i < 0 || j < i {
				return nil, fail(l.no, "bad ghost declaration")
			}
			g := &GhostFunc{Name: strings.TrimSpace(rest[:i]), Result: strings.TrimSpace(rest[j+1:]), State: isState}
			for _, p := range splitTopLevel(rest[i+1:j], ',') {
				if p != "" {
					g.Params = append(g.Params, p)
				}
			}
			sf.Ghosts = append(sf.Ghosts, g)
		case "define":
			rest := strings.TrimSpace(l.text[6:])
			eq := strings.Index(rest, "=")
			// find the '=' that is not part of '=='
			for eq >= 0 && eq+1 < len(rest) && rest[eq+1] == '=' {
				n := strings.Index(rest[eq+2:], "=")
				if n < 0 {
					eq = -1
					break
				}
				eq = eq + 2 + n
			}
			if eq < 0 {
				return nil, fail(l.no, "bad define")
			}
			head := strings.TrimSpace(rest[:eq])
			body, err := ParseExpr(strings.TrimSpace(rest[eq+1:]))
			if err != nil {
				return nil, fail(l.no, "%v", err)
			}
			m := &Macro{Body: body}
			if i := strings.Index(head, "("); i >= 0 {
				m.Name = strings.TrimSpace(head[:i])
				m.Params = splitNames(head[i+1 : strings.LastIndex(head, ")")])
			} else {
				m.Name = head
			}
			sf.Macros = append(sf.Macros, m)
		case "lemma":
			cur, curType = nil, nil
			_, tags, rest := parseTags(l.text)
			lm := &Lemma{Tags: tags, File: path, Line: l.no}
			if i := strings.Index(rest, "("); i >= 0 {
				lm.Name = strings.TrimSpace(rest[:i])
				for _, p := range splitTopLevel(rest[i+1:strings.LastIndex(rest, ")")], ',') {
					f := strings.Fields(p)
					if len(f) == 2 {
						lm.Vars = append(lm.Vars, [2]string{f[0], f[1]})
					}
				}
			} else {
				lm.Name = rest
			}
			sf.Lemmas = append(sf.Lemmas, lm)
			curLemma = lm
		case "axiom":
			_, tags, rest := parseTags(l.text)
			e, err := ParseExpr(rest)
			if err != nil {
				return nil, fail(l.no, "%v", err)
			}
			sf.Axioms = append(sf.Axioms, &Clause{Kind: "axiom", Tags: tags, Expr: e, Text: rest, File: path, Line: l.no})
		case "assume_stable":
			sf.Stable = append(sf.Stable, strings.Fields(l.text)[1:]...)
		case "designator_group":
			// designator_group <name> <designator>... : calls to any of the listed functions also
			// answer to <name> (same leading arguments, same results), so that a contract can
			// describe "the read" without naming which of two equivalent library calls is used
			f := strings.Fields(l.text)
			if len(f) < 3 {
				return nil, fail(l.no, "designator_group needs a name and members")
			}
			if sf.Groups == nil {
				sf.Groups = map[string][]string{}
			}
			for _, m := range f[2:] {
				sf.Groups[m] = append(sf.Groups[m], f[1])
			}
		case "trusted", "pure", "inline", "noframe":
			if cur == nil {
				return nil, fail(l.no, "%s outside a contract", word)
			}
			switch word {
			case "trusted":
				cur.Trusted = true
			case "pure":
				cur.Pure = true
			case "inline":
				cur.Inline = true
			case "noframe":
				cur.NoFrame = true
			}
		default:
			kind, tags, rest := parseTags(l.text)
			cl := &Clause{Kind: kind, Tags: tags, Text: rest, File: path, Line: l.no}
			switch kind {
			case "requires", "ensures", "panics_only_if", "alloc_bound", "invariant", "monotone", "assume", "sole_closer", "blocking_escape", "chan_cap_bound":
				name, body := clauseName(rest)
				cl.Name = name
				e, err := ParseExpr(body)
				if err != nil {
					return nil, fail(l.no, "%v", err)
				}
				cl.Expr = e
				cl.Text = body
			case "on_panic":
				// on_panic ensures[..] E
				k2, t2, r2 := parseTags(rest)
				if k2 != "ensures" {
					return nil, fail(l.no, "expected 'on_panic ensures'")
				}
				cl.Kind = "panic_ensures"
				cl.Tags = t2
				name, body := clauseName(r2)
				cl.Name = name
				e, err := ParseExpr(body)
				if err != nil {
					return nil, fail(l.no, "%v", err)
				}
				cl.Expr = e
				cl.Text = body
			case "loop":
				// loop <label> invariant[tags] E
				f := strings.Fields(rest)
				if len(f) < 3 {
					return nil, fail(l.no, "bad loop clause")
				}
				cl.Loop = f[0]
				after := strings.TrimSpace(rest[len(f[0]):])
				k2, t2, r2 := parseTags(after)
				if k2 != "invariant" {
					return nil, fail(l.no, "expected 'loop <label> invariant'")
				}
				cl.Kind = "invariant"
				cl.Tags = t2
				if strings.HasPrefix(r2, "aux ") {
					// `invariant[..] aux name: E`: needed by the cut-loop proof only; the run that
					// explores loops exactly does not check it (a rewritten loop may keep its
					// books differently without computing anything else)
					cl.Aux = true
					r2 = strings.TrimSpace(r2[4:])
				}
				name, body := clauseName(r2)
				cl.Name = name
				e, err := ParseExpr(body)
				if err != nil {
					return nil, fail(l.no, "%v", err)
				}
				cl.Expr = e
				cl.Text = body
			case "borrowed":
				// borrowed[tags] <param> [until <expr>]
				f := strings.Fields(rest)
				if len(f) == 0 {
					return nil, fail(l.no, "borrowed needs a parameter name")
				}
				cl.Desig = f[0]
				cl.Name = "borrowed_" + f[0]
				after := strings.TrimSpace(rest[len(f[0]):])
				if after != "" {
					if !strings.HasPrefix(after, "until ") {
						return nil, fail(l.no, "expected 'borrowed <param> until <expr>'")
					}
					e, err := ParseExpr(strings.TrimSpace(after[6:]))
					if err != nil {
						return nil, fail(l.no, "%v", err)
					}
					cl.Expr = e
				}
			case "modifies", "locks_only":
				if rest != "nothing" {
					for _, part := range splitTopLevel(rest, ',') {
						e, err := ParseExpr(part)
						if err != nil {
							return nil, fail(l.no, "%v", err)
						}
						cl.Exprs = append(cl.Exprs, e)
					}
				}
			case "assert_call", "assume_call":
				i := strings.Index(rest, " : ")
				if i < 0 {
					return nil, fail(l.no, "assert_call needs '<designator> : <expr>'")
				}
				cl.Desig = strings.TrimSpace(rest[:i])
				name, body := clauseName(strings.TrimSpace(rest[i+3:]))
				cl.Name = name
				e, err := ParseExpr(body)
				if err != nil {
					return nil, fail(l.no, "%v", err)
				}
				cl.Expr = e
				cl.Text = cl.Desig + " : " + body
			case "guarded_by":
				// guarded_by mu : f1, f2
				i := strings.Index(rest, ":")
				if curType == nil || i < 0 {
					return nil, fail(l.no, "bad guarded_by")
				}
				mu := strings.TrimSpace(rest[:i])
				for _, f := range splitNames(rest[i+1:]) {
					curType.Guarded[f] = mu
				}
				continue
			case "closes_under":
				// closes_under mu : ch1, ch2  -- channels in these fields are closed only with mu held
				i := strings.Index(rest, ":")
				if curType == nil || i < 0 {
					return nil, fail(l.no, "bad closes_under")
				}
				mu := strings.TrimSpace(rest[:i])
				if curType.ClosesUnder == nil {
					curType.ClosesUnder = map[string]string{}
				}
				for _, f := range splitNames(rest[i+1:]) {
					curType.ClosesUnder[f] = mu
				}
				continue
			case "final":
				// final[tags] f1, f2 -- fields assigned only by the function that allocates the object
				if curType == nil {
					return nil, fail(l.no, "final outside a type block")
				}
				curType.Final = append(curType.Final, FinalSpec{Fields: splitNames(rest), Tags: cl.Tags, Line: l.no})
				continue
			case "kept_alive_during":
				// kept_alive_during[tags] M1, M2 -- a finalizer set on values of this type ends the call,
				// so the receiver has to stay reachable while these methods run
				if curType == nil {
					return nil, fail(l.no, "kept_alive_during outside a type block")
				}
				curType.KeptAlive = append(curType.KeptAlive, FinalSpec{Fields: splitNames(rest), Tags: cl.Tags, Line: l.no})
				continue
			case "known":
				// known <finding id> attaches to previous clause
				if cur != nil && len(cur.Clauses) > 0 {
					cur.Clauses[len(cur.Clauses)-1].Known = rest
				}
				continue
			default:
				return nil, fail(l.no, "unknown clause %q", kind)
			}
			switch {
			case curLemma != nil:
				curLemma.Clauses = append(curLemma.Clauses, cl)
			case curType != nil:
				curType.Clauses = append(curType.Clauses, cl)
			case cur != nil:
				cur.Clauses = append(cur.Clauses, cl)
			default:
				return nil, fail(l.no, "clause outside a contract")
			}
		}
	}
	return sf, nil
}

func splitParenGroups(s string) []string {
	var out []string
	depth := 0
	start := -1
	for i := 0; i < len(s); i++ {
		switch s[i] {
		case '(':
			if depth == 0 {
				start = i + 1
			}
			depth++
		case ')':
			depth--
			if depth == 0 && start >= 0 {
				out = append(out, s[start:i])
				start = -1
			}
		}
	}
	return out
}

func splitNames(s string) []string {
	var out []string
	for _, p := range strings.Split(s, ",") {
		p = strings.TrimSpace(p)
		if p == "" {
			continue
		}
		// allow "name type" pairs; keep the name only
		if f := strings.Fields(p); len(f) > 0 {
			out = append(out, f[0])
		}
	}
	return out
}
