package main

// Forward symbolic execution of go/ssa (naive form), one state per path, in
// continuation-passing style so that inlined closures and deferred calls can
// fork paths.

import (
	"fmt"
	"go/constant"
	"go/token"
	"go/types"
	"sort"
	"strings"

	"golang.org/x/tools/go/ssa"
)

type Kont func(st *State, fr *Frame)

func (u *Unit) newFrame(fn *ssa.Function, parent *Frame) *Frame {
	u.frameSeq++
	fr := &Frame{Fn: fn, Vals: map[ssa.Value]Val{}, Cells: map[*ssa.Alloc]Term{}, Parent: parent, LoopSeen: map[*ssa.BasicBlock]bool{}, IterOf: map[ssa.Value]*IterState{}, ID: u.frameSeq}
	if parent != nil {
		fr.Depth = parent.Depth + 1
	}
	return fr
}

// ---------------- values ----------------

func (u *Unit) constVal(st *State, c *ssa.Const) Term {
	t := c.Type()
	so := u.P.TW.SortOf(t)
	if c.Value == nil {
		return u.Zero(t)
	}
	switch so {
	case SInt:
		iv := constant.ToInt(c.Value)
		if iv.Kind() != constant.Int {
			return u.Fresh("constint", SInt)
		}
		s := iv.ExactString()
		if strings.HasPrefix(s, "-") {
			return Atom("(- "+s[1:]+")", SInt)
		}
		return Atom(s, SInt)
	case SBool:
		if constant.BoolVal(c.Value) {
			return True
		}
		return False
	case SStr:
		return u.StrLit(constant.StringVal(c.Value))
	case SF:
		return u.Const("flt_"+sanitize(c.Value.ExactString()), SF)
	}
	return u.Fresh("const", so)
}

func (u *Unit) fnAtom(f *ssa.Function) Term {
	name := "fn!" + sanitize(f.String())
	t := u.Const(name, SV)
	u.Axiom(Neq(t, NilV))
	id := u.P.fnID(f)
	u.Axiom(Eq(App("clofn", SInt, t), IntLit(int64(id))))
	return t
}

func (u *Unit) globalAddr(g *ssa.Global) Term {
	name := "glob!" + sanitize(g.String())
	a := u.Const(name, SV)
	u.Axiom(Neq(a, NilV))
	u.Axiom(Eq(App("aobj", SV, a), a))
	u.Axiom(Eq(App("akind", SInt, a), IntLit(0)))
	u.Axiom(Le(App("aid", SInt, a), IntLit(-1)))
	return a
}

func (u *Unit) val(st *State, fr *Frame, v ssa.Value) Val {
	switch x := v.(type) {
	case *ssa.Const:
		return Val{T: u.constVal(st, x)}
	case *ssa.Global:
		return Val{T: u.globalAddr(x)}
	case *ssa.Function:
		return Val{T: u.fnAtom(x)}
	case *ssa.Builtin:
		return Val{T: u.Const("builtin!"+sanitize(x.Name()), SV)}
	}
	if r, ok := fr.Vals[v]; ok {
		return r
	}
	panic(fmt.Sprintf("no value for %s = %s in %s", v.Name(), v.String(), fr.Fn.Name()))
}

func (u *Unit) term(st *State, fr *Frame, v ssa.Value) Term {
	r := u.val(st, fr, v)
	if r.Cell != nil {
		panic("cell address used as a term: " + v.String())
	}
	if r.Tuple != nil {
		panic("tuple used as a term: " + v.String())
	}
	return r.T
}

// cell access along a field path
func (u *Unit) cellLoad(fr *Frame, c *CellAddr) (Term, types.Type) {
	cur, ok := fr.Cells[c.A]
	if !ok {
		panic("uninitialised cell " + c.A.Comment)
	}
	t := derefType(c.A.Type())
	for _, i := range c.Path {
		si := u.P.TW.Struct(t)
		cur = u.Field(cur, si, i)
		t = si.Fields[i].Type
	}
	return cur, t
}

func (u *Unit) cellStore(fr *Frame, c *CellAddr, v Term) {
	root := fr.Cells[c.A]
	fr.Cells[c.A] = u.cellUpdate(root, derefType(c.A.Type()), c.Path, v)
}

func (u *Unit) cellUpdate(cur Term, t types.Type, path []int, v Term) Term {
	if len(path) == 0 {
		return v
	}
	si := u.P.TW.Struct(t)
	inner := u.cellUpdate(u.Field(cur, si, path[0]), si.Fields[path[0]].Type, path[1:], v)
	return u.WithField(cur, si, path[0], inner)
}

// ---------------- loops ----------------

type loopInfo struct {
	header *ssa.BasicBlock
	blocks map[*ssa.BasicBlock]bool
	label  string
}

func (u *Unit) loopsOf(fn *ssa.Function) map[*ssa.BasicBlock]*loopInfo {
	u.P.mu.Lock()
	defer u.P.mu.Unlock()
	if li, ok := u.P.loopCache[fn]; ok {
		return li
	}
	res := map[*ssa.BasicBlock]*loopInfo{}
	for _, b := range fn.Blocks {
		for _, p := range b.Preds {
			if b.Dominates(p) { // back edge p -> b
				li := res[b]
				if li == nil {
					li = &loopInfo{header: b, blocks: map[*ssa.BasicBlock]bool{b: true}}
					res[b] = li
				}
				// nodes that reach p without passing b
				var stack []*ssa.BasicBlock
				if !li.blocks[p] {
					li.blocks[p] = true
					stack = append(stack, p)
				}
				for len(stack) > 0 {
					n := stack[len(stack)-1]
					stack = stack[:len(stack)-1]
					for _, q := range n.Preds {
						if !li.blocks[q] {
							li.blocks[q] = true
							stack = append(stack, q)
						}
					}
				}
			}
		}
	}
	var hs []*ssa.BasicBlock
	for h := range res {
		hs = append(hs, h)
	}
	sort.Slice(hs, func(i, j int) bool { return hs[i].Index < hs[j].Index })
	for i, h := range hs {
		res[h].label = fmt.Sprintf("loop#%d", i+1)
	}
	u.P.loopCache[fn] = res
	return res
}

// ---------------- block execution ----------------

// unrollBound-1 is the number of iterations explored exactly in loops without invariant.
const unrollBound = 3

func (u *Unit) enterBlock(st *State, fr *Frame, b, pred *ssa.BasicBlock) {
	if u.expired() || st.Dead {
		return
	}
	st.Trace = append(st.Trace, fmt.Sprintf("%s#%d", fr.Fn.Name(), b.Index))
	if len(st.ExitWeak) > 0 {
		var keep []exitWeak
		for _, ew := range st.ExitWeak {
			if ew.fn == fr.Fn && !ew.blocks[b] {
				st.weaken(ew.why)
			} else {
				keep = append(keep, ew)
			}
		}
		st.ExitWeak = keep
	}
	loops := u.loopsOf(fr.Fn)
	if li, ok := loops[b]; ok {
		if u.refute {
			if _, started := fr.Unroll[b]; !started {
				if fr.Unroll == nil {
					fr.Unroll = map[*ssa.BasicBlock]int{}
				}
				fr.Unroll[b] = 0
			}
		}
		if n, unrolling := fr.Unroll[b]; unrolling {
			// exact bounded exploration of a loop that has no invariant (see below)
			if n >= unrollBound {
				u.pruned++
				return
			}
			fr.Unroll[b] = n + 1
			// loops nested in this one start afresh in every iteration of it
			for h := range fr.Unroll {
				if h != b && li.blocks[h] {
					delete(fr.Unroll, h)
				}
			}
			if u.refute {
				// the invariants (those that say what the loop has achieved, not how it keeps
				// its books) as assertions about the exact state at this visit
				class := "inv-step"
				if n == 0 {
					class = "inv-entry"
				}
				u.loopInvariants(st, fr, li, class)
			}
			u.exec(st, fr, b, 0, pred)
			return
		}
		if fr.LoopSeen[b] {
			// back edge: prove the invariant and stop
			u.loopInvariants(st, fr, li, "inv-step")
			u.paths++
			return
		}
		u.loopInvariants(st, fr, li, "inv-entry")
		st.Cuts = append(append([]string(nil), st.Cuts...), li.label)
		if fr.Parent != nil && u.contractFor(fr.Fn) == nil && u.uncontracted[fr.Fn.Name()] == fr.Fn {
			// A loop in a helper that has no contract, hence no invariant. Two explorations:
			// first the paths that leave the loop within unrollBound iterations, executed
			// exactly (an obligation refuted there is refuted by real behaviour); then the
			// usual cut with the trivial invariant, which covers every iteration count but
			// forgets what the loop did: failures there only say "needs a contract".
			st2, fr2 := st.Clone(), fr.cloneFor()
			if fr2.Unroll == nil {
				fr2.Unroll = map[*ssa.BasicBlock]int{}
			}
			fr2.Unroll[b] = 1
			u.abstracted(fmt.Sprintf("loop without invariant in %s (function without contract): explored exactly up to %d iterations for refutations, cut with the trivial invariant for proofs", fr.Fn.String(), unrollBound-1))
			u.exec(st2, fr2, b, 0, pred)
			st.weaken("loop " + li.label + " of " + fr.Fn.String() + ", which has no contract and hence no invariant")
		}
		u.havocLoop(st, fr, li)
		fr.LoopSeen[b] = true
		u.assumeLoopInvariants(st, fr, li)
	}
	u.exec(st, fr, b, 0, pred)
}

func (u *Unit) exec(st *State, fr *Frame, b *ssa.BasicBlock, i int, pred *ssa.BasicBlock) {
	for ; i < len(b.Instrs); i++ {
		if u.expired() {
			return
		}
		if u.deadPath {
			u.deadPath = false
			u.paths++
			return
		}
		in := b.Instrs[i]
		switch x := in.(type) {
		case *ssa.Jump:
			u.enterBlock(st, fr, b.Succs[0], b)
			return
		case *ssa.If:
			c := u.term(st, fr, x.Cond)
			if isTrue(c) {
				u.enterBlock(st, fr, b.Succs[0], b)
				return
			}
			if isFalse(c) {
				u.enterBlock(st, fr, b.Succs[1], b)
				return
			}
			tFeas := u.Feasible(st, c)
			fFeas := true
			if tFeas {
				fFeas = u.Feasible(st, Not(c))
			}
			if tFeas && fFeas {
				st2, fr2 := st.Clone(), fr.cloneFor()
				st2.Assume(c)
				u.enterBlock(st2, fr2, b.Succs[0], b)
				st.Assume(Not(c))
				u.enterBlock(st, fr, b.Succs[1], b)
			} else if tFeas {
				u.pruned++
				st.Assume(c)
				u.enterBlock(st, fr, b.Succs[0], b)
			} else if fFeas {
				u.pruned++
				st.Assume(Not(c))
				u.enterBlock(st, fr, b.Succs[1], b)
			} else {
				u.pruned++
			}
			return
		case *ssa.Return:
			res := make([]Val, len(x.Results))
			for j, r := range x.Results {
				res[j] = u.val(st, fr, r)
			}
			u.doReturn(st, fr, res, x)
			return
		case *ssa.Panic:
			v := u.term(st, fr, x.X)
			u.doPanic(st, fr, v, x)
			return
		case *ssa.RunDefers:
			bb, ii := b, i
			u.runDefers(st, fr, func(st *State, fr *Frame) { u.exec(st, fr, bb, ii+1, pred) })
			return
		case *ssa.Call:
			bb, ii := b, i
			u.execCall(st, fr, x, &x.Call, func(st *State, fr *Frame, res Val) {
				fr.Vals[x] = res
				u.exec(st, fr, bb, ii+1, pred)
			})
			return
		case *ssa.Select:
			bb, ii := b, i
			u.execSelect(st, fr, x, func(st *State, fr *Frame) { u.exec(st, fr, bb, ii+1, pred) })
			return
		default:
			if !u.step(st, fr, in, pred) {
				return
			}
			if u.deadPath {
				u.deadPath = false
				u.paths++
				return
			}
		}
	}
}

func (u *Unit) doReturn(st *State, fr *Frame, res []Val, in *ssa.Return) {
	if fr.Parent == nil && fr.Top {
		u.topReturn(st, fr, res)
		return
	}
	if fr.OnReturn != nil {
		fr.OnReturn(st, fr.Parent, res)
		return
	}
	panic("return without continuation")
}

func (u *Unit) doPanic(st *State, fr *Frame, v Term, site ssa.Instruction) {
	st.Panicked = true
	st.PanicVal = v
	u.runDefers(st, fr, func(st *State, fr *Frame) {
		if !st.Panicked {
			// a deferred function recovered: the function returns normally, with its
			// named results as they are now (the recover block) or with zero values
			if fr.Fn.Recover != nil {
				u.enterBlock(st, fr, fr.Fn.Recover, nil)
				return
			}
			var res []Val
			rs := fr.Fn.Signature.Results()
			for i := 0; i < rs.Len(); i++ {
				res = append(res, Val{T: u.Zero(rs.At(i).Type())})
			}
			u.doReturn(st, fr, res, nil)
			return
		}
		if fr.Parent == nil {
			// the panic leaves the function under verification; its panic clauses speak
			// about the state after the deferred functions have run
			u.topPanic(st, fr, v, site)
		}
		if fr.OnPanic != nil {
			fr.OnPanic(st, fr.Parent, v)
		}
	})
}

func (u *Unit) runDefers(st *State, fr *Frame, k Kont) {
	if len(fr.Defers) == 0 {
		k(st, fr)
		return
	}
	d := fr.Defers[len(fr.Defers)-1]
	fr.Defers = fr.Defers[:len(fr.Defers)-1]
	u.execCallVals(st, fr, d.In, d.Call, d.Fn, d.Args, func(st *State, fr *Frame, _ Val) {
		u.runDefers(st, fr, k)
	})
}

// step executes one non-control instruction; false means the path ended.
func (u *Unit) step(st *State, fr *Frame, in ssa.Instruction, pred *ssa.BasicBlock) bool {
	tw := u.P.TW
	if len(u.borrows) > 0 {
		u.borrowAtInstr(st, fr, in)
	}
	if fr.Parent != nil {
		if x, ok := in.(*ssa.UnOp); ok && x.Op == token.MUL {
			if g, isG := x.X.(*ssa.Global); isG && u.helperFrame(fr) {
				// what a package-level variable holds is known only through contracts; a helper
				// without contract that reads one is executed with an unknown value there
				st.weaken("the helper " + fr.Fn.String() + ", which has no contract, reads the package-level variable " + g.Name() + ", whose contents are not modelled")
			}
		}
	}
	switch x := in.(type) {
	case *ssa.DebugRef:
	case *ssa.Phi:
		done := false
		for i, p := range x.Block().Preds {
			if p == pred {
				fr.Vals[x] = u.val(st, fr, x.Edges[i])
				done = true
				break
			}
		}
		if !done {
			fr.Vals[x] = Val{T: u.FreshOfType(st, "phi", x.Type())}
		}
	case *ssa.Alloc:
		el := derefType(x.Type())
		_, isArr := el.Underlying().(*types.Array)
		if x.Heap || isArr {
			a := u.newObject(st, x.Comment)
			if arr, ok := el.Underlying().(*types.Array); ok {
				if arr.Len() <= 16 {
					for i := int64(0); i < arr.Len(); i++ {
						u.store(st, u.elemAddr(a, IntLit(i)), arr.Elem(), u.Zero(arr.Elem()))
					}
				}
				u.Axiom(Eq(App("vlen", SInt, a), IntLit(arr.Len())))
			} else {
				u.store(st, a, el, u.Zero(el))
			}
			fr.Vals[x] = Val{T: a}
		} else {
			fr.Cells[x] = u.Zero(el)
			fr.Vals[x] = Val{Cell: &CellAddr{A: x}}
		}
	case *ssa.Store:
		a := u.val(st, fr, x.Addr)
		v := u.term(st, fr, x.Val)
		if a.Cell != nil {
			u.cellStore(fr, a.Cell, v)
		} else {
			u.heapWriteChecks(st, fr, x, a.T, x.Val.Type())
			u.chanStore(st, a.T, v)
			u.store(st, a.T, x.Val.Type(), v)
		}
	case *ssa.UnOp:
		switch x.Op {
		case token.MUL:
			a := u.val(st, fr, x.X)
			if a.Cell != nil {
				t, _ := u.cellLoad(fr, a.Cell)
				fr.Vals[x] = Val{T: t}
			} else {
				fr.Vals[x] = Val{T: u.loadAt(st, fr, x, a.T, x.Type())}
			}
		case token.NOT:
			fr.Vals[x] = Val{T: Not(u.term(st, fr, x.X))}
		case token.SUB:
			if tw.SortOf(x.Type()) == SInt {
				fr.Vals[x] = Val{T: wrapInt(x.Type(), Sub(IntLit(0), u.term(st, fr, x.X)))}
			} else {
				fr.Vals[x] = Val{T: u.FreshOfType(st, "neg", x.Type())}
			}
		case token.ARROW:
			u.execRecv(st, fr, x)
		default:
			u.abstracted("unop " + x.Op.String())
			fr.Vals[x] = Val{T: u.FreshOfType(st, "unop", x.Type())}
		}
	case *ssa.BinOp:
		fr.Vals[x] = Val{T: u.binop(st, fr, x)}
	case *ssa.Convert:
		fr.Vals[x] = Val{T: u.convert(st, fr, x)}
	case *ssa.ChangeType:
		fr.Vals[x] = u.val(st, fr, x.X)
	case *ssa.ChangeInterface:
		fr.Vals[x] = u.val(st, fr, x.X)
	case *ssa.MakeInterface:
		fr.Vals[x] = Val{T: u.box(st, u.term(st, fr, x.X), x.X.Type())}
	case *ssa.TypeAssert:
		u.typeAssert(st, fr, x)
	case *ssa.Extract:
		tv := u.val(st, fr, x.Tuple)
		if tv.Tuple == nil || x.Index >= len(tv.Tuple) {
			panic("extract from non-tuple " + x.String())
		}
		fr.Vals[x] = tv.Tuple[x.Index]
	case *ssa.FieldAddr:
		b := u.val(st, fr, x.X)
		if b.Cell != nil {
			np := append(append([]int(nil), b.Cell.Path...), x.Field)
			fr.Vals[x] = Val{Cell: &CellAddr{A: b.Cell.A, Path: np}}
		} else {
			fr.Vals[x] = Val{T: u.fieldAddr(b.T, derefType(x.X.Type()), x.Field)}
		}
	case *ssa.Field:
		s := u.term(st, fr, x.X)
		si := tw.Struct(x.X.Type())
		fr.Vals[x] = Val{T: u.Field(s, si, x.Field)}
	case *ssa.IndexAddr:
		u.indexAddr(st, fr, x)
	case *ssa.Index:
		u.index(st, fr, x)
	case *ssa.Lookup:
		u.lookup(st, fr, x)
	case *ssa.Slice:
		u.slice(st, fr, x)
	case *ssa.MakeSlice:
		n := u.term(st, fr, x.Len)
		c := u.term(st, fr, x.Cap)
		ord := u.siteOrdinal(x, "makeslice")
		u.Prove(st, u.obligName("makeslice", fmt.Sprintf("nonneg#%d", ord)), "makeslice", u.tagsOr(nil), x.Pos(), "make: 0 <= len <= cap", And(Le(IntLit(0), n), Le(n, c)), nil)
		u.allocBound(st, fr, x, c)
		s := u.newSlice(st, "mk", n, c)
		// zero-initialised
		fr.Vals[x] = Val{T: s}
		u.noteZeroSlice(st, s, x.Type().Underlying().(*types.Slice).Elem())
	case *ssa.MakeMap:
		fr.Vals[x] = Val{T: u.newMap(st, x.Type().Underlying().(*types.Map))}
	case *ssa.MakeChan:
		fr.Vals[x] = Val{T: u.makeChan(st, fr, x)}
	case *ssa.MakeClosure:
		fn := x.Fn.(*ssa.Function)
		c := u.newObject(st, "clo_"+fn.Name())
		clo := &Closure{Fn: fn, Term: c}
		// A bound-method value x.M and a closure that only forwards its parameters to x.M
		// (x a captured variable that is never reassigned) are the same function: both get
		// the identity "bound M" with x as binding 0, so that wrapping a method value in a
		// forwarding literal (or the reverse) is not a change.
		bm, brecv, isBound := u.boundMethodOf(st, fr, x)
		if isBound {
			u.Axiom(Eq(App("clofn", SInt, c), IntLit(int64(-u.P.fnID(bm)))))
			u.Fun("clobind0_V", []Sort{SV}, SV)
			u.Axiom(Eq(App("clobind0_V", SV, c), brecv))
		} else {
			u.Axiom(Eq(App("clofn", SInt, c), IntLit(int64(u.P.fnID(fn)))))
		}
		for i, b := range x.Bindings {
			bv := u.val(st, fr, b)
			clo.Bindings = append(clo.Bindings, bv)
			if isBound {
				if bv.Cell == nil && bv.Tuple == nil {
					u.chanLeak(st, bv.T)
				}
				continue
			}
			if bv.Cell == nil && bv.Tuple == nil {
				u.chanLeak(st, bv.T)
				fnm := fmt.Sprintf("clobind%d_%s", i, bv.T.Sort)
				fnm = sanitize(fnm)
				u.Fun(fnm, []Sort{SV}, bv.T.Sort)
				u.Axiom(Eq(App(fnm, bv.T.Sort, c), bv.T))
			}
		}
		st.Closures[c.String()] = clo
		fr.Vals[x] = Val{T: c}
	case *ssa.MapUpdate:
		m := u.term(st, fr, x.Map)
		k := u.term(st, fr, x.Key)
		v := u.term(st, fr, x.Value)
		mt := x.Map.Type().Underlying().(*types.Map)
		ord := u.siteOrdinal(x, "nilmap")
		u.Prove(st, u.obligName("nilmap", fmt.Sprintf("#%d", ord)), "nilmap", u.tagsOr(nil), x.Pos(), "assignment to entry in nil map", Neq(m, NilV), nil)
		u.mapWriteChecks(st, fr, x, m, mt)
		u.mapUpdate(st, mt, m, k, v)
	case *ssa.Range:
		u.rangeStart(st, fr, x)
	case *ssa.Next:
		u.rangeNext(st, fr, x)
	case *ssa.Defer:
		d := Deferred{Call: &x.Call, In: x}
		d.Fn, d.Args = u.evalCallOperands(st, fr, &x.Call)
		fr.Defers = append(fr.Defers, d)
	case *ssa.Go:
		u.execGo(st, fr, x)
	case *ssa.Send:
		u.execSend(st, fr, x)
	default:
		if v, ok := in.(ssa.Value); ok {
			u.abstracted(fmt.Sprintf("%T", in))
			fr.Vals[v] = Val{T: u.FreshOfType(st, "abs", v.Type())}
		} else {
			u.abstracted(fmt.Sprintf("%T", in))
		}
	}
	return true
}

func (u *Unit) newSlice(st *State, prefix string, n, c Term) Term {
	s := u.newObject(st, prefix)
	p := u.newObject(st, prefix+"_arr")
	st.Assume(Eq(App("vlen", SInt, s), n))
	st.Assume(Eq(App("vcap", SInt, s), c))
	u.Axiom(Eq(App("sptr", SV, s), p))
	u.Axiom(Eq(App("soff", SInt, s), IntLit(0)))
	u.slices[s.String()] = sliceInfo{ptr: p, off: IntLit(0), len: n, cap: c}
	return s
}

func (u *Unit) noteZeroSlice(st *State, s Term, elem types.Type) {
	// elements of a fresh slice are zero: recorded as a derived memory so that
	// later reads at any index get the instance.
	keys := map[string]bool{}
	u.leafKeys(elem, keys)
	p := App("sptr", SV, s)
	for key := range keys {
		so, ok := st.MemSort[key]
		if !ok {
			continue
		}
		old := u.curMem(st, key)
		nm := u.Fresh("Mz_"+shorten(sanitize(key), 30), ArrSort(SV, so))
		zero := u.zeroOfSort(so)
		d := &MemDeriv{Old: old, Elem: so, Kind: "frame", Modified: func(addr Term) Term {
			root := addrRoot(addr)
			if u.isAllocAtom(root) {
				if root.String() == p.String() {
					return True
				}
				return False
			}
			return Eq(App("aobj", SV, addr), p)
		}}
		if !zero.IsZeroTerm() {
			d.NewVal = func(addr Term) (Term, bool) { return zero, true }
		}
		st.Derivs[nm.A] = d
		st.Mem[key] = nm
	}
}

func (u *Unit) zeroOfSort(so Sort) Term {
	switch so {
	case SInt:
		return IntLit(0)
	case SBool:
		return False
	case SStr:
		return u.StrLit("")
	case SV:
		return NilV
	}
	return Term{}
}

// ---------------- operators ----------------

func (u *Unit) binop(st *State, fr *Frame, x *ssa.BinOp) Term {
	a, b := u.term(st, fr, x.X), u.term(st, fr, x.Y)
	so := a.Sort
	rt := x.Type()
	switch x.Op {
	case token.EQL, token.NEQ:
		if a.Sort != b.Sort {
			u.abstracted("eq sort mismatch")
			return u.Fresh("eq", SBool)
		}
		if so == SStr {
			u.strEqFacts(st, a, b)
		}
		if x.Op == token.EQL {
			return Eq(a, b)
		}
		return Neq(a, b)
	}
	switch so {
	case SInt:
		switch x.Op {
		case token.ADD:
			return wrapInt(rt, Add(a, b))
		case token.SUB:
			return wrapInt(rt, Sub(a, b))
		case token.MUL:
			return wrapInt(rt, Mul(a, b))
		case token.QUO, token.REM:
			ord := u.siteOrdinal(x, "div0")
			u.Prove(st, u.obligName("div0", fmt.Sprintf("#%d", ord)), "div0", u.tagsOr(nil), x.Pos(), "division by zero", Neq(b, IntLit(0)), nil)
			if x.Op == token.QUO {
				return wrapInt(rt, App("godiv", SInt, a, b))
			}
			return App("gomod", SInt, a, b)
		case token.LSS:
			return Lt(a, b)
		case token.LEQ:
			return Le(a, b)
		case token.GTR:
			return Gt(a, b)
		case token.GEQ:
			return Ge(a, b)
		case token.SHL:
			if n, ok := intVal(b); ok && n.IsInt64() && n.Int64() < 63 && n.Sign() >= 0 {
				return wrapInt(rt, Mul(a, IntLit(int64(1)<<uint(n.Int64()))))
			}
		case token.SHR:
			if n, ok := intVal(b); ok && n.IsInt64() && n.Int64() < 63 && n.Sign() >= 0 {
				return App("div", SInt, a, IntLit(int64(1)<<uint(n.Int64())))
			}
		}
	case SStr:
		switch x.Op {
		case token.ADD:
			return u.strConcat(st, a, b)
		}
	case SBool:
		switch x.Op {
		case token.AND, token.LAND:
			return And(a, b)
		case token.OR, token.LOR:
			return Or(a, b)
		}
	}
	u.abstracted("binop " + x.Op.String() + " on " + string(so))
	return u.FreshOfType(st, "binop", rt)
}

func (u *Unit) strLen(s Term) Term {
	l := App("slen", SInt, s)
	u.Axiom(And(Ge(l, IntLit(0)), Le(l, maxInt)))
	return l
}

func (u *Unit) strEqFacts(st *State, a, b Term) {
	// a == "" <=> len(a) == 0 (extensionality instance for the empty string)
	la, lb := u.strLen(a), u.strLen(b)
	if a.A == "emptyStr" || b.A == "emptyStr" {
		u.Axiom(Implies(And(Eq(la, IntLit(0)), Eq(lb, IntLit(0))), Eq(a, b)))
	}
}

func (u *Unit) strConcat(st *State, a, b Term) Term {
	if a.A == "emptyStr" {
		return b
	}
	if b.A == "emptyStr" {
		return a
	}
	r := App("sconcat", SStr, a, b)
	la, lb := u.strLen(a), u.strLen(b)
	u.Axiom(Eq(App("slen", SInt, r), Add(la, lb)))
	// first byte facts: enough for prefix reasoning ("/" + method)
	u.Axiom(Implies(Gt(la, IntLit(0)), Eq(App("sat", SInt, r, IntLit(0)), App("sat", SInt, a, IntLit(0)))))
	u.Axiom(Implies(Eq(la, IntLit(0)), Eq(r, b)))
	u.Axiom(Implies(Eq(lb, IntLit(0)), Eq(r, a)))
	return r
}

func (u *Unit) convert(st *State, fr *Frame, x *ssa.Convert) Term {
	v := u.term(st, fr, x.X)
	from, to := u.P.TW.SortOf(x.X.Type()), u.P.TW.SortOf(x.Type())
	switch {
	case from == SInt && to == SInt:
		return wrapInt(x.Type(), v)
	case from == SStr && to == SV: // []byte(s)
		r := u.newObject(st, "bytes")
		u.Fun("str2bytes", []Sort{SStr}, SV)
		l := u.strLen(v)
		st.Assume(Eq(App("vlen", SInt, r), l))
		st.Assume(Ge(App("vcap", SInt, r), l))
		u.Fun("bytes_of", []Sort{SV}, SStr)
		st.Assume(Eq(App("bytes_of", SStr, r), v))
		return r
	case from == SV && to == SStr: // string(b)
		u.Fun("bytes_of", []Sort{SV}, SStr)
		r := App("bytes_of", SStr, v)
		u.Axiom(Eq(App("slen", SInt, r), App("vlen", SInt, v)))
		u.assume("string(b) is modelled as bytes_of(b): the content of b at conversion time (b not mutated afterwards in scope)")
		return r
	case from == to:
		return v
	}
	u.abstracted(fmt.Sprintf("convert %s -> %s", from, to))
	return u.FreshOfType(st, "conv", x.Type())
}

// ---------------- interfaces ----------------

func (u *Unit) boxFn(t types.Type) (string, Sort, int) {
	u.noteType(t)
	so := u.P.TW.SortOf(t)
	id := u.P.TW.TypeID(t)
	return fmt.Sprintf("box_%d", id), so, id
}

func (u *Unit) box(st *State, v Term, t types.Type) Term {
	if _, isIface := t.Underlying().(*types.Interface); isIface {
		return v
	}
	fn, so, id := u.boxFn(t)
	u.Fun(fn, []Sort{so}, SV)
	un := "un" + fn
	u.Fun(un, []Sort{SV}, so)
	r := App(fn, SV, v)
	u.Axiom(Eq(App("tag", SInt, r), IntLit(int64(id))))
	u.Axiom(Eq(App(un, so, r), v))
	u.Axiom(Neq(r, NilV))
	if _, isPtr := t.Underlying().(*types.Pointer); isPtr {
		// an interface holding a pointer refers to the pointer's object
		u.Axiom(Eq(App("aobj", SV, r), App("aobj", SV, v)))
	}
	u.rawDecl("typecomment:"+fn, fmt.Sprintf("; %s boxes %s", fn, typeKey(t)))
	return r
}

func (u *Unit) implFn(it types.Type) string {
	id := u.P.TW.TypeID(it)
	fn := fmt.Sprintf("impl_%d", id)
	u.Fun(fn, []Sort{SInt}, SBool)
	u.rawDecl("typecomment:"+fn, fmt.Sprintf("; %s: implements %s", fn, typeKey(it)))
	u.Axiom(Not(App(fn, SBool, IntLit(0))))
	return fn
}

// implFacts: impl_I(tag) for every (interface, concrete type) pair this unit has
// mentioned, in whichever order they were mentioned (per unit, so that what a unit can
// prove does not depend on which other units ran before it).
func (u *Unit) implFacts(it types.Type) {
	k := typeKey(it)
	if u.ifacesSeen == nil {
		u.ifacesSeen = map[string]types.Type{}
	}
	if _, ok := u.ifacesSeen[k]; ok {
		return
	}
	u.ifacesSeen[k] = it
	for _, ct := range u.typesSeen {
		u.implFact(it, ct)
	}
}

func (u *Unit) implFact(it, ct types.Type) {
	if _, isI := ct.Underlying().(*types.Interface); isI {
		return
	}
	iface, ok := it.Underlying().(*types.Interface)
	if !ok {
		return
	}
	f := App(u.implFn(it), SBool, IntLit(int64(u.P.TW.TypeID(ct))))
	if types.Implements(ct, iface) {
		u.Axiom(f)
	} else {
		u.Axiom(Not(f))
	}
}

func (u *Unit) noteType(t types.Type) {
	k := typeKey(t)
	if u.typesSeen == nil {
		u.typesSeen = map[string]types.Type{}
	}
	if _, ok := u.typesSeen[k]; ok {
		return
	}
	u.typesSeen[k] = t
	for _, it := range u.ifacesSeen {
		u.implFact(it, t)
	}
}

// unspecOrigin names the external function without contract whose (havocked) result v is, if any.
func (u *Unit) unspecOrigin(v ssa.Value) string {
	for i := 0; i < 4; i++ {
		switch t := v.(type) {
		case *ssa.ChangeInterface:
			v = t.X
			continue
		case *ssa.Extract:
			v = t.Tuple
			continue
		}
		break
	}
	return u.unspecResult[v]
}

func (u *Unit) typeAssert(st *State, fr *Frame, x *ssa.TypeAssert) {
	v := u.term(st, fr, x.X)
	at := x.AssertedType
	var ok, val Term
	if _, isIface := at.Underlying().(*types.Interface); isIface {
		u.implFacts(at)
		ok = And(Neq(v, NilV), App(u.implFn(at), SBool, App("tag", SInt, v)))
		val = v
	} else {
		fn, so, id := u.boxFn(at)
		u.Fun(fn, []Sort{so}, SV)
		un := "un" + fn
		u.Fun(un, []Sort{SV}, so)
		ok = Eq(App("tag", SInt, v), IntLit(int64(id)))
		val = App(un, so, v)
		st.Assume(Implies(ok, Eq(App(fn, SV, val), v)))
		u.typeInv(st, val, at)
	}
	if x.CommaOk {
		zero := u.Zero(at)
		fr.Vals[x] = Val{Tuple: []Val{{T: Ite(ok, val, zero)}, {T: ok}}}
		return
	}
	ord := u.siteOrdinal(x, "typeassert")
	// the dynamic type of what an external function without an assumed contract returns is
	// unknown: an assertion on it cannot be decided (sync.Pool.Get and the like), and that is
	// no refutation
	saved, wasDead := st.Weak, u.deadPath
	callee := u.unspecOrigin(x.X)
	if callee != "" {
		st.weaken("type assertion on the result of " + callee + ", for which no contract is assumed (add it to contracts/extern/*.spec)")
	}
	proved := u.Prove(st, u.obligName("typeassert", fmt.Sprintf("#%d", ord)), "typeassert", u.tagsOr(nil), x.Pos(), "type assertion cannot fail: "+x.String(), ok, nil)
	st.Weak = saved
	if !proved && callee != "" {
		// undecided, not refuted: the path goes on with the assertion having succeeded
		u.deadPath = wasDead
		st.Assume(ok)
	}
	fr.Vals[x] = Val{T: val}
}

// ---------------- indexing ----------------

func (u *Unit) boundsOb(st *State, in ssa.Instruction, what string, goal Term) {
	ord := u.siteOrdinal(in, "bounds")
	u.Prove(st, u.obligName("bounds", fmt.Sprintf("%s#%d", what, ord)), "bounds", u.tagsOr(nil), in.Pos(), what+" in range: "+in.String(), goal, nil)
}

func (u *Unit) indexAddr(st *State, fr *Frame, x *ssa.IndexAddr) {
	i := u.term(st, fr, x.Index)
	switch t := x.X.Type().Underlying().(type) {
	case *types.Slice:
		s := u.term(st, fr, x.X)
		u.boundsOb(st, x, "index", And(Le(IntLit(0), i), Lt(i, App("vlen", SInt, s))))
		u.instantiateAt(st, i)
		fr.Vals[x] = Val{T: u.sliceElemAddr(s, i)}
	case *types.Pointer:
		arr := t.Elem().Underlying().(*types.Array)
		p := u.term(st, fr, x.X)
		u.boundsOb(st, x, "index", And(Le(IntLit(0), i), Lt(i, IntLit(arr.Len()))))
		fr.Vals[x] = Val{T: u.elemAddr(p, i)}
	default:
		u.abstracted("IndexAddr on " + x.X.Type().String())
		fr.Vals[x] = Val{T: u.Fresh("idxaddr", SV)}
	}
}

func (u *Unit) index(st *State, fr *Frame, x *ssa.Index) {
	i := u.term(st, fr, x.Index)
	b := u.term(st, fr, x.X)
	if b.Sort == SStr {
		u.boundsOb(st, x, "strindex", And(Le(IntLit(0), i), Lt(i, u.strLen(b))))
		fr.Vals[x] = Val{T: u.strAt(b, i)}
		return
	}
	u.abstracted("Index on array value")
	fr.Vals[x] = Val{T: u.FreshOfType(st, "index", x.Type())}
}

func (u *Unit) strAt(s, i Term) Term {
	c := App("sat", SInt, s, i)
	u.Axiom(And(Le(IntLit(0), c), Le(c, IntLit(255))))
	return c
}

func (u *Unit) lookup(st *State, fr *Frame, x *ssa.Lookup) {
	b := u.term(st, fr, x.X)
	k := u.term(st, fr, x.Index)
	if b.Sort == SStr {
		u.boundsOb(st, x, "strindex", And(Le(IntLit(0), k), Lt(k, u.strLen(b))))
		fr.Vals[x] = Val{T: u.strAt(b, k)}
		return
	}
	mt := x.X.Type().Underlying().(*types.Map)
	has, val := u.mapLookup(st, mt, b, k)
	v := Ite(has, val, u.Zero(mt.Elem()))
	if x.CommaOk {
		fr.Vals[x] = Val{Tuple: []Val{{T: v}, {T: has}}}
	} else {
		fr.Vals[x] = Val{T: v}
	}
}

func (u *Unit) slice(st *State, fr *Frame, x *ssa.Slice) {
	b := u.term(st, fr, x.X)
	var lo, hi Term
	if x.Low != nil {
		lo = u.term(st, fr, x.Low)
	} else {
		lo = IntLit(0)
	}
	switch t := x.X.Type().Underlying().(type) {
	case *types.Basic: // string
		l := u.strLen(b)
		if x.High != nil {
			hi = u.term(st, fr, x.High)
		} else {
			hi = l
		}
		u.boundsOb(st, x, "strslice", And(Le(IntLit(0), lo), Le(lo, hi), Le(hi, l)))
		fr.Vals[x] = Val{T: u.subStr(b, lo, hi)}
	case *types.Slice:
		l, c := App("vlen", SInt, b), App("vcap", SInt, b)
		if x.High != nil {
			hi = u.term(st, fr, x.High)
		} else {
			hi = l
		}
		max := c
		if x.Max != nil {
			max = u.term(st, fr, x.Max)
		}
		u.boundsOb(st, x, "slice", And(Le(IntLit(0), lo), Le(lo, hi), Le(hi, max), Le(max, c)))
		r := u.Fresh("sub", SV)
		st.Assume(Eq(App("vlen", SInt, r), Sub(hi, lo)))
		st.Assume(Eq(App("vcap", SInt, r), Sub(max, lo)))
		u.Axiom(Eq(App("sptr", SV, r), u.sptrOf(b)))
		u.Axiom(Eq(App("soff", SInt, r), Add(u.soffOf(b), lo)))
		u.slices[r.String()] = sliceInfo{ptr: u.sptrOf(b), off: Add(u.soffOf(b), lo), len: Sub(hi, lo), cap: Sub(max, lo)}
		fr.Vals[x] = Val{T: r}
	case *types.Pointer:
		arr := t.Elem().Underlying().(*types.Array)
		n := IntLit(arr.Len())
		if x.High != nil {
			hi = u.term(st, fr, x.High)
		} else {
			hi = n
		}
		u.boundsOb(st, x, "slice", And(Le(IntLit(0), lo), Le(lo, hi), Le(hi, n)))
		r := u.Fresh("arrslice", SV)
		st.Assume(Eq(App("vlen", SInt, r), Sub(hi, lo)))
		st.Assume(Eq(App("vcap", SInt, r), Sub(n, lo)))
		u.Axiom(Eq(App("sptr", SV, r), b))
		u.Axiom(Eq(App("soff", SInt, r), lo))
		u.Axiom(Neq(r, NilV))
		u.slices[r.String()] = sliceInfo{ptr: b, off: lo, len: Sub(hi, lo), cap: Sub(n, lo)}
		fr.Vals[x] = Val{T: r}
	default:
		u.abstracted("Slice on " + x.X.Type().String())
		fr.Vals[x] = Val{T: u.Fresh("slice", SV)}
	}
}

func (u *Unit) subStr(s, lo, hi Term) Term {
	if l, ok := intVal(lo); ok && l.Sign() == 0 && hi.String() == App("slen", SInt, s).String() {
		return s
	}
	r := App("ssub", SStr, s, lo, hi)
	u.Axiom(Implies(And(Le(IntLit(0), lo), Le(lo, hi), Le(hi, App("slen", SInt, s))), Eq(App("slen", SInt, r), Sub(hi, lo))))
	u.Axiom(Ge(App("slen", SInt, r), IntLit(0)))
	// first byte (enough for the prefix/suffix tests in scope)
	u.Axiom(Implies(And(Le(IntLit(0), lo), Lt(lo, hi), Le(hi, App("slen", SInt, s))), Eq(App("sat", SInt, r, IntLit(0)), App("sat", SInt, s, lo))))
	return r
}

// ---------------- map ranges ----------------

func (u *Unit) rangeStart(st *State, fr *Frame, x *ssa.Range) {
	b := u.term(st, fr, x.X)
	it := &IterState{}
	if b.Sort == SStr {
		it.IsString = true
		it.Str = b
		it.Pos = IntLit(0)
		u.abstracted("range over string")
	} else {
		mt := x.X.Type().Underlying().(*types.Map)
		ks, _ := u.mapSorts(mt)
		it.Map = b
		it.MapType = mt
		u.needSort(ArrSort(ks, SBool))
		it.Visited = Atom(fmt.Sprintf("((as const (Array %s Bool)) false)", ks), ArrSort(ks, SBool))
		it.Count = IntLit(0)
	}
	fr.IterOf[x] = it
	fr.Vals[x] = Val{T: u.Fresh("iter", SV)}
}

func (u *Unit) rangeNext(st *State, fr *Frame, x *ssa.Next) {
	it := fr.IterOf[x.Iter]
	if it == nil || it.IsString {
		ok := u.Fresh("next_ok", SBool)
		tup := x.Type().(*types.Tuple)
		fr.Vals[x] = Val{Tuple: []Val{{T: ok}, {T: u.FreshOfType(st, "next_k", tup.At(1).Type())}, {T: u.FreshOfType(st, "next_v", tup.At(2).Type())}}}
		return
	}
	mt := it.MapType
	ks, es := u.mapSorts(mt)
	ok := u.Fresh("next_ok", SBool)
	k := u.Fresh("next_k", ks)
	u.typeInv(st, k, mt.Key())
	has, val := u.mapLookup(st, mt, it.Map, k)
	visited := Select(it.Visited, k, SBool, nil)
	// ok: an unvisited present key
	st.Assume(Implies(ok, And(has, Not(visited))))
	// !ok: every present key has been visited; instantiated at the skolem keys of this unit
	hasArr := u.mapHasOf(st, mt, it.Map)
	for _, sk := range u.skol {
		if sk.Sort == ks {
			st.Assume(Implies(Not(ok), Implies(Select(hasArr, sk, SBool, nil), Select(it.Visited, sk, SBool, nil))))
		}
	}
	st.Assume(Implies(Not(ok), Eq(it.Count, u.mapLenOf(st, mt, it.Map))))
	st.Assume(Le(it.Count, u.mapLenOf(st, mt, it.Map)))
	// assumed universal facts (requires) at the new key
	for _, un := range st.Universals {
		if un.sort == ks {
			if f, good := un.inst(k); good {
				st.Assume(f)
			}
		}
	}
	nit := *it
	nit.Visited = Ite(ok, Store(it.Visited, k, True), it.Visited)
	nit.Count = Ite(ok, Add(it.Count, IntLit(1)), it.Count)
	nit.LastKey = k
	fr.IterOf[x.Iter] = &nit
	v := Ite(ok, val, u.Zero(mt.Elem()))
	_ = es
	tup := x.Type().(*types.Tuple)
	kv := Val{T: k}
	vv := Val{T: v}
	if tup.At(1).Type() == nil || isInvalid(tup.At(1).Type()) {
		kv = Val{T: NilV}
	}
	if tup.At(2).Type() == nil || isInvalid(tup.At(2).Type()) {
		vv = Val{T: NilV}
	}
	fr.Vals[x] = Val{Tuple: []Val{{T: ok}, kv, vv}}
}

func isInvalid(t types.Type) bool {
	b, ok := t.(*types.Basic)
	return ok && b.Kind() == types.Invalid
}


// forwardedMethod: fn's body is `return recv.M(params...)` where recv is either fn's only
// binding used as receiver (a bound-method wrapper made by go/ssa) or the value of a
// captured variable (a hand-written forwarding literal). fv is the index of the free
// variable holding the receiver; viaCell says the free variable is the variable's address.
func forwardedMethod(fn *ssa.Function) (m *ssa.Function, fv int, viaCell bool, ok bool) {
	if len(fn.Blocks) != 1 || fn.Recover != nil {
		return nil, 0, false, false
	}
	// go/ssa's naive form spills parameters and results to locals: follow values through them
	cells := map[*ssa.Alloc]ssa.Value{}
	vals := map[ssa.Value]ssa.Value{}
	res := func(v ssa.Value) ssa.Value {
		if r, ok := vals[v]; ok {
			return r
		}
		return v
	}
	fvIndex := func(f *ssa.FreeVar) int {
		for k, x := range fn.FreeVars {
			if x == f {
				return k
			}
		}
		return -1
	}
	var call *ssa.Call
	var recvLoad ssa.Value
	fv = -1
	for _, in := range fn.Blocks[0].Instrs {
		switch x := in.(type) {
		case *ssa.DebugRef, *ssa.RunDefers:
		case *ssa.Alloc:
			if x.Heap {
				return nil, 0, false, false
			}
			cells[x] = nil
		case *ssa.Store:
			a, isLocal := x.Addr.(*ssa.Alloc)
			if !isLocal {
				return nil, 0, false, false
			}
			if _, known := cells[a]; !known {
				return nil, 0, false, false
			}
			cells[a] = res(x.Val)
		case *ssa.UnOp:
			if x.Op != token.MUL {
				return nil, 0, false, false
			}
			switch src := x.X.(type) {
			case *ssa.Alloc:
				v, known := cells[src]
				if !known || v == nil {
					return nil, 0, false, false
				}
				vals[x] = v
			case *ssa.FreeVar:
				if call != nil || recvLoad != nil {
					return nil, 0, false, false
				}
				recvLoad, fv, viaCell = x, fvIndex(src), true
			default:
				return nil, 0, false, false
			}
		case *ssa.Call:
			if b, isB := x.Call.Value.(*ssa.Builtin); isB && strings.HasPrefix(b.Name(), "ssa:") {
				vals[x] = x
				continue
			}
			if call != nil || x.Call.IsInvoke() {
				return nil, 0, false, false
			}
			m = x.Call.StaticCallee()
			if m == nil || m.Signature.Recv() == nil || len(x.Call.Args) != 1+len(fn.Params) {
				return nil, 0, false, false
			}
			r0 := res(x.Call.Args[0])
			if recvLoad != nil {
				if r0 != recvLoad {
					return nil, 0, false, false
				}
			} else if f, isFV := r0.(*ssa.FreeVar); isFV {
				fv = fvIndex(f)
			} else {
				return nil, 0, false, false
			}
			for j, p := range fn.Params {
				if res(x.Call.Args[j+1]) != ssa.Value(p) {
					return nil, 0, false, false
				}
			}
			call = x
		case *ssa.Extract:
			if call == nil || x.Tuple != ssa.Value(call) {
				return nil, 0, false, false
			}
		case *ssa.Return:
			if call == nil || fv < 0 {
				return nil, 0, false, false
			}
			n := m.Signature.Results().Len()
			if len(x.Results) != n {
				return nil, 0, false, false
			}
			for k, r := range x.Results {
				r = res(r)
				if n == 1 {
					if r != ssa.Value(call) {
						return nil, 0, false, false
					}
					continue
				}
				e, isE := r.(*ssa.Extract)
				if !isE || e.Tuple != ssa.Value(call) || e.Index != k {
					return nil, 0, false, false
				}
			}
			return m, fv, viaCell, true
		default:
			return nil, 0, false, false
		}
	}
	return nil, 0, false, false
}

// boundMethodOf: the closure made by x is (equivalent to) the method value recv.M.
func (u *Unit) boundMethodOf(st *State, fr *Frame, x *ssa.MakeClosure) (*ssa.Function, Term, bool) {
	fn := x.Fn.(*ssa.Function)
	m, fv, viaCell, ok := forwardedMethod(fn)
	if !ok || fv >= len(x.Bindings) {
		return nil, Term{}, false
	}
	if !viaCell {
		bv := u.val(st, fr, x.Bindings[fv])
		if bv.Cell != nil || bv.Tuple != nil {
			return nil, Term{}, false
		}
		return m, bv.T, true
	}
	// the captured variable must keep its value for as long as the closure lives: it is
	// stored to once (its initialisation) in the enclosing function and never by a closure
	a, isAlloc := x.Bindings[fv].(*ssa.Alloc)
	if !isAlloc || a.Referrers() == nil {
		return nil, Term{}, false
	}
	stores := 0
	for _, r := range *a.Referrers() {
		switch r := r.(type) {
		case *ssa.Store:
			if r.Addr == ssa.Value(a) {
				stores++
			} else {
				return nil, Term{}, false // the address itself is stored somewhere
			}
		case *ssa.MakeClosure:
			cf := r.Fn.(*ssa.Function)
			for k, b := range r.Bindings {
				if b == ssa.Value(a) && k < len(cf.FreeVars) && freeVarWritten(cf, cf.FreeVars[k]) {
					return nil, Term{}, false
				}
			}
		case *ssa.UnOp, *ssa.DebugRef:
		default:
			return nil, Term{}, false
		}
	}
	if stores != 1 {
		return nil, Term{}, false
	}
	bv := u.val(st, fr, x.Bindings[fv])
	if bv.Cell != nil {
		t, _ := u.cellLoad(fr, bv.Cell)
		return m, t, true
	}
	if bv.Tuple != nil {
		return nil, Term{}, false
	}
	return m, u.load(st, bv.T, derefType(a.Type())), true
}

// helperFrame: the frame executes a function of the module that has no contract
// and is not a function literal of the unit's own function.
func (u *Unit) helperFrame(fr *Frame) bool {
	if fr == nil || fr.Fn == nil {
		return false
	}
	for g := fr.Fn; g != nil; g = g.Parent() {
		if g == u.Fn {
			return false
		}
	}
	if _, has := u.P.Contracts[fr.Fn]; has {
		return false
	}
	return fr.Fn.Synthetic == ""
}
