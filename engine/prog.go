package main

// Program loading: go/packages + go/ssa (naive form) of /repo with the
// `verif` build tag, contract files, name resolution helpers.

import (
	"encoding/json"
	"fmt"
	"go/token"
	"go/types"
	"os"
	"path/filepath"
	"sort"
	"strings"
	"sync"
	"time"

	"golang.org/x/tools/go/packages"
	"golang.org/x/tools/go/ssa"
	"golang.org/x/tools/go/ssa/ssautil"
)

const modulePath = "github.com/fullstorydev/grpchan"

type Prog struct {
	Prog    *ssa.Program
	Pkgs    []*packages.Package
	Fset    *token.FileSet
	TW      *TypeWorld
	RepoDir string

	Funcs     map[string]*ssa.Function // "<pkgpath>::<contract name>"
	FuncNames map[*ssa.Function]string // contract name (without package)
	Contracts map[*ssa.Function]*Contract
	Externs   map[string]*Contract // by designator
	Ghosts    map[string]*GhostFunc
	Macros    map[string]*Macro
	TypeSpecs map[string]*TypeSpec // "<pkgpath>.<Type>"
	Axioms    []*Clause
	Lemmas    []*Lemma
	SpecFiles []*SpecFile

	fnIDs      map[*ssa.Function]int
	fnByID     []*ssa.Function
	loopCache  map[*ssa.Function]map[*ssa.BasicBlock]*loopInfo
	fieldKinds map[string]int

	QueryTimeoutMs    int
	UnitTimeout       time.Duration
	AllPkgs           map[string]*types.Package // by path
	mu                sync.Mutex
	leakCache         map[ssa.Value]bool
	immutCache        map[*ssa.Global]bool
	guardOf           map[string]guardInfo      // fa function of a guarded field -> its mutex
	guardedBy         map[string][]guardedField // fa function of a mutex field -> guarded fields
	axTriggers        map[string][]axTrigger
	privFa            map[string]int
	StableTypes       []string
	DesigGroups       map[string][]string
	muOwner           map[string]muOwnerInfo
	capImm            map[*ssa.FreeVar]bool
	stableFa          map[string]int
	closesUnder       map[string][]guardedField
	finalFa           map[string]bool     // fa function of a field declared final
	mayLockCache      map[*ssa.Function]bool
	paramAlias        map[*ssa.Function]map[string]string // contract's parameter name -> current name
	baseCallees       map[string]map[string]bool          // unit key -> calls it contained when the baseline was written
	MissingTargets    []*MissingTarget
	FinalChecks       []*FinalCheck       // one per declared final field
	ContractFilesUsed []string
	MirrorUsed        []string
}

func (p *Prog) fnID(f *ssa.Function) int {
	p.mu.Lock()
	defer p.mu.Unlock()
	if id, ok := p.fnIDs[f]; ok {
		return id
	}
	id := len(p.fnByID) + 1
	p.fnIDs[f] = id
	p.fnByID = append(p.fnByID, f)
	return id
}

func LoadProg(repo string, verifDir string) (*Prog, error) {
	// make sure the guarded contract files are present (mirror fallback)
	p := &Prog{RepoDir: repo, TW: NewTypeWorld(), Funcs: map[string]*ssa.Function{}, FuncNames: map[*ssa.Function]string{}, Contracts: map[*ssa.Function]*Contract{}, Externs: map[string]*Contract{}, Ghosts: map[string]*GhostFunc{}, Macros: map[string]*Macro{}, TypeSpecs: map[string]*TypeSpec{}, fnIDs: map[*ssa.Function]int{}, loopCache: map[*ssa.Function]map[*ssa.BasicBlock]*loopInfo{}, fieldKinds: map[string]int{}, AllPkgs: map[string]*types.Package{}}
	cfg := &packages.Config{
		Mode:       packages.LoadAllSyntax,
		Dir:        repo,
		BuildFlags: []string{"-tags=verif"},
		Env:        append(os.Environ(), "GOFLAGS=-mod=mod", "GOPROXY=off", "GOSUMDB=off", "GOTOOLCHAIN=local"),
	}
	pkgs, err := packages.Load(cfg, "./...")
	if err != nil {
		return nil, err
	}
	nerr := 0
	packages.Visit(pkgs, nil, func(pk *packages.Package) {
		for _, e := range pk.Errors {
			if strings.HasPrefix(pk.PkgPath, modulePath) {
				fmt.Fprintln(os.Stderr, "load error:", e)
				nerr++
			}
		}
		p.AllPkgs[pk.PkgPath] = pk.Types
	})
	if nerr > 0 {
		return nil, fmt.Errorf("%d package load errors", nerr)
	}
	prog, _ := ssautil.AllPackages(pkgs, ssa.NaiveForm|ssa.GlobalDebug|ssa.InstantiateGenerics)
	prog.Build()
	p.Prog = prog
	p.Pkgs = pkgs
	if len(pkgs) > 0 {
		p.Fset = pkgs[0].Fset
	}
	// index functions of the module
	for _, pk := range pkgs {
		if !strings.HasPrefix(pk.PkgPath, modulePath) {
			continue
		}
		sp := prog.Package(pk.Types)
		if sp == nil {
			continue
		}
		var fns []*ssa.Function
		for _, m := range sp.Members {
			switch m := m.(type) {
			case *ssa.Function:
				fns = append(fns, m)
			case *ssa.Type:
				for _, t := range []types.Type{m.Type(), types.NewPointer(m.Type())} {
					ms := prog.MethodSets.MethodSet(t)
					for i := 0; i < ms.Len(); i++ {
						if f := prog.MethodValue(ms.At(i)); f != nil && f.Pkg == sp && f.Synthetic == "" {
							fns = append(fns, f)
						}
					}
				}
			}
		}
		seen := map[*ssa.Function]bool{}
		var add func(f *ssa.Function, name string)
		add = func(f *ssa.Function, name string) {
			if seen[f] {
				return
			}
			seen[f] = true
			p.Funcs[pk.PkgPath+"::"+name] = f
			p.FuncNames[f] = name
			labels := closureLabels(f)
			for _, af := range f.AnonFuncs {
				for _, l := range labels[af] {
					p.Funcs[pk.PkgPath+"::"+name+"."+l] = af
				}
				primary := af.Name()
				if ls := labels[af]; len(ls) > 0 {
					primary = name + "." + ls[0]
				}
				add(af, primary)
			}
		}
		for _, f := range fns {
			add(f, f.RelString(pk.Types))
		}
	}
	return p, nil
}

// closureLabels names anonymous functions by how their closure value is used
// in the parent, so that contracts do not depend on ssa's `$n` numbering.
func closureLabels(parent *ssa.Function) map[*ssa.Function][]string {
	out := map[*ssa.Function][]string{}
	counts := map[string]int{}
	for _, b := range parent.Blocks {
		for _, in := range b.Instrs {
			mc, ok := in.(*ssa.MakeClosure)
			var fn *ssa.Function
			var refs []ssa.Instruction
			if ok {
				fn = mc.Fn.(*ssa.Function)
				if mc.Referrers() != nil {
					refs = *mc.Referrers()
				}
			} else {
				continue
			}
			var labelOf func(v ssa.Value, r ssa.Instruction, depth int) string
			labelOf = func(v ssa.Value, r ssa.Instruction, depth int) string {
				switch r := r.(type) {
				case *ssa.Return:
					return "return"
				case *ssa.Store:
					if r.Val == v {
						switch a := r.Addr.(type) {
						case *ssa.Alloc:
							if a.Comment == "" {
								return "return" // unnamed result slot
							}
							return a.Comment
						case *ssa.FieldAddr:
							st := derefType(a.X.Type()).Underlying().(*types.Struct)
							return "field:" + st.Field(a.Field).Name()
						}
					}
				case *ssa.Go:
					return "go"
				case *ssa.Defer:
					return "defer"
				case *ssa.Call:
					return "arg"
				case *ssa.ChangeType:
					if depth < 3 && r.Referrers() != nil {
						for _, rr := range *r.Referrers() {
							if l := labelOf(r, rr, depth+1); l != "" {
								return l
							}
						}
					}
					return "conv"
				case *ssa.MakeInterface:
					return "iface"
				}
				return ""
			}
			// a closure kept in a local variable is also named by how that variable is used
			var extra []ssa.Instruction
			for _, r := range refs {
				if st, ok := r.(*ssa.Store); ok && st.Val == ssa.Value(mc) {
					if a, ok := st.Addr.(*ssa.Alloc); ok && a.Referrers() != nil {
						for _, ar := range *a.Referrers() {
							if ld, ok := ar.(*ssa.UnOp); ok && ld.Referrers() != nil {
								var scan func(v ssa.Value, depth int)
								scan = func(v ssa.Value, depth int) {
									if v.Referrers() == nil || depth > 2 {
										return
									}
									for _, lr := range *v.Referrers() {
										switch c := lr.(type) {
										case *ssa.Call:
											for _, arg := range c.Call.Args {
												if arg == v {
													extra = append(extra, lr)
												}
											}
										case *ssa.ChangeType:
											scan(c, depth+1)
										}
									}
								}
								scan(ld, 0)
							}
						}
					}
				}
			}
			for _, r := range append(append([]ssa.Instruction(nil), refs...), extra...) {
				lab := labelOf(mc, r, 0)
				isExtra := false
				for _, e := range extra {
					if e == r {
						isExtra = true
					}
				}
				if isExtra {
					lab = "arg"
				}
				if lab == "" {
					continue
				}
				if lab == "go" || lab == "defer" || lab == "arg" || strings.HasPrefix(lab, "field:") || lab == "conv" || lab == "iface" {
					counts[lab]++
					lab = fmt.Sprintf("%s#%d", lab, counts[lab])
				}
				out[fn] = append(out[fn], lab)
			}
		}
	}
	// functions used directly (no MakeClosure because no free variables): the same
	// labels as a closure in that position would get, so that a literal that stops (or
	// starts) capturing a variable keeps its name
	var labelDirect func(v ssa.Value, r ssa.Instruction, depth int) string
	labelDirect = func(v ssa.Value, r ssa.Instruction, depth int) string {
		switch r := r.(type) {
		case *ssa.Return:
			return "return"
		case *ssa.Store:
			if r.Val == v {
				switch a := r.Addr.(type) {
				case *ssa.Alloc:
					if a.Comment == "" {
						return "return"
					}
					return a.Comment
				case *ssa.FieldAddr:
					st := derefType(a.X.Type()).Underlying().(*types.Struct)
					return "field:" + st.Field(a.Field).Name()
				}
			}
		case *ssa.Go:
			return "go"
		case *ssa.Defer:
			return "defer"
		case *ssa.Call:
			return "arg"
		case *ssa.ChangeType:
			if depth < 3 && r.Referrers() != nil {
				for _, rr := range *r.Referrers() {
					if l := labelDirect(r, rr, depth+1); l != "" {
						return l
					}
				}
			}
			return "conv"
		case *ssa.MakeInterface:
			return "iface"
		}
		return ""
	}
	for _, af := range parent.AnonFuncs {
		if len(out[af]) > 0 {
			continue
		}
		for _, b := range parent.Blocks {
			for _, in := range b.Instrs {
				var ops [16]*ssa.Value
				for _, op := range in.Operands(ops[:0]) {
					if *op == ssa.Value(af) {
						lab := labelDirect(af, in, 0)
						if lab == "" {
							continue
						}
						if lab == "go" || lab == "defer" || lab == "arg" || strings.HasPrefix(lab, "field:") || lab == "conv" || lab == "iface" {
							counts[lab]++
							lab = fmt.Sprintf("%s#%d", lab, counts[lab])
						}
						out[af] = append(out[af], lab)
					}
				}
			}
		}
	}
	return out
}

// LoadSpecs reads in-repo contract files (with mirror fallback) and extern specs.
func (p *Prog) LoadSpecs(verifDir string) error {
	// in-repo contract files
	for _, pk := range p.Pkgs {
		if !strings.HasPrefix(pk.PkgPath, modulePath) {
			continue
		}
		rel := strings.TrimPrefix(strings.TrimPrefix(pk.PkgPath, modulePath), "/")
		inRepo := filepath.Join(p.RepoDir, rel, "zz_contracts_verif.go")
		mirror := filepath.Join(verifDir, "contracts", "repo", rel, "zz_contracts_verif.go")
		path := inRepo
		if _, err := os.Stat(inRepo); err != nil {
			if _, err2 := os.Stat(mirror); err2 != nil {
				continue
			}
			path = mirror
			p.MirrorUsed = append(p.MirrorUsed, rel)
		}
		sf, err := ParseSpecFile(path, pk.PkgPath, true)
		if err != nil {
			return err
		}
		p.ContractFilesUsed = append(p.ContractFilesUsed, path)
		if err := p.addSpecFile(sf); err != nil {
			return err
		}
	}
	// extern specs
	ext, _ := filepath.Glob(filepath.Join(verifDir, "contracts", "extern", "*.spec"))
	sort.Strings(ext)
	for _, f := range ext {
		sf, err := ParseSpecFile(f, "", false)
		if err != nil {
			return err
		}
		if err := p.addSpecFile(sf); err != nil {
			return err
		}
	}
	return nil
}

func (p *Prog) addSpecFile(sf *SpecFile) error {
	p.SpecFiles = append(p.SpecFiles, sf)
	p.StableTypes = append(p.StableTypes, sf.Stable...)
	for m, gs := range sf.Groups {
		if p.DesigGroups == nil {
			p.DesigGroups = map[string][]string{}
		}
		p.DesigGroups[m] = append(p.DesigGroups[m], gs...)
	}
	for _, g := range sf.Ghosts {
		p.Ghosts[g.Name] = g
	}
	for _, m := range sf.Macros {
		p.Macros[m.Name] = m
	}
	for _, t := range sf.Types {
		p.TypeSpecs[sf.Pkg+"."+t.Name] = t
	}
	for _, ax := range sf.Axioms {
		p.Axioms = append(p.Axioms, ax)
		if fa, ok := ax.Expr.(EForall); ok {
			if p.axTriggers == nil {
				p.axTriggers = map[string][]axTrigger{}
			}
			// forall a :: forall b :: body  -- triggers are ghost calls f(a, b) on exactly the bound variables
			vars := []string{fa.Var}
			body := fa.Body
			for {
				inner, ok := body.(EForall)
				if !ok {
					break
				}
				vars = append(vars, inner.Var)
				body = inner.Body
			}
			seen := map[string]bool{}
			var walk func(x Expr)
			walk = func(x Expr) {
				switch x := x.(type) {
				case ECall:
					if len(x.Args) == len(vars) && !seen[x.Fn] {
						match := true
						for i, a := range x.Args {
							if id, ok := a.(EIdent); !ok || id.Name != vars[i] {
								match = false
							}
						}
						if match {
							seen[x.Fn] = true
							p.axTriggers[x.Fn] = append(p.axTriggers[x.Fn], axTrigger{ax: ax, vars: vars, body: body, id: len(p.Axioms)})
						}
					}
					for _, a := range x.Args {
						walk(a)
					}
				case EBinary:
					walk(x.X)
					walk(x.Y)
				case EUnary:
					walk(x.X)
				case ESel:
					walk(x.X)
				case EIndex:
					walk(x.X)
					walk(x.I)
				}
			}
			walk(body)
		}
	}
	p.Lemmas = append(p.Lemmas, sf.Lemmas...)
	for _, c := range sf.Contracts {
		switch c.Kind {
		case "func", "closure":
			f := p.Funcs[sf.Pkg+"::"+c.Target]
			if f == nil {
				// renamed or removed since the contract was written: the properties that
				// use this contract cannot be decided; the others are unaffected
				p.MissingTargets = append(p.MissingTargets, &MissingTarget{Pkg: sf.Pkg, Target: c.Target, File: c.File, Line: c.Line, Tags: unionTags(c)})
				continue
			}
			if prev, dup := p.Contracts[f]; dup {
				// merge clauses (a function may be specified in several blocks)
				prev.Clauses = append(prev.Clauses, c.Clauses...)
				continue
			}
			p.Contracts[f] = c
		default:
			if prev, dup := p.Externs[c.Target]; dup {
				prev.Clauses = append(prev.Clauses, c.Clauses...)
				continue
			}
			p.Externs[c.Target] = c
		}
	}
	return nil
}

// pkgByName resolves a package name as seen from `from` (its imports first,
// then any loaded package with that name).
func (p *Prog) pkgByName(from *types.Package, name string) *types.Package {
	if from != nil {
		if from.Name() == name {
			return from
		}
		for _, imp := range from.Imports() {
			if imp.Name() == name {
				return imp
			}
		}
	}
	// aliases used in the repo's imports
	alias := map[string]string{
		"spb":       "google.golang.org/genproto/googleapis/rpc/status",
		"grpcproto": "google.golang.org/grpc/encoding/proto",
		"http":      "net/http",
		"url":       "net/url",
		"tls":       "crypto/tls",
	}
	if path, ok := alias[name]; ok {
		if pk, ok := p.AllPkgs[path]; ok {
			return pk
		}
	}
	var found *types.Package
	var paths []string
	for path := range p.AllPkgs {
		paths = append(paths, path)
	}
	sort.Strings(paths)
	for _, path := range paths {
		pk := p.AllPkgs[path]
		if pk != nil && pk.Name() == name {
			if strings.HasPrefix(path, modulePath) {
				return pk
			}
			if found == nil || len(path) < len(found.Path()) {
				found = pk
			}
		}
	}
	return found
}

// typeByName parses "pkg.Name", "*pkg.Name", "Name", "[]T".
func (p *Prog) typeByName(from *types.Package, fn *ssa.Function, s string) types.Type {
	s = strings.TrimSpace(s)
	if strings.HasPrefix(s, "*") {
		t := p.typeByName(from, fn, s[1:])
		if t == nil {
			return nil
		}
		return types.NewPointer(t)
	}
	if strings.HasPrefix(s, "[]") {
		t := p.typeByName(from, fn, s[2:])
		if t == nil {
			return nil
		}
		return types.NewSlice(t)
	}
	if obj := types.Universe.Lookup(s); obj != nil {
		if tn, ok := obj.(*types.TypeName); ok {
			return tn.Type()
		}
	}
	if i := strings.LastIndex(s, "."); i >= 0 {
		pk := p.pkgByName(from, s[:i])
		if pk == nil {
			if pk2, ok := p.AllPkgs[s[:i]]; ok {
				pk = pk2
			}
		}
		if pk == nil {
			return nil
		}
		if tn, ok := pk.Scope().Lookup(s[i+1:]).(*types.TypeName); ok {
			return tn.Type()
		}
		return nil
	}
	if from != nil {
		if tn, ok := from.Scope().Lookup(s).(*types.TypeName); ok {
			return tn.Type()
		}
	}
	// any other type expression over universe / package-level names
	if from != nil && p.Fset != nil {
		if tv, err := types.Eval(p.Fset, from, token.NoPos, "("+s+")(nil)"); err == nil && tv.Type != nil {
			return tv.Type
		}
	}
	return nil
}

func (p *Prog) funcByName(from *types.Package, name string) *ssa.Function {
	if from != nil {
		if f, ok := p.Funcs[from.Path()+"::"+name]; ok {
			return f
		}
	}
	// pkgname.Func
	if i := strings.Index(name, "::"); i >= 0 {
		return p.Funcs[name]
	}
	for k, f := range p.Funcs {
		if strings.HasSuffix(k, "::"+name) {
			return f
		}
	}
	return nil
}

func shortPkg(path string) string {
	if i := strings.LastIndex(path, "/"); i >= 0 {
		return path[i+1:]
	}
	return path
}

// buildGuards indexes guarded_by declarations of type specs.
func (p *Prog) buildGuards() {
	p.guardOf = map[string]guardInfo{}
	p.guardedBy = map[string][]guardedField{}
	p.muOwner = map[string]muOwnerInfo{}
	p.closesUnder = map[string][]guardedField{}
	u := &Unit{P: p}
	for key, ts := range p.TypeSpecs {
		i := strings.LastIndex(key, ".")
		pk := p.AllPkgs[key[:i]]
		if pk == nil {
			continue
		}
		tn, ok := pk.Scope().Lookup(key[i+1:]).(*types.TypeName)
		if !ok {
			continue
		}
		st, ok := tn.Type().Underlying().(*types.Struct)
		if !ok {
			continue
		}
		idx := map[string]int{}
		for j := 0; j < st.NumFields(); j++ {
			idx[st.Field(j).Name()] = j
		}
		var tags []string
		for _, cl := range ts.Clauses {
			tags = mergeTags(tags, cl.Tags)
		}
		for f, mu := range ts.ClosesUnder {
			fi, ok1 := idx[f]
			mi, ok2 := idx[mu]
			if !ok1 || !ok2 {
				fmt.Fprintf(os.Stderr, "closes_under: unknown field %s or %s in %s\n", f, mu, key)
				continue
			}
			mfn := u.fieldFn(tn.Type(), mi)
			p.closesUnder[mfn] = append(p.closesUnder[mfn], guardedField{faFn: u.fieldFn(tn.Type(), fi), typ: st.Field(fi).Type(), name: f})
			if nt, ok := tn.Type().(*types.Named); ok {
				p.muOwner[mfn] = muOwnerInfo{key: key, typ: nt, pkg: pk}
			}
		}
		for _, fs := range ts.Final {
			for _, f := range fs.Fields {
				fi, ok := idx[f]
				if !ok || st.Field(fi).Exported() {
					fmt.Fprintf(os.Stderr, "final: %s is not an unexported field of %s\n", f, key)
					continue
				}
				if p.finalFa == nil {
					p.finalFa = map[string]bool{}
				}
				p.finalFa[u.fieldFn(tn.Type(), fi)] = true
				fc := &FinalCheck{Type: key, Field: f, Tags: fs.Tags, Line: fs.Line, Pos: p.Fset.Position(st.Field(fi).Pos()).String()}
				fc.Sites = p.finalFieldWrites(tn.Type(), fi)
				p.FinalChecks = append(p.FinalChecks, fc)
			}
		}
		for _, ks := range ts.KeptAlive {
			for _, m := range ks.Fields {
				fc := &FinalCheck{Kind: "kept_alive_during", Type: key, Field: m, Tags: ks.Tags, Line: ks.Line, Pos: p.Fset.Position(tn.Pos()).String()}
				fc.Sites = p.keptAliveDuring(tn, m)
				p.FinalChecks = append(p.FinalChecks, fc)
			}
		}
		for f, mu := range ts.Guarded {
			fi, ok1 := idx[f]
			mi, ok2 := idx[mu]
			if !ok1 || !ok2 {
				fmt.Fprintf(os.Stderr, "guarded_by: unknown field %s or %s in %s\n", f, mu, key)
				continue
			}
			ffn := u.fieldFn(tn.Type(), fi)
			mfn := u.fieldFn(tn.Type(), mi)
			if nt, ok := tn.Type().(*types.Named); ok {
				p.muOwner[mfn] = muOwnerInfo{key: key, typ: nt, pkg: pk}
			}
			p.guardOf[ffn] = guardInfo{typ: tn.Name(), field: f, mu: mu, muFn: mfn, tags: ts.Tags}
			p.guardedBy[mfn] = append(p.guardedBy[mfn], guardedField{faFn: ffn, typ: st.Field(fi).Type(), name: f})
		}
	}
}

type axTrigger struct {
	ax   *Clause
	vars []string
	body Expr
	id   int
}

// FinalCheck is the module-wide obligation behind a `final` field: every store
// to the field (or to the whole struct, or any use of the field's address other
// than a load) happens on an object the storing function allocated itself.
type FinalCheck struct {
	Kind        string // "" = final field; "kept_alive_during" = receiver lifetime of a method
	Type, Field string
	Tags        []string
	Line        int
	Pos         string
	Sites       []string // offending sites (empty: holds)
}

func (p *Prog) finalFieldWrites(T types.Type, fi int) []string {
	var bad []string
	var ownAlloc func(v ssa.Value, depth int) bool
	ownAlloc = func(v ssa.Value, depth int) bool {
		if depth > 4 {
			return false
		}
		switch x := v.(type) {
		case *ssa.Alloc:
			return types.Identical(derefType(x.Type()), T)
		case *ssa.UnOp:
			// load of a local variable cell that only ever holds own allocations
			cell, ok := x.X.(*ssa.Alloc)
			if x.Op != token.MUL || !ok || cell.Referrers() == nil {
				return false
			}
			for _, r := range *cell.Referrers() {
				switch rr := r.(type) {
				case *ssa.Store:
					if rr.Addr == ssa.Value(cell) && !ownAlloc(rr.Val, depth+1) {
						return false
					}
					if rr.Val == ssa.Value(cell) {
						return false
					}
				case *ssa.MakeClosure:
					fn := rr.Fn.(*ssa.Function)
					for i, b := range rr.Bindings {
						if b == ssa.Value(cell) && freeVarWritten(fn, fn.FreeVars[i]) {
							return false
						}
					}
				case *ssa.UnOp, *ssa.DebugRef:
				default:
					return false
				}
			}
			return true
		}
		return false
	}
	seen := map[*ssa.Function]bool{}
	var visit func(f *ssa.Function)
	visit = func(f *ssa.Function) {
		if f == nil || seen[f] {
			return
		}
		seen[f] = true
		for _, b := range f.Blocks {
			for _, in := range b.Instrs {
				switch x := in.(type) {
				case *ssa.Store:
					if pt, ok := x.Addr.Type().Underlying().(*types.Pointer); ok && types.Identical(pt.Elem(), T) && !ownAlloc(x.Addr, 0) {
						bad = append(bad, p.Fset.Position(x.Pos()).String()+": whole-struct store")
					}
				case *ssa.FieldAddr:
					pt, ok := x.X.Type().Underlying().(*types.Pointer)
					if !ok || !types.Identical(pt.Elem(), T) || x.Field != fi || x.Referrers() == nil {
						continue
					}
					for _, r := range *x.Referrers() {
						switch rr := r.(type) {
						case *ssa.Store:
							if rr.Addr == ssa.Value(x) && !ownAlloc(x.X, 0) {
								bad = append(bad, p.Fset.Position(rr.Pos()).String()+": store outside the constructing function")
							}
							if rr.Val == ssa.Value(x) {
								bad = append(bad, p.Fset.Position(rr.Pos()).String()+": address of the field is stored")
							}
						case *ssa.UnOp, *ssa.DebugRef:
						default:
							bad = append(bad, p.Fset.Position(r.Pos()).String()+": address of the field escapes")
						}
					}
				}
			}
		}
		for _, af := range f.AnonFuncs {
			visit(af)
		}
	}
	for _, f := range p.Funcs {
		if f.Pkg != nil && strings.HasPrefix(f.Pkg.Pkg.Path(), modulePath) {
			visit(f)
		}
	}
	sort.Strings(bad)
	return bad
}

// paramNamesOf lists receiver and parameter names in order.
func paramNamesOf(f *ssa.Function) []string {
	var out []string
	for _, p := range f.Params {
		out = append(out, p.Name())
	}
	return out
}

// loadParamAliases compares the parameter names recorded with the baseline to the
// current ones: same position, different name = a rename the contracts need not follow.
func (p *Prog) loadParamAliases(verifDir string) {
	b, err := os.ReadFile(filepath.Join(verifDir, "baseline", "params.json"))
	if err != nil {
		return
	}
	var rec map[string][]string
	if json.Unmarshal(b, &rec) != nil {
		return
	}
	p.paramAlias = map[*ssa.Function]map[string]string{}
	for key, f := range p.Funcs {
		old, ok := rec[key]
		if !ok {
			continue
		}
		cur := paramNamesOf(f)
		if len(cur) != len(old) {
			continue
		}
		taken := map[string]bool{}
		for _, n := range cur {
			taken[n] = true
		}
		for i := range cur {
			if cur[i] != old[i] && !taken[old[i]] && old[i] != "" && old[i] != "_" {
				if p.paramAlias[f] == nil {
					p.paramAlias[f] = map[string]string{}
				}
				p.paramAlias[f][old[i]] = cur[i]
				p.paramAlias[f][old[i]+"$entry"] = cur[i] + "$entry"
			}
		}
	}
}

func (p *Prog) writeParamBaseline(verifDir string) {
	rec := map[string][]string{}
	for key, f := range p.Funcs {
		if _, ok := p.Contracts[f]; ok {
			rec[key] = paramNamesOf(f)
		}
	}
	b, _ := json.MarshalIndent(rec, "", " ")
	os.MkdirAll(filepath.Join(verifDir, "baseline"), 0o755)
	os.WriteFile(filepath.Join(verifDir, "baseline", "params.json"), append(b, '\n'), 0o644)
}

// MissingTarget is a contract block whose function no longer exists under that name.
type MissingTarget struct {
	Pkg, Target, File string
	Line              int
	Tags              []string
}

func (p *Prog) desigNamesMissingTarget(desig string) *MissingTarget {
	for _, m := range p.MissingTargets {
		if desig == m.Target || strings.HasSuffix(desig, "."+m.Target) || strings.HasSuffix(desig, ")."+strings.TrimPrefix(m.Target, "(")) {
			return m
		}
		// method targets are written "(*T).M"; designators may be "(*pkg.T).M"
		if i := strings.LastIndex(m.Target, ")."); i >= 0 && strings.HasSuffix(desig, m.Target[i:]) && strings.Contains(desig, strings.Trim(m.Target[:i], "(*")) {
			return m
		}
	}
	return nil
}

// keptAliveDuring decides `kept_alive_during M` for the named type T: the module
// sets a finalizer on *T values that ends the call they stand for, and the Go
// runtime may run a finalizer as soon as the object is unreachable - which a
// receiver is from the moment its last use in a method has been evaluated, even
// while that method is still blocked in a callee. So *T must declare M itself (a
// method promoted from an embedded field has a compiler-made wrapper whose last
// use of the receiver is the load of that field), and M must keep the receiver
// reachable until it returns: runtime.KeepAlive(receiver), directly or deferred,
// or a deferred call on (a part of) the receiver, which holds an interior
// pointer until it has run.
func (p *Prog) keptAliveDuring(tn *types.TypeName, method string) []string {
	T := tn.Type()
	var fn *ssa.Function
	if sel := p.Prog.MethodSets.MethodSet(types.NewPointer(T)).Lookup(tn.Pkg(), method); sel != nil {
		fn = p.Prog.MethodValue(sel)
	}
	if fn == nil {
		return []string{fmt.Sprintf("%s has no method %s", tn.Name(), method)}
	}
	if fn.Synthetic != "" || len(fn.Params) == 0 {
		return []string{fmt.Sprintf("(*%s).%s is promoted from an embedded field (%s): the receiver is unreachable while the operation runs, so its finalizer may fire and end the call", tn.Name(), method, fn.Synthetic)}
	}
	recv := fn.Params[0]
	fromRecv := func(v ssa.Value) bool {
		for d := 0; d < 6 && v != nil; d++ {
			if v == ssa.Value(recv) {
				return true
			}
			switch x := v.(type) {
			case *ssa.MakeInterface:
				v = x.X
			case *ssa.ChangeInterface:
				v = x.X
			case *ssa.FieldAddr:
				v = x.X
			case *ssa.UnOp:
				if x.Op != token.MUL {
					return false
				}
				// load of the local cell the receiver was spilled to
				cell, ok := x.X.(*ssa.Alloc)
				if !ok || cell.Referrers() == nil {
					return false
				}
				v = nil
				for _, r := range *cell.Referrers() {
					if st, ok := r.(*ssa.Store); ok && st.Addr == ssa.Value(cell) {
						v = st.Val
					}
				}
			default:
				return false
			}
		}
		return false
	}
	for _, b := range fn.Blocks {
		for _, in := range b.Instrs {
			var c *ssa.CallCommon
			deferred := false
			switch x := in.(type) {
			case *ssa.Defer:
				c, deferred = &x.Call, true
			case *ssa.Call:
				c = &x.Call
			}
			if c == nil {
				continue
			}
			if f := c.StaticCallee(); f != nil && f.Pkg != nil && f.Pkg.Pkg.Path() == "runtime" && f.Name() == "KeepAlive" && len(c.Args) == 1 && fromRecv(c.Args[0]) {
				return nil
			}
			if deferred {
				for _, a := range c.Args {
					if fromRecv(a) {
						return nil
					}
				}
				if c.IsInvoke() && fromRecv(c.Value) {
					return nil
				}
			}
		}
	}
	// no explicit keep-alive: the receiver is still reachable during every call the
	// method makes if that call is handed the receiver (or a pointer into it), which the
	// callee's frame then holds, or if the receiver is used again afterwards on some path
	// (the compiler's liveness, which the collector follows, is "may be used later")
	usesRecv := func(in ssa.Instruction) bool {
		var ops [16]*ssa.Value
		for _, op := range in.Operands(ops[:0]) {
			if *op != nil && fromRecvPtr(*op, recv) {
				return true
			}
		}
		return false
	}
	reach := map[*ssa.BasicBlock]map[*ssa.BasicBlock]bool{}
	var walk func(from, b *ssa.BasicBlock)
	walk = func(from, b *ssa.BasicBlock) {
		if reach[from][b] {
			return
		}
		reach[from][b] = true
		for _, sc := range b.Succs {
			walk(from, sc)
		}
	}
	for _, b := range fn.Blocks {
		reach[b] = map[*ssa.BasicBlock]bool{}
		for _, sc := range b.Succs {
			walk(b, sc)
		}
	}
	var bad []string
	for _, b := range fn.Blocks {
		for i, in := range b.Instrs {
			call, ok := in.(*ssa.Call)
			if !ok {
				continue
			}
			if _, isBuiltin := call.Call.Value.(*ssa.Builtin); isBuiltin {
				continue
			}
			held := false
			for _, a := range call.Call.Args {
				if fromRecvPtr(a, recv) {
					held = true
				}
			}
			if !call.Call.IsInvoke() && fromRecvPtr(call.Call.Value, recv) {
				held = true
			}
			if held {
				continue
			}
			later := false
			for _, in2 := range b.Instrs[i+1:] {
				if usesRecv(in2) {
					later = true
				}
			}
			for b2 := range reach[b] {
				for _, in2 := range b2.Instrs {
					if usesRecv(in2) {
						later = true
					}
				}
			}
			if !later {
				bad = append(bad, fmt.Sprintf("(*%s).%s: during the call at %s the receiver is unreachable (it is not passed on and not used afterwards, and the method neither calls runtime.KeepAlive(receiver) nor defers a call on it)", tn.Name(), method, p.Fset.Position(call.Pos())))
			}
		}
	}
	return bad
}

// fromRecvPtr: v is the receiver pointer itself or a pointer into the object it points
// to (not a value loaded out of it): holding v keeps the object alive.
func fromRecvPtr(v ssa.Value, recv *ssa.Parameter) bool {
	for d := 0; d < 6 && v != nil; d++ {
		if v == ssa.Value(recv) {
			return true
		}
		switch x := v.(type) {
		case *ssa.MakeInterface:
			v = x.X
		case *ssa.ChangeInterface:
			v = x.X
		case *ssa.FieldAddr:
			v = x.X
		case *ssa.UnOp:
			if x.Op != token.MUL {
				return false
			}
			cell, ok := x.X.(*ssa.Alloc)
			if !ok || cell.Referrers() == nil {
				return false // a value loaded out of the object
			}
			v = nil
			for _, r := range *cell.Referrers() {
				if st, ok := r.(*ssa.Store); ok && st.Addr == ssa.Value(cell) {
					v = st.Val
				}
			}
		default:
			return false
		}
	}
	return false
}
