package main

// Symbolic state of one path.

import (
	"fmt"
	"go/types"

	"golang.org/x/tools/go/ssa"
)

// Val is the engine-side value of an ssa.Value: a term, a tuple, or the
// address of (a part of) a non-escaping local (a "cell").
type Val struct {
	T     Term
	Tuple []Val
	Cell  *CellAddr
}

type CellAddr struct {
	A    *ssa.Alloc
	Fr   *Frame
	Path []int // field indices into the struct value of the cell
}

type Closure struct {
	Fn       *ssa.Function
	Bindings []Val
	Term     Term
}

type CallEvent struct {
	Desigs []string // all designators this call answers to
	Args   []Term   // receiver first for invoke-mode calls
	Res    []Term
	ResTys []types.Type
	ArgTys []types.Type
	Havoc  bool // loop-head marker: calls to these designators may have happened an unknown number of times
	HavocVals map[string]Term // one stable unknown per (designator, result index) of a havoc marker
	Seq    int
	Post   *State // state when the call returned; only kept for designators named in an at_return()
}

// MemDeriv describes how a fresh memory constant relates to an older memory.
type MemDeriv struct {
	Old      Term
	Elem     Sort
	Kind     string // "frame": equal to Old except where Modified(addr) may hold
	Modified func(addr Term) Term
	NewVal   func(addr Term) (Term, bool) // value at modified addresses, if known
}

type Deferred struct {
	Call *ssa.CallCommon
	Args []Val
	Fn   Val
	In   *ssa.Defer
}

type Frame struct {
	Fn         *ssa.Function
	Vals       map[ssa.Value]Val
	Cells      map[*ssa.Alloc]Term
	Defers     []Deferred
	Parent     *Frame
	Depth      int
	OnReturn   func(st *State, caller *Frame, res []Val)
	OnPanic    func(st *State, caller *Frame, v Term)
	paramTypes map[string]types.Type
	Top        bool
	LoopSeen   map[*ssa.BasicBlock]bool
	Unroll     map[*ssa.BasicBlock]int // loop headers being explored exactly, with the visits so far
	Entry      *State // snapshot at entry (for old())
	Params     map[string]Val
	IterOf     map[ssa.Value]*IterState
	ID         int
	// Site is the call instruction in the parent frame (inlined closures)
	Site ssa.Instruction
}

type IterState struct {
	Map      Term
	MapType  *types.Map
	Visited  Term // (Array K Bool)
	Count    Term
	LastKey  Term
	IsString bool
	Str      Term
	Pos      Term
}

type State struct {
	PC           []Term
	PCs          []string // PC[i].String(), kept alongside
	Mem          map[string]Term // leaf memory per type key
	MemSort      map[string]Sort
	MemEpoch     map[string]int
	Ghost        map[string]Term // named ghost scalars / arrays
	Calls        []CallEvent
	CallCnt      map[string]Term // designator -> count term
	Closures     map[string]*Closure
	Derivs       map[string]*MemDeriv
	Fresh        map[string]bool // address roots allocated on this path (by term string)
	Seq          int
	Panicked     bool
	PanicVal     Term // value of the panic in flight (Panicked)
	PanicFromCallee bool // the panic in flight was raised by a callee under contract, not by this function's own code
	Trace        []string
	Dead         bool
	AllHavocs    []allHavoc
	GhostPrev    []ghostStep
	Closes       []Term
	Volatile     []Term
	VolTys       []types.Type // types of the variables in Volatile
	Spawned      bool
	LocksTouched []Term
	OwnedClose   []Term
	Universals   []universal
	UnivDone     map[string]bool // (universal, index) pairs already instantiated (copy on write)
	LockSnap     *State // state right after the first Lock() on this path
	HeldMus      []Term // mutexes currently held by this goroutine on this path
	Clock        int    // allocation counter at the last mutation of this state's memory
	PrivChans    []Term // channels made by this unit that nothing else can reach yet
	PrivTaint    map[string][]string // local variable cell -> private channels stored in it
	Weak         []string            // facts lost on this path only because a function of the module has no contract
	ExitWeak []exitWeak // weakenings that take effect when the path leaves the loop they belong to
	Cuts         []string            // labels of the loops this path was cut at (their invariants were assumed)
}

// universal is an assumed forall kept for later instantiation at new terms.
type universal struct {
	sort Sort
	inst func(t Term) (Term, bool)
}

func NewState() *State {
	return &State{Mem: map[string]Term{}, MemSort: map[string]Sort{}, MemEpoch: map[string]int{}, Ghost: map[string]Term{}, CallCnt: map[string]Term{}, Closures: map[string]*Closure{}, Derivs: map[string]*MemDeriv{}, Fresh: map[string]bool{}}
}

func (s *State) Clone() *State {
	n := &State{
		PC:           append([]Term(nil), s.PC...),
		PCs:          append([]string(nil), s.PCs...),
		Mem:          make(map[string]Term, len(s.Mem)),
		MemEpoch:     make(map[string]int, len(s.MemEpoch)),
		MemSort:      s.MemSort, // append-only, shared
		Ghost:        make(map[string]Term, len(s.Ghost)),
		Calls:        append([]CallEvent(nil), s.Calls...),
		CallCnt:      make(map[string]Term, len(s.CallCnt)),
		Closures:     s.Closures, // append-only, keyed by unique fresh terms
		Derivs:       s.Derivs,   // append-only
		Fresh:        make(map[string]bool, len(s.Fresh)),
		Seq:          s.Seq,
		Panicked:     s.Panicked,
		PanicVal:     s.PanicVal,
		PanicFromCallee: s.PanicFromCallee,
		Trace:        append([]string(nil), s.Trace...),
		AllHavocs:    append([]allHavoc(nil), s.AllHavocs...),
		GhostPrev:    append([]ghostStep(nil), s.GhostPrev...),
		Closes:       append([]Term(nil), s.Closes...),
		Volatile:     append([]Term(nil), s.Volatile...),
		VolTys:       append([]types.Type(nil), s.VolTys...),
		Spawned:      s.Spawned,
		LocksTouched: append([]Term(nil), s.LocksTouched...),
		OwnedClose:   s.OwnedClose,
		Universals:   append([]universal(nil), s.Universals...),
		UnivDone:     s.UnivDone,
		LockSnap:     s.LockSnap,
		HeldMus:      append([]Term(nil), s.HeldMus...),
		Clock:        s.Clock,
		PrivChans:    append([]Term(nil), s.PrivChans...),
		PrivTaint:    cloneTaint(s.PrivTaint),
		Weak:         s.Weak,
		ExitWeak:     s.ExitWeak,
		Cuts:         s.Cuts,
	}
	for k, v := range s.Mem {
		n.Mem[k] = v
	}
	for k, v := range s.MemEpoch {
		n.MemEpoch[k] = v
	}
	for k, v := range s.Ghost {
		n.Ghost[k] = v
	}
	for k, v := range s.CallCnt {
		n.CallCnt[k] = v
	}
	for k, v := range s.Fresh {
		n.Fresh[k] = v
	}
	return n
}

func (s *State) weaken(why string) {
	for _, w := range s.Weak {
		if w == why {
			return
		}
	}
	s.Weak = append(append([]string(nil), s.Weak...), why)
}

func (s *State) Assume(t Term) {
	if isTrue(t) {
		return
	}
	s.PC = append(s.PC, t)
	s.PCs = append(s.PCs, t.String())
}

func (f *Frame) cloneFor() *Frame {
	// Frames are per path as well: values are immutable once set but cells and
	// defers change, so branch copies need their own maps.
	n := *f
	n.Vals = make(map[ssa.Value]Val, len(f.Vals))
	for k, v := range f.Vals {
		n.Vals[k] = v
	}
	n.Cells = make(map[*ssa.Alloc]Term, len(f.Cells))
	for k, v := range f.Cells {
		n.Cells[k] = v
	}
	n.Defers = append([]Deferred(nil), f.Defers...)
	n.LoopSeen = make(map[*ssa.BasicBlock]bool, len(f.LoopSeen))
	for k, v := range f.LoopSeen {
		n.LoopSeen[k] = v
	}
	if f.Unroll != nil {
		n.Unroll = make(map[*ssa.BasicBlock]int, len(f.Unroll))
		for k, v := range f.Unroll {
			n.Unroll[k] = v
		}
	}
	n.IterOf = make(map[ssa.Value]*IterState, len(f.IterOf))
	for k, v := range f.IterOf {
		c := *v
		n.IterOf[k] = &c
	}
	if f.Parent != nil {
		n.Parent = f.Parent.cloneFor()
	}
	return &n
}

func (v Val) String() string {
	if v.Cell != nil {
		return fmt.Sprintf("cell(%s%v)", v.Cell.A.Comment, v.Cell.Path)
	}
	if v.Tuple != nil {
		return fmt.Sprintf("tuple%v", v.Tuple)
	}
	return v.T.String()
}

func cloneTaint(m map[string][]string) map[string][]string {
	if len(m) == 0 {
		return nil
	}
	n := make(map[string][]string, len(m))
	for k, v := range m {
		n[k] = v
	}
	return n
}

// havocVal: the unknown result of the last call hidden behind a loop-head marker. It is
// one constant per marker (not a fresh one per mention), so that loop invariants can
// speak about it.
func (ev CallEvent) havocVal(u *Unit, name string, idx int, so Sort) Term {
	k := fmt.Sprintf("%s#%d#%s", name, idx, so)
	if t, ok := ev.HavocVals[k]; ok {
		return t
	}
	t := u.Fresh("unknown_lastresult", so)
	if ev.HavocVals != nil {
		ev.HavocVals[k] = t
	}
	return t
}

// exitWeak: a loop of fn (blocks) whose cut forgot more than its body changes; paths that
// have left the loop are weak, the body itself is executed exactly from the havocked head.
type exitWeak struct {
	fn     *ssa.Function
	blocks map[*ssa.BasicBlock]bool
	why    string
}
