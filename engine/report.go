package main

// `govc check`: run the units a property depends on, race undecided queries,
// apply known findings, write evidence, print VIOLATION lines.

import (
	"io"
	"encoding/json"
	"flag"
	"fmt"
	"os"
	"path/filepath"
	"runtime"
	"sort"
	"strconv"
	"strings"
	"sync"
	"time"

	"golang.org/x/tools/go/ssa"
)

type KnownFinding struct {
	Property   string `json:"property"`
	Obligation string `json:"obligation"`
	Status     string `json:"status"` // open | fixed
	What       string `json:"what"`
	Commit     string `json:"commit,omitempty"`
	Demo       string `json:"demonstration,omitempty"`
}

type unitResult struct {
	u    *Unit
	secs float64
}

type checkCtx struct {
	p          *Prog
	prop       string
	tier       string
	outDir     string
	verif      string
	results    map[string]*unitResult
	refuted    map[string]*Unit // second (exact, bounded) runs of units with broken loop proofs
	mu         sync.Mutex
	raceTmo    time.Duration
	solverWins map[string]int
	solverSecs float64
	out        io.Writer // where verdict lines go (stdout; a buffer for self-test runs)
	outRoot    string    // where query / replay files go (default <verif>/out)
	noReplay   bool
	boundedNote string
	harnessDone map[string]map[string]interface{}
	selftest   map[string][]selftestResult
	xcheck     map[string]int
	audit      *auditResult
}

func (cc *checkCtx) printf(format string, a ...interface{}) {
	w := cc.out
	if w == nil {
		w = os.Stdout
	}
	fmt.Fprintf(w, format, a...)
}

func (cc *checkCtx) outDirRoot() string {
	if cc.outRoot != "" {
		return cc.outRoot
	}
	return filepath.Join(cc.verif, "out")
}

func (p *Prog) allUnits() map[string]*ssa.Function {
	out := map[string]*ssa.Function{}
	for f := range p.Contracts {
		out[p.unitNameOf(f)] = f
	}
	return out
}

func contractHasTag(ct *Contract, tag string) bool {
	for _, cl := range ct.Clauses {
		for _, t := range cl.Tags {
			if t == tag {
				return true
			}
		}
	}
	return false
}

var keepProvedInstances bool

func runUnit(p *Prog, name string, f *ssa.Function) *unitResult {
	t0 := time.Now()
	u := NewUnit(p, name, f, p.Contracts[f])
	u.keepProved = keepProvedInstances
	if err := u.start(); err != nil {
		u.errs = append(u.errs, "cannot start solver: "+err.Error())
		return &unitResult{u: u}
	}
	func() {
		defer func() {
			if r := recover(); r != nil {
				if os.Getenv("GOVC_PANIC") != "" {
					panic(r)
				}
				buf := make([]byte, 4096)
				n := runtime.Stack(buf, false)
				u.errs = append(u.errs, fmt.Sprintf("engine panic: %v\n%s", r, buf[:n]))
			}
		}()
		u.VerifyFunc()
	}()
	u.finish()
	if u.returns == 0 && u.paths > 0 && !u.timedOut {
		// only panicking / loop-cut paths: acceptable only if the function never returns normally
	}
	return &unitResult{u: u, secs: time.Since(t0).Seconds()}
}

// runRefute runs the unit a second time with every loop explored exactly (up to
// unrollBound-1 iterations) instead of being cut at an invariant. Nothing this run proves
// counts; what it refutes was refuted on a path that relies on no loop invariant.
func (cc *checkCtx) runRefute(u *Unit) *Unit {
	cc.mu.Lock()
	if cc.refuted == nil {
		cc.refuted = map[string]*Unit{}
	}
	if r, ok := cc.refuted[u.Name]; ok {
		cc.mu.Unlock()
		return r
	}
	cc.mu.Unlock()
	u2 := NewUnit(cc.p, u.Name, u.Fn, u.C)
	u2.refute = true
	if err := u2.start(); err == nil {
		if cc.tier != "thorough" {
			// the exact exploration only ever adds refutations: a third of the unit budget
			if d := time.Now().Add(cc.p.UnitTimeout / 3); d.Before(u2.deadline) {
				u2.deadline = d
			}
		}
		func() {
			defer func() {
				if r := recover(); r != nil {
					u2.errs = append(u2.errs, fmt.Sprintf("engine panic in the refutation run: %v", r))
				}
			}()
			u2.VerifyFunc()
		}()
		u2.finish()
	}
	cc.mu.Lock()
	cc.refuted[u.Name] = u2
	cc.mu.Unlock()
	return u2
}

// loopLabelOf: "unit/inv-step:loop#1:name" -> "loop#1"
func loopLabelOf(obName string) string {
	i := strings.Index(obName, "/inv-")
	if i < 0 {
		return ""
	}
	rest := obName[i+1:]
	j := strings.Index(rest, ":")
	if j < 0 {
		return ""
	}
	rest = rest[j+1:]
	if k := strings.Index(rest, ":"); k >= 0 {
		return rest[:k]
	}
	return rest
}

func hasTag(tags []string, t string) bool {
	for _, x := range tags {
		if x == t {
			return true
		}
	}
	return false
}

func cmdCheck(args []string) int {
	fs := flag.NewFlagSet("check", flag.ExitOnError)
	repo := fs.String("repo", "/repo", "")
	verif := fs.String("verif", "/verif", "")
	prop := fs.String("property", "", "property id (Cxx) or 'all'")
	tier := fs.String("tier", "", "quick|thorough")
	noEvidence := fs.Bool("no-evidence", false, "")
	writeBaseline := fs.Bool("write-baseline", false, "record the set of discharged obligations")
	forceReplay := fs.Bool("replay", false, "attempt replays even when -outdir is given (development)")
	verbose := fs.Bool("v", false, "")
	outdir := fs.String("outdir", "", "directory for query / replay files (default <verif>/out)")
	fs.Parse(args)
	if *tier == "" {
		*tier = os.Getenv("VERIF_TIER")
	}
	if *tier == "" {
		*tier = "quick"
	}
	seed := 0
	if s := os.Getenv("VERIF_SEED"); s != "" {
		seed, _ = strconv.Atoi(s)
	}
	t0 := time.Now()
	p := loadAll(*repo, *verif)
	if *tier == "thorough" {
		keepProvedInstances = true
		p.QueryTimeoutMs = 15000
		p.UnitTimeout = 5 * time.Minute
	}
	props := []string{*prop}
	if *prop == "all" {
		props = nil
		for i := 1; i <= 20; i++ {
			props = append(props, fmt.Sprintf("C%02d", i))
		}
	}
	cc := &checkCtx{p: p, tier: *tier, verif: *verif, results: map[string]*unitResult{}, solverWins: map[string]int{}, outRoot: *outdir}
	if *outdir != "" && !*forceReplay {
		cc.noReplay = true // development runs against scratch copies
	}
	cc.raceTmo = 20 * time.Second
	if *tier == "thorough" {
		cc.raceTmo = 60 * time.Second
	}
	known := loadKnown(filepath.Join(*verif, "known_findings.json"))
	baseline := loadBaseline(filepath.Join(*verif, "baseline", "obligations.json"))
	loadSecs := time.Since(t0).Seconds()
	exit := 0
	newBaseline := map[string][]string{}
	if *tier == "thorough" && os.Getenv("GOVC_NO_AUDIT") == "" {
		cc.audit = runAudit(*verif)
	}
	for _, pr := range props {
		if *tier == "thorough" && os.Getenv("GOVC_NO_SELFTEST") == "" {
			if cc.selftest == nil {
				cc.selftest = map[string][]selftestResult{}
			}
			cc.selftest[pr] = runSelftest(*repo, *verif, pr, known, baseline)
		}
		code, discharged := cc.checkProperty(pr, seed, known, baseline, !*noEvidence, *verbose, loadSecs)
		newBaseline[pr] = discharged
		if code > exit {
			exit = code
		}
	}
	if *writeBaseline {
		p.writeParamBaseline(*verif)
		p.writeCalleeBaseline(*verif)
		os.MkdirAll(filepath.Join(*verif, "baseline"), 0o755)
		old := loadBaseline(filepath.Join(*verif, "baseline", "obligations.json"))
		for k, v := range newBaseline {
			old[k] = v
		}
		b, _ := json.MarshalIndent(old, "", " ")
		os.WriteFile(filepath.Join(*verif, "baseline", "obligations.json"), append(b, '\n'), 0o644)
	}
	return exit
}

func loadKnown(path string) []KnownFinding {
	var out []KnownFinding
	b, err := os.ReadFile(path)
	if err != nil {
		return nil
	}
	if err := json.Unmarshal(b, &out); err != nil {
		fmt.Fprintln(os.Stderr, "known_findings.json:", err)
		os.Exit(3)
	}
	return out
}

func loadBaseline(path string) map[string][]string {
	out := map[string][]string{}
	b, err := os.ReadFile(path)
	if err != nil {
		return out
	}
	json.Unmarshal(b, &out)
	return out
}

// unitsFor computes the units to run for a property: those with a clause
// tagged with it, plus (after running) the callees whose contracts were used.
func (cc *checkCtx) runUnits(names []string) {
	var todo []string
	cc.mu.Lock()
	for _, n := range names {
		if _, ok := cc.results[n]; !ok {
			todo = append(todo, n)
			cc.results[n] = nil
		}
	}
	cc.mu.Unlock()
	all := cc.p.allUnits()
	sem := make(chan struct{}, 14)
	var wg sync.WaitGroup
	for _, n := range todo {
		f := all[n]
		if f == nil {
			continue
		}
		wg.Add(1)
		n := n
		go func() {
			defer wg.Done()
			sem <- struct{}{}
			r := runUnit(cc.p, n, f)
			<-sem
			cc.mu.Lock()
			cc.results[n] = r
			cc.mu.Unlock()
		}()
	}
	wg.Wait()
}

type obRecord struct {
	o      *Oblig
	u      *Unit
	dep    bool   // included as a dependency (callee contract)
	status string // discharged | violated | undecided | known
	solver string
	detail string
	replay string
	// exact: refuted by the run that explores loops exactly; brokenLoop: fails only behind
	// the cut of a loop whose invariant no longer holds, and was not refuted exactly
	exact      bool
	brokenLoop bool
}

func (cc *checkCtx) checkProperty(prop string, seed int, known []KnownFinding, baseline map[string][]string, writeEv bool, verbose bool, loadSecs float64) (int, []string) {
	t0 := time.Now()
	p := cc.p
	all := p.allUnits()
	// 1. units with clauses tagged prop
	var primary []string
	for n, f := range all {
		if contractHasTag(p.Contracts[f], prop) {
			primary = append(primary, n)
		}
	}
	sort.Strings(primary)
	if len(primary) == 0 {
		cc.printf("UNDECIDED property=%s no contract clause is tagged with this property\n", prop)
		return 3, nil
	}
	cc.runUnits(primary)
	// 2. dependency closure
	isPrimary := map[string]bool{}
	for _, n := range primary {
		isPrimary[n] = true
	}
	deps := map[string]bool{}
	frontier := primary
	for len(frontier) > 0 {
		var next []string
		for _, n := range frontier {
			r := cc.results[n]
			if r == nil {
				continue
			}
			for d := range r.u.usedContracts {
				if !deps[d] && !isPrimary[d] {
					deps[d] = true
					next = append(next, d)
				}
			}
		}
		sort.Strings(next)
		cc.runUnits(next)
		frontier = next
	}
	// 3. collect obligations
	var recs []*obRecord
	var engineErrs []string
	var unitNames []string
	for n := range isPrimary {
		unitNames = append(unitNames, n)
	}
	for n := range deps {
		unitNames = append(unitNames, n)
	}
	sort.Strings(unitNames)
	abstractions := map[string]int{}
	assumptions := map[string]bool{}
	totalQueries := 0
	var solverSecs float64
	for _, n := range unitNames {
		r := cc.results[n]
		if r == nil {
			engineErrs = append(engineErrs, n+": unit did not run")
			continue
		}
		u := r.u
		debugf("unit %-60s %.1fs queries=%d paths=%d", n, r.secs, u.queries, u.paths)
		for _, e := range u.errs {
			engineErrs = append(engineErrs, n+": "+e)
		}
		if u.returns == 0 && !neverReturns(u) {
			engineErrs = append(engineErrs, n+": vacuity: no feasible return path was reached")
		}
		totalQueries += u.queries
		if u.sol != nil {
			solverSecs += u.sol.secs
		}
		for a, c := range u.abstractions {
			abstractions[a] += c
		}
		for a := range u.assumptions {
			assumptions[a] = true
		}
		for _, o := range u.sortedObligs() {
			if isPrimary[n] {
				if hasTag(o.Tags, prop) {
					recs = append(recs, &obRecord{o: o, u: u})
				}
			} else {
				switch o.Class {
				case "post", "panicpost", "modifies", "inv-entry", "inv-step", "pre", "assert_call":
					recs = append(recs, &obRecord{o: o, u: u, dep: true})
				}
			}
		}
	}
	// module-wide `final` field obligations tagged with this property
	for _, fc := range p.FinalChecks {
		if !hasTag(fc.Tags, prop) {
			continue
		}
		kind := "final"
		if fc.Kind != "" {
			kind = fc.Kind
		}
		name := fmt.Sprintf("type:%s/%s:%s", shortPkg(fc.Type[:strings.LastIndex(fc.Type, ".")])+fc.Type[strings.LastIndex(fc.Type, "."):], kind, fc.Field)
		o := &Oblig{Name: name, Class: "final", Tags: fc.Tags, Pos: fc.Pos, Clause: kind + " " + fc.Field, Unit: "module", Paths: 1}
		rec := &obRecord{o: o, u: &Unit{P: p, Name: "module"}}
		if len(fc.Sites) > 0 {
			o.Failures = []*Failure{{Result: "syntactic", Goal: strings.Join(fc.Sites, "; ")}}
			rec.status = "violated"
			rec.solver = "ssa-scan"
			rec.detail = strings.Join(fc.Sites, "; ")
		}
		recs = append(recs, rec)
	}
	// 4. decide
	outDir := filepath.Join(cc.outDirRoot(), prop)
	os.RemoveAll(outDir)
	os.MkdirAll(outDir, 0o755)
	var wg sync.WaitGroup
	sem := make(chan struct{}, 5)
	for _, rec := range recs {
		if len(rec.o.Failures) == 0 {
			rec.status = "discharged"
			rec.solver = interactiveSolverName()
			if rec.o.Class == "final" {
				rec.solver = "ssa-scan"
			}
			continue
		}
		if rec.o.Class == "final" {
			continue // decided by the scan
		}
		wg.Add(1)
		rec := rec
		go func() {
			defer wg.Done()
			sem <- struct{}{}
			defer func() { <-sem }()
			cc.decideFailure(rec, outDir)
		}()
	}
	wg.Wait()
	// 4a. broken loop proofs. A loop invariant that no longer holds (or can no longer be
	// evaluated) is a proof that has to be redone, not a refutation of the property: the
	// loop may have been rewritten without changing what it computes. What decides is a
	// second run of the unit in which loops are not cut but explored exactly for a bounded
	// number of iterations: an obligation that fails there fails on a path that relies on
	// no invariant, and is reported. What only fails behind a broken cut is undecided.
	brokenBy := map[*Unit]map[string]bool{}
	for _, rec := range recs {
		if rec.status != "discharged" && (rec.o.Class == "inv-entry" || rec.o.Class == "inv-step") && rec.u != nil {
			if brokenBy[rec.u] == nil {
				brokenBy[rec.u] = map[string]bool{}
			}
			brokenBy[rec.u][loopLabelOf(rec.o.Name)] = true
		}
		if rec.u != nil && len(rec.u.brokenLoops) > 0 {
			if brokenBy[rec.u] == nil {
				brokenBy[rec.u] = map[string]bool{}
			}
			for l := range rec.u.brokenLoops {
				brokenBy[rec.u][l] = true
			}
		}
	}
	behindBroken := func(rec *obRecord) bool {
		bl := brokenBy[rec.u]
		if len(bl) == 0 {
			return false
		}
		if rec.o.Class == "inv-entry" || rec.o.Class == "inv-step" {
			return true
		}
		n := 0
		for _, f := range rec.o.Failures {
			if f.Race != nil && f.Race.Result == "unsat" {
				continue
			}
			n++
			hit := false
			for _, c := range f.Cuts {
				if bl[c] {
					hit = true
				}
			}
			if !hit {
				return false
			}
		}
		return n > 0
	}
	refutedIn := map[*Unit]map[string]*obRecord{}
	for u0 := range brokenBy {
		if u0.Fn == nil {
			continue
		}
		u2 := cc.runRefute(u0)
		m := map[string]*obRecord{}
		for _, o := range u2.sortedObligs() {
			if len(o.Failures) == 0 {
				continue
			}
			r2 := &obRecord{o: o, u: u2}
			cc.decideFailure(r2, outDir)
			if r2.status != "discharged" {
				m[o.Name] = r2
			}
		}
		refutedIn[u0] = m
		for _, e := range u2.errs {
			debugf("refutation run of %s: %s", u0.Name, e)
		}
	}
	for _, rec := range recs {
		m := refutedIn[rec.u]
		if m == nil {
			continue
		}
		if r2 := m[rec.o.Name]; r2 != nil {
			// refuted without relying on any invariant: a violation whatever the cut run said
			rec.o = r2.o
			rec.u = r2.u
			rec.status = r2.status
			rec.solver = r2.solver
			rec.exact = true
			continue
		}
		if rec.status != "discharged" && behindBroken(rec) {
			rec.brokenLoop = true
		}
	}
	// 4b. thorough tier: a sample of the instances the incremental solver discharged is
	// re-checked as standalone queries by all three solvers; any `sat` is a disagreement
	xInst, xAgree, xUnknown := 0, 0, 0
	if cc.tier == "thorough" && !cc.noReplay {
		var xwg sync.WaitGroup
		xsem := make(chan struct{}, 8)
		var xmu sync.Mutex
		for _, rec := range recs {
			if rec.dep || rec.status != "discharged" || rec.o.Class == "final" {
				continue
			}
			for i, f := range rec.o.Proved {
				xwg.Add(1)
				rec, f, i := rec, f, i
				go func() {
					defer xwg.Done()
					xsem <- struct{}{}
					defer func() { <-xsem }()
					path, err := writeQueryFile(filepath.Join(outDir, "xcheck"), fmt.Sprintf("%s__x%d", rec.o.Name, i), rec.u.decls, f.Asserts, nil)
					if err != nil {
						return
					}
					rr := RaceFile(path, 30*time.Second, true)
					os.Remove(path)
					xmu.Lock()
					defer xmu.Unlock()
					xInst++
					switch rr.Result {
					case "unsat":
						xAgree++
					case "sat", "conflict":
						engineErrs = append(engineErrs, fmt.Sprintf("solver disagreement on %s: incremental z3 answered unsat, standalone answers %v", rec.o.Name, rr.All))
					default:
						xUnknown++
					}
				}()
			}
		}
		xwg.Wait()
		cc.xcheck = map[string]int{"instances": xInst, "all_answering_solvers_agree_unsat": xAgree, "no_standalone_answer": xUnknown}
	}
	// 5. known findings, baseline, verdict
	base := map[string]bool{}
	for _, n := range baseline[prop] {
		base[n] = true
	}
	violations := 0
	undecided := 0
	var discharged []string
	knownMatched := []string{}
	wins := map[string]int{}
	for _, rec := range recs {
		switch rec.status {
		case "discharged":
			discharged = append(discharged, rec.o.Name)
			wins[rec.solver]++
			continue
		}
		if kf := matchKnown(known, prop, rec.o.Name); kf != nil {
			rec.status = "known"
			knownMatched = append(knownMatched, rec.o.Name)
			cc.printf("KNOWN-FINDING: property=%s %s %s\n", prop, rec.o.Name, kf.What)
			continue
		}
		// a contract of this package lost its function (rename) and this unit calls a function
		// without contract: what failed here may only be the renamed callee's missing contract
		if rec.u != nil && len(rec.u.uncontracted) > 0 && rec.u.Pkg != nil {
			renamed := false
			for _, mt := range p.MissingTargets {
				if mt.Pkg == rec.u.Pkg.Path() {
					renamed = true
				}
			}
			if renamed {
				undecided++
				cc.printf("UNDECIDED property=%s obligation=%s (the unit calls a function without contract while a contract of this package has lost its target: probably a rename)\n", prop, rec.o.Name)
				continue
			}
		}
		// `final` is a syntactic scan for stores outside the allocating function. When the
		// contract of a function of the same package has lost its target, code has moved
		// between functions (a goroutine body became a method): where the store sits now says
		// nothing until the contract file has followed
		if rec.o.Class == "final" && strings.HasPrefix(rec.o.Name, "type:") {
			pkgShort := strings.TrimPrefix(rec.o.Name, "type:")
			if i := strings.Index(pkgShort, "."); i >= 0 {
				pkgShort = pkgShort[:i]
			}
			var lost *MissingTarget
			for _, mt := range p.MissingTargets {
				if mt.Pkg == pkgShort || strings.HasSuffix(mt.Pkg, "/"+pkgShort) {
					lost = mt
					break
				}
			}
			if lost != nil {
				undecided++
				cc.printf("UNDECIDED property=%s obligation=%s (code has moved between functions of this package: the contract of %s at %s:%d has lost its target; the scan for stores outside the allocating function has to wait for the contract file)\n", prop, rec.o.Name, lost.Target, lost.File, lost.Line)
				continue
			}
		}
		// a clause of this unit's contract could not be evaluated (it names a variable, a
		// function or a call that the code no longer has): the contract is out of step with
		// the function, and what fails besides is no refutation
		if rec.u != nil {
			bad := ""
			for _, e := range rec.u.errs {
				if strings.Contains(e, "zz_contracts_verif.go:") && (strings.Contains(e, "unsupported object") || strings.Contains(e, "no captured variable") || strings.Contains(e, "unknown function") || strings.Contains(e, "unknown identifier") || strings.Contains(e, "undefined") || strings.Contains(e, "not an addressable expression")) {
					bad = e
					break
				}
			}
			if bad != "" {
				undecided++
				if len(bad) > 160 {
					bad = bad[:160]
				}
				cc.printf("UNDECIDED property=%s obligation=%s (a clause of this function's contract cannot be evaluated on the current code: %s; the contract has to follow)\n", prop, rec.o.Name, bad)
				continue
			}
		}
		// function literals are addressed by usage labels with ordinals (P.field:Handler#1,
		// P.go#1, P.arg#2). If the contract of a sibling literal of the same kind has lost its
		// target, the literals of P were renumbered: the contract of this unit may be sitting
		// on another literal than the one it was written for
		if rec.u != nil {
			if sib := shiftedSibling(p, rec.u.Name); sib != nil {
				undecided++
				cc.printf("UNDECIDED property=%s obligation=%s (the function literals of the enclosing function were renumbered: the contract of %s at %s:%d has lost its target, so this contract may be attached to another literal than the one it was written for)\n", prop, rec.o.Name, sib.Target, sib.File, sib.Line)
				continue
			}
		}
		if rec.brokenLoop {
			undecided++
			what := "fails only behind the cut of a loop whose invariant no longer holds"
			if rec.o.Class == "inv-entry" || rec.o.Class == "inv-step" {
				what = "the loop invariant no longer holds"
			}
			cc.printf("UNDECIDED property=%s obligation=%s (%s; exploring the loop exactly for up to %d iterations refutes nothing here: the invariants have to follow the code)\n", prop, rec.o.Name, what, unrollBound-1)
			continue
		}
		// the clause itself talks about calls to a function whose contract has lost its target
		// (the function was renamed, removed or folded into its caller): the clause cannot be
		// evaluated any more, which is a contract that has to follow, not a refutation
		if mt := mentionsMissingTarget(p, rec); mt != nil {
			undecided++
			cc.printf("UNDECIDED property=%s obligation=%s (its clause refers to %s, whose contract at %s:%d has lost its target)\n", prop, rec.o.Name, mt.Target, mt.File, mt.Line)
			continue
		}
		// every failing path went through code of the module that has no contract and could
		// not be executed exactly (a loop without invariant, recursion): a missing contract,
		// not a refutation
		if why := weakOnly(rec.o); why != "" {
			undecided++
			cc.printf("UNDECIDED property=%s obligation=%s (needs a contract: %s)\n", prop, rec.o.Name, why)
			continue
		}
		if rec.status == "undecided" && len(base) > 0 && !base[rec.o.Name] {
			undecided++
			cc.printf("UNDECIDED property=%s obligation=%s (no solver decided it and it is not in the baseline of discharged obligations)\n", prop, rec.o.Name)
			continue
		}
		violations++
		replay := cc.writeReplay(prop, rec, outDir)
		suffix := ""
		if !strings.Contains(rec.detail, "reproduced") {
			suffix = " no-failing-input-found"
		}
		cc.printf("VIOLATION property=%s replay=%s obligation=%s%s\n", prop, replay, rec.o.Name, suffix)
	}
	// thorough tier: the property-level bounded search on the real API (labelled bounded,
	// never counted as proved). A violating case it finds is a failing input shown on the
	// real code and is reported as such.
	cc.boundedNote = ""
	if cc.tier == "thorough" && !cc.noReplay {
		if fb := cc.propertyFallback(prop); fb != nil && fb["attempted"] == true {
			if fb["reproduced"] == true {
				violations++
				dir := filepath.Join(cc.outDirRoot(), "replay")
				os.MkdirAll(dir, 0o755)
				path := filepath.Join(dir, sanitize(prop+"__bounded_property_level_search")+".json")
				b, _ := json.MarshalIndent(map[string]interface{}{"property": prop, "obligation": "bounded:property_level_search", "class": "bounded", "replay": fb, "status": "violated"}, "", " ")
				os.WriteFile(path, append(b, '\n'), 0o644)
				cc.printf("VIOLATION property=%s replay=%s obligation=bounded:property_level_search\n", prop, path)
				cc.boundedNote = "bounded (NOT counted as proved): property-level search on the real API FOUND a violating case, see " + path
			} else {
				cc.boundedNote = fmt.Sprintf("bounded (NOT counted as proved): property-level search on the real API (%v): no violating case in that scope", fb["inputs"])
			}
		}
	}
	// obligations that were discharged at baseline but no longer exist (renamed target etc.)
	present := map[string]bool{}
	for _, rec := range recs {
		present[rec.o.Name] = true
	}
	var missing []string
	for n := range base {
		if !present[n] {
			missing = append(missing, n)
		}
	}
	sort.Strings(missing)
	for _, mt := range p.MissingTargets {
		if hasTag(mt.Tags, prop) {
			engineErrs = append(engineErrs, fmt.Sprintf("%s:%d: contract target %q not found in %s (renamed or removed: the contract file has to follow)", mt.File, mt.Line, mt.Target, mt.Pkg))
		}
	}
	if cc.audit != nil && !cc.audit.OK {
		engineErrs = append(engineErrs, "bounded audit of the assumed extern contracts failed: "+cc.audit.Output)
	}
	for _, sr := range cc.selftest[prop] {
		if sr.Applied && !sr.Detected {
			engineErrs = append(engineErrs, fmt.Sprintf("self-test: seeded change %s was not reported (%s)", sr.Seed, sr.Note))
		}
	}
	for _, e := range engineErrs {
		cc.printf("ENGINE-ERROR property=%s %s\n", prop, e)
	}
	wall := time.Since(t0).Seconds() + loadSecs
	for _, sr := range cc.selftest[prop] {
		wall += sr.Secs
	}
	if writeEv {
		cc.writeEvidence(prop, seed, recs, unitNames, isPrimary, abstractions, assumptions, knownMatched, wins, totalQueries, solverSecs, wall, violations, engineErrs, missing)
	}
	nOb := len(recs)
	cc.printf("property=%s tier=%s units=%d obligations=%d discharged=%d known=%d violations=%d undecided=%d engine_errors=%d wall=%.1fs\n", prop, cc.tier, len(unitNames), nOb, len(discharged), len(knownMatched), violations, undecided, len(engineErrs), wall)
	if verbose {
		for _, rec := range recs {
			cc.printf("  %-10s %s  [%s] paths=%d\n", rec.status, rec.o.Name, rec.o.Clause, rec.o.Paths)
		}
	}
	if violations > 0 {
		return 1, discharged
	}
	if len(engineErrs) > 0 || undecided > 0 || nOb == 0 {
		return 3, discharged
	}
	return 0, discharged
}

func neverReturns(u *Unit) bool {
	// a function whose every path panics (none in scope) would be flagged; keep strict
	return false
}

// shiftedSibling: unit is "pkg.P.<kind>#k"; a missing contract target "P.<kind>#j" of the same
// package means the ordinals of P's literals of that kind moved.
func shiftedSibling(p *Prog, unit string) *MissingTarget {
	i := strings.LastIndex(unit, "#")
	if i < 0 {
		return nil
	}
	stem := unit[:i+1] // pkg.P.kind#
	if j := strings.Index(stem, "."); j >= 0 {
		stem = stem[j+1:] // P.kind#
	}
	for _, mt := range p.MissingTargets {
		if strings.HasPrefix(mt.Target, stem) && !strings.Contains(mt.Target[len(stem):], ".") {
			return mt
		}
	}
	return nil
}

func mentionsMissingTarget(p *Prog, rec *obRecord) *MissingTarget {
	isId := func(c byte) bool {
		return c == '_' || c == '.' || c >= '0' && c <= '9' || c >= 'a' && c <= 'z' || c >= 'A' && c <= 'Z'
	}
	for _, mt := range p.MissingTargets {
		if rec.u == nil || rec.u.Pkg == nil || mt.Pkg != rec.u.Pkg.Path() {
			continue
		}
		cl := rec.o.Clause
		for from := 0; ; {
			i := strings.Index(cl[from:], mt.Target)
			if i < 0 {
				break
			}
			i += from
			j := i + len(mt.Target)
			if (i == 0 || !isId(cl[i-1])) && (j == len(cl) || !isId(cl[j])) {
				return mt
			}
			from = j
		}
	}
	return nil
}

// weakOnly: all undischarged failures of o lie on paths weakened by a missing contract.
func weakOnly(o *Oblig) string {
	why := ""
	n := 0
	for _, f := range o.Failures {
		if f.Race != nil && f.Race.Result == "unsat" {
			continue
		}
		n++
		if len(f.Weak) == 0 {
			return ""
		}
		why = strings.Join(f.Weak, "; ")
	}
	if n == 0 {
		return ""
	}
	return why
}

func matchKnown(known []KnownFinding, prop, ob string) *KnownFinding {
	for i := range known {
		k := &known[i]
		if k.Status == "open" && k.Obligation == ob && (k.Property == prop || k.Property == "") {
			return k
		}
	}
	return nil
}

// decideFailure re-runs a failed obligation standalone on all solvers.
func (cc *checkCtx) decideFailure(rec *obRecord, outDir string) {
	anySat := false
	allUnsat := true
	started := time.Now()
	for i, f := range rec.o.Failures {
		if i > 0 && !anySat && cc.tier != "thorough" && time.Since(started) > 2*cc.raceTmo {
			// quick tier: the failing paths of one obligation are tried one after the other
			// until one gives a model; after two full time-outs the rest is left untried
			// (an obligation that passed on the unchanged tree and fails now is reported
			// either way, with or without a model)
			allUnsat = false
			break
		}
		name := fmt.Sprintf("%s__p%d", rec.o.Name, i)
		vals := append([]string(nil), f.Values...)
		seen := map[string]bool{}
		for _, v := range vals {
			seen[v] = true
		}
		for _, a := range f.Asserts {
			for _, m := range resultConstRe.FindAllString(a, -1) {
				if !seen[m] && len(vals) < 200 {
					seen[m] = true
					vals = append(vals, m)
				}
			}
		}
		decls := rec.u.decls
		if f.NDecls > 0 && f.NDecls <= len(decls) {
			// only what the solver knew when it answered: later paths may have added facts
			// about states that are unreachable once this obligation fails
			decls = decls[:f.NDecls]
		}
		path, err := writeQueryFile(filepath.Join(outDir, "vc"), name, decls, f.Asserts, vals)
		if err != nil {
			rec.status = "undecided"
			rec.detail = err.Error()
			return
		}
		f.File = path
		rr := RaceFile(path, cc.raceTmo, cc.tier == "thorough")
		f.Race = &rr
		cc.mu.Lock()
		cc.solverSecs += rr.Secs
		cc.mu.Unlock()
		switch rr.Result {
		case "unsat":
			rec.solver = rr.Solver
		case "sat":
			anySat = true
			allUnsat = false
			rec.solver = rr.Solver
		default:
			allUnsat = false
		}
		if anySat {
			break
		}
	}
	switch {
	case allUnsat:
		rec.status = "discharged"
	case anySat:
		rec.status = "violated"
	default:
		rec.status = "undecided"
	}
}

func (cc *checkCtx) writeReplay(prop string, rec *obRecord, outDir string) string {
	dir := filepath.Join(cc.outDirRoot(), "replay")
	os.MkdirAll(dir, 0o755)
	path := filepath.Join(dir, sanitize(prop+"__"+rec.o.Name)+".json")
	type failureJSON struct {
		Result string            `json:"solver_result"`
		Solver string            `json:"solver"`
		All    map[string]string `json:"all_solvers,omitempty"`
		Query  string            `json:"query_file"`
		Output string            `json:"solver_output"`
		Trace  []string          `json:"trace,omitempty"`
	}
	doc := map[string]interface{}{
		"property":   prop,
		"obligation": rec.o.Name,
		"class":      rec.o.Class,
		"clause":     rec.o.Clause,
		"position":   rec.o.Pos,
		"unit":       rec.o.Unit,
		"status":     rec.status,
	}
	var fj []failureJSON
	for _, f := range rec.o.Failures {
		if f.Race == nil {
			continue
		}
		out := f.Race.Output
		if len(out) > 6000 {
			out = out[:6000] + "..."
		}
		fj = append(fj, failureJSON{Result: f.Race.Result, Solver: f.Race.Solver, All: f.Race.All, Query: f.File, Output: out, Trace: f.Trace})
	}
	doc["failed_paths"] = fj
	if rec.o.Class == "final" {
		doc["offending_sites"] = rec.detail
	}
	var rp map[string]interface{}
	if cc.noReplay {
		rp = map[string]interface{}{"attempted": false, "reason": "self-test run"}
	} else {
		rp = cc.tryReplay(prop, rec)
		if rp == nil || rp["reproduced"] != true {
			if fb := cc.propertyFallback(prop); fb != nil {
				if rp == nil {
					rp = map[string]interface{}{}
				}
				rp["property_level_search"] = fb
				if fb["reproduced"] == true {
					rp["reproduced"] = true
				}
			}
		}
	}
	doc["replay"] = rp
	if rp != nil && rp["reproduced"] == true {
		rec.detail = "reproduced"
	} else {
		doc["note"] = "no-failing-input-found: the verifier's output is attached; no concrete input was reproduced on the real code"
	}
	b, _ := json.MarshalIndent(doc, "", " ")
	os.WriteFile(path, append(b, '\n'), 0o644)
	return path
}

func (cc *checkCtx) writeEvidence(prop string, seed int, recs []*obRecord, units []string, isPrimary map[string]bool, abstractions map[string]int, assumptions map[string]bool, knownMatched []string, wins map[string]int, queries int, solverSecs, wall float64, violations int, engineErrs, missing []string) {
	nDis := 0
	var samples []map[string]interface{}
	byClass := map[string]int{}
	nPaths := 0
	for _, rec := range recs {
		if rec.status == "discharged" {
			nDis++
		}
		byClass[rec.o.Class]++
		nPaths += rec.o.Paths
	}
	for i, rec := range recs {
		if i%((len(recs)/6)+1) == 0 || rec.status != "discharged" {
			if len(samples) < 12 {
				samples = append(samples, map[string]interface{}{"obligation": rec.o.Name, "class": rec.o.Class, "clause": rec.o.Clause, "position": rec.o.Pos, "paths": rec.o.Paths, "status": rec.status, "solver": rec.solver, "dependency": rec.dep})
			}
		}
	}
	var fns []string
	var depFns []string
	for _, n := range units {
		if isPrimary[n] {
			fns = append(fns, n)
		} else {
			depFns = append(depFns, n)
		}
	}
	var abs []string
	for a, c := range abstractions {
		abs = append(abs, fmt.Sprintf("%s (x%d)", a, c))
	}
	sort.Strings(abs)
	var ass []string
	for a := range assumptions {
		ass = append(ass, a)
	}
	sort.Strings(ass)
	nObl := len(recs) - len(knownMatched)
	trusted := []string{
		"x/tools go/packages + go/types + go/ssa v0.29.0 build the IR of /repo (tag verif) correctly",
		"govc's encoding of each go/ssa instruction (DESIGN Appendix A)",
		"z3 4.8.12 (incremental session per function) and, for standalone queries, z3 5.1.0 (z3-new) / cvc5 1.0.3 are sound when answering unsat",
		"assumed contracts on dependencies in /verif/contracts/extern/*.spec",
		"Go memory model facts: mutual exclusion, channel FIFO (DESIGN 3.3, 3.4)",
	}
	ev := map[string]interface{}{
		"property_id": prop,
		"tier":        cc.tier,
		"seed":        seed,
		"level":       "proof",
		"coverage": map[string]interface{}{
			"obligations":                    nObl,
			"discharged":                     nDis,
			"checker_cmd":                    fmt.Sprintf("/verif/bin/govc check -property %s -tier %s", prop, cc.tier),
			"trusted_base":                   trusted,
			"samples":                        samples,
			"functions_under_contract":       fns,
			"dependency_contracts_rechecked": depFns,
			"obligations_by_class":           byClass,
			"path_instances":                 nPaths,
			"solver_queries":                 queries,
			"solver_seconds":                 solverSecs + cc.solverSecs,
			"discharged_by":                  wins,
			"known_findings_matched":         knownMatched,
			"abstractions":                   abs,
			"baseline_obligations_missing":   missing,
			"engine_errors":                  engineErrs,
			"contract_files":                 cc.p.ContractFilesUsed,
			"integers":                       "exact machine integers (mathematical Int + explicit wraparound at every operation)",
			"bounded":                        []string{},
			"explanation":                    "weakest-precondition style verification conditions generated by symbolic execution of go/ssa (naive form) of the real packages; every listed obligation was discharged for all inputs on every path (loops cut at inductive invariants)",
		},
		"assumptions": ass,
		"wall_s":      wall,
		"violations":  violations,
	}
	if cc.audit != nil {
		ev["coverage"].(map[string]interface{})["bounded"] = []string{fmt.Sprintf("bounded (NOT counted as proved): executable audit of the assumed contracts of stdlib/grpc functions in /verif/audit (pseudo-random inputs, seed %d, about 20000 cases per group): ok=%v in %.1fs", seed, cc.audit.OK, cc.audit.Secs)}
	}
	if cc.boundedNote != "" {
		cov := ev["coverage"].(map[string]interface{})
		cov["bounded"] = append(cov["bounded"].([]string), cc.boundedNote)
	}
	if cc.xcheck != nil {
		ev["coverage"].(map[string]interface{})["second_solver_recheck"] = cc.xcheck
	}
	if st := cc.selftest[prop]; st != nil {
		ev["coverage"].(map[string]interface{})["must_fail_selftest"] = st
	}
	os.MkdirAll(filepath.Join(cc.verif, "evidence"), 0o755)
	b, _ := json.MarshalIndent(ev, "", " ")
	os.WriteFile(filepath.Join(cc.verif, "evidence", prop+".json"), append(b, '\n'), 0o644)
}
