package main

// Solver plumbing: one interactive z3 process per unit for the bulk of the
// queries, standalone files raced on z3-new / z3 4.8.12 / cvc5 for anything
// that did not come back `unsat`, and for model extraction.

import (
	"regexp"
	"bufio"
	"bytes"
	"context"
	"fmt"
	"io"
	"os"
	"os/exec"
	"path/filepath"
	"strings"
	"sync"
	"sync/atomic"
	"time"
)

const prelude = `(set-option :produce-models true)
(set-logic ALL)
(declare-sort Str 0)
(declare-sort V 0)
(declare-sort Flt 0)
(declare-fun slen (Str) Int)
(declare-fun sat (Str Int) Int)
(declare-fun ssub (Str Int Int) Str)
(declare-fun sconcat (Str Str) Str)
(declare-fun vlen (V) Int)
(declare-fun vcap (V) Int)
(declare-fun sptr (V) V)
(declare-fun soff (V) Int)
(declare-fun ia (V Int) V)
(declare-fun abase (V) V)
(declare-fun akind (V) Int)
(declare-fun aidx (V) Int)
(declare-fun aobj (V) V)
(declare-fun aid (V) Int)
(declare-fun adepth (V) Int)
(declare-fun tag (V) Int)
(declare-fun clofn (V) Int)
(declare-const nilV V)
(declare-const emptyStr Str)
(assert (= (slen emptyStr) 0))
(assert (= (vlen nilV) 0))
(assert (= (vcap nilV) 0))
(assert (= (tag nilV) 0))
(assert (= (aid nilV) 0))
(assert (= (aobj nilV) nilV))
(define-fun wrapS ((x Int) (lo Int) (hi Int)) Int (ite (and (<= lo x) (<= x hi)) x (+ (mod (- x lo) (+ (- hi lo) 1)) lo)))
(define-fun godiv ((a Int) (b Int)) Int (ite (>= a 0) (ite (> b 0) (div a b) (- (div a (- b)))) (ite (> b 0) (- (div (- a) b)) (div (- a) (- b)))))
(define-fun gomod ((a Int) (b Int)) Int (- a (* b (godiv a b))))
`

type SolverProc struct {
	cmd    *exec.Cmd
	in     io.WriteCloser
	out    *bufio.Reader
	dead   bool
	nq     int
	secs   float64
	errs   []string
	mu     sync.Mutex
	tmoMs  int
	binary string
	// incremental mode: one push level per path-condition entry
	stack []string
	axAt  [][]string // axAt[l]: assertions made while the stack was l deep
	// Axioms that only constrain symbols of an abandoned subtree are not
	// re-asserted when that subtree is popped ("buried"); they come back the
	// moment any later input mentions one of those symbols again (resurrect).
	// Dropping a valid axiom can only weaken the solver, never make it unsound.
	maxSym  int            // largest fresh-symbol number seen in any input so far
	symAt   []int          // symAt[i]: maxSym when stack level i+1 was pushed
	grave   map[string][]int // young symbol -> buried axioms mentioning it
	graveAx []string
	buried  []bool
	nBuried, nRaised int
}

var freshSymRe = regexp.MustCompile(`[A-Za-z_][A-Za-z0-9_.$]*![0-9]+`)

func symNumber(sym string) int {
	i := strings.LastIndexByte(sym, '!')
	n := 0
	for _, c := range sym[i+1:] {
		n = n*10 + int(c-'0')
		if n > 1<<40 {
			break
		}
	}
	return n
}

// noteSyms updates maxSym with the symbols of text.
func (sp *SolverProc) noteSyms(text string) {
	for _, m := range freshSymRe.FindAllString(text, -1) {
		if n := symNumber(m); n > sp.maxSym {
			sp.maxSym = n
		}
	}
}

// raise writes back (into b) every buried axiom that mentions a symbol of
// text, transitively, and records it at the current depth.
func (sp *SolverProc) raise(text string, b *strings.Builder) {
	if len(sp.grave) == 0 {
		return
	}
	work := []string{text}
	for len(work) > 0 {
		t := work[len(work)-1]
		work = work[:len(work)-1]
		for _, m := range freshSymRe.FindAllString(t, -1) {
			idxs, ok := sp.grave[m]
			if !ok {
				continue
			}
			delete(sp.grave, m)
			for _, i := range idxs {
				if !sp.buried[i] {
					continue
				}
				sp.buried[i] = false
				sp.nRaised++
				c := sp.graveAx[i]
				b.WriteString(c)
				b.WriteByte('\n')
				d := len(sp.stack)
				for len(sp.axAt) <= d {
					sp.axAt = append(sp.axAt, nil)
				}
				if d > 0 {
					sp.axAt[d] = append(sp.axAt[d], c)
				}
				work = append(work, c)
			}
		}
	}
}

func StartSolver(timeoutMs int) (*SolverProc, error) {
	// z3 4.8.12 runs the incremental push/pop sessions the engine produces about
	// eight times faster than 5.1.0; whatever it does not refute is raced on all
	// three solvers afterwards (RaceFile), so its weaker spots only cost time.
	bin := os.Getenv("GOVC_SOLVER")
	if bin == "" {
		bin = "z3"
	}
	cmd := exec.Command(bin, "-in", "-smt2")
	in, err := cmd.StdinPipe()
	if err != nil {
		return nil, err
	}
	if lf := os.Getenv("GOVC_SOLVERLOG"); lf != "" {
		if f, err := os.Create(lf); err == nil {
			in = teeCloser{in, f}
		}
	}
	outp, err := cmd.StdoutPipe()
	if err != nil {
		return nil, err
	}
	cmd.Stderr = cmd.Stdout
	if err := cmd.Start(); err != nil {
		return nil, err
	}
	sp := &SolverProc{cmd: cmd, in: in, out: bufio.NewReaderSize(outp, 1<<16), tmoMs: timeoutMs, binary: bin}
	fmt.Fprintf(in, "(set-option :timeout %d)\n(set-option :global-declarations true)\n", timeoutMs)
	io.WriteString(in, prelude)
	return sp, nil
}

func (sp *SolverProc) Close() {
	if sp == nil || sp.dead {
		return
	}
	sp.dead = true
	io.WriteString(sp.in, "(exit)\n")
	sp.in.Close()
	done := make(chan struct{})
	go func() { sp.cmd.Wait(); close(done) }()
	select {
	case <-done:
	case <-time.After(2 * time.Second):
		sp.cmd.Process.Kill()
	}
}

// Send writes top-level commands (declarations / axioms).
func (sp *SolverProc) Send(cmds []string) {
	if sp.dead {
		return
	}
	var b strings.Builder
	d := len(sp.stack)
	for len(sp.axAt) <= d {
		sp.axAt = append(sp.axAt, nil)
	}
	for _, c := range cmds {
		sp.noteSyms(c)
		if strings.HasPrefix(c, "(assert") {
			sp.raise(c, &b)
		}
		b.WriteString(c)
		b.WriteByte('\n')
		if d > 0 && strings.HasPrefix(c, "(assert") {
			// popped together with level d: re-asserted then (see popTo)
			sp.axAt[d] = append(sp.axAt[d], c)
		}
	}
	io.WriteString(sp.in, b.String())
}

// popTo pops the solver stack to depth l and re-asserts the (globally valid)
// axioms that had been asserted inside the popped levels.
func (sp *SolverProc) popTo(l int, b *strings.Builder) {
	d := len(sp.stack)
	if d <= l {
		return
	}
	fmt.Fprintf(b, "(pop %d)\n", d-l)
	var moved []string
	for i := l + 1; i <= d && i < len(sp.axAt); i++ {
		moved = append(moved, sp.axAt[i]...)
		sp.axAt[i] = nil
	}
	// symbols numbered above thr were created after level l+1 was pushed: they
	// belong to the subtree that is being abandoned
	thr := sp.maxSym
	if l < len(sp.symAt) {
		thr = sp.symAt[l]
	}
	sp.stack = sp.stack[:l]
	if l < len(sp.symAt) {
		sp.symAt = sp.symAt[:l]
	}
	var kept []string
	for _, c := range moved {
		var young []string
		if os.Getenv("GOVC_NOBURY") == "" {
			for _, m := range freshSymRe.FindAllString(c, -1) {
				if symNumber(m) > thr {
					young = append(young, m)
				}
			}
		}
		if len(young) > 0 {
			if sp.grave == nil {
				sp.grave = map[string][]int{}
			}
			i := len(sp.graveAx)
			sp.graveAx = append(sp.graveAx, c)
			sp.buried = append(sp.buried, true)
			sp.nBuried++
			seen := map[string]bool{}
			for _, m := range young {
				if !seen[m] {
					seen[m] = true
					sp.grave[m] = append(sp.grave[m], i)
				}
			}
			continue
		}
		kept = append(kept, c)
		b.WriteString(c)
		b.WriteByte('\n')
	}
	if l > 0 {
		sp.axAt[l] = append(sp.axAt[l], kept...)
	}
}

// CheckInc asks whether pc ∧ extra is satisfiable, reusing the pushed prefix
// that pc shares with the previous query.
func (sp *SolverProc) CheckInc(pc []string, extra []string) string {
	if sp.dead {
		return "unknown"
	}
	var b strings.Builder
	n := 0
	for n < len(pc) && n < len(sp.stack) && pc[n] == sp.stack[n] {
		n++
	}
	sp.popTo(n, &b)
	for _, e := range pc[n:] {
		sp.symAt = append(sp.symAt, sp.maxSym)
		b.WriteString("(push 1)\n")
		sp.stack = append(sp.stack, e)
		sp.noteSyms(e)
		sp.raise(e, &b)
		b.WriteString("(assert ")
		b.WriteString(e)
		b.WriteString(")\n")
	}
	for len(sp.axAt) <= len(sp.stack) {
		sp.axAt = append(sp.axAt, nil)
	}
	if _, err := io.WriteString(sp.in, b.String()); err != nil {
		sp.dead = true
		return "unknown"
	}
	return sp.Check(extra)
}

var queryCounter int64

// Check asks whether assertions ∧ extra is satisfiable.
func (sp *SolverProc) Check(asserts []string) string {
	if sp.dead {
		return "unknown"
	}
	sp.nq++
	atomic.AddInt64(&queryCounter, 1)
	marker := fmt.Sprintf("#done%d", sp.nq)
	var b strings.Builder
	for _, a := range asserts {
		sp.noteSyms(a)
		sp.raise(a, &b)
	}
	b.WriteString("(push 1)\n")
	for _, a := range asserts {
		b.WriteString("(assert ")
		b.WriteString(a)
		b.WriteString(")\n")
	}
	b.WriteString("(check-sat)\n(pop 1)\n(echo \"" + marker + "\")\n")
	t0 := time.Now()
	if _, err := io.WriteString(sp.in, b.String()); err != nil {
		sp.dead = true
		return "unknown"
	}
	res := "unknown"
	type lineRes struct {
		s   string
		err error
	}
	deadline := time.After(time.Duration(sp.tmoMs)*time.Millisecond*3 + 5*time.Second)
	lines := make(chan lineRes, 16)
	go func() {
		for {
			s, err := sp.out.ReadString('\n')
			lines <- lineRes{s, err}
			if err != nil || strings.TrimSpace(s) == marker {
				return
			}
		}
	}()
	for {
		select {
		case lr := <-lines:
			if lr.err != nil {
				sp.dead = true
				sp.errs = append(sp.errs, "solver died: "+lr.err.Error())
				return "unknown"
			}
			s := strings.TrimSpace(lr.s)
			switch {
			case s == marker:
				sp.secs += time.Since(t0).Seconds()
				return res
			case s == "sat" || s == "unsat" || s == "unknown":
				res = s
			case strings.HasPrefix(s, "(error"):
				sp.errs = append(sp.errs, s)
				if len(sp.errs) < 4 && os.Getenv("GOVC_DEBUG") != "" {
					fmt.Fprintln(os.Stderr, "SOLVER ERROR:", s)
				}
			}
		case <-deadline:
			sp.dead = true
			sp.cmd.Process.Kill()
			sp.errs = append(sp.errs, "solver watchdog fired")
			return "unknown"
		}
	}
}

type RaceResult struct {
	Result string // sat | unsat | unknown
	Solver string
	Output string // raw output after the first line (model / values)
	Secs   float64
	All    map[string]string
}

var solverCmds = [][]string{
	{"z3-new", "-smt2"},
	{"cvc5", "--lang=smt2", "--produce-models"},
	{"z3", "-smt2"},
}

// RaceFile runs the file on all installed solvers and returns the first
// definitive answer. needAll waits for every solver (thorough tier).
func RaceFile(path string, timeout time.Duration, needAll bool) RaceResult {
	type one struct {
		name, res, out string
		secs           float64
	}
	ctx, cancel := context.WithCancel(context.Background())
	defer cancel()
	ch := make(chan one, len(solverCmds))
	for _, sc := range solverCmds {
		sc := sc
		go func() {
			t0 := time.Now()
			args := append([]string{}, sc[1:]...)
			switch sc[0] {
			case "cvc5":
				args = append(args, fmt.Sprintf("--tlimit=%d", timeout.Milliseconds()))
			default:
				args = append(args, fmt.Sprintf("-T:%d", int(timeout.Seconds())+1))
			}
			args = append(args, path)
			c, cc := context.WithTimeout(ctx, timeout+3*time.Second)
			defer cc()
			cmd := exec.CommandContext(c, sc[0], args...)
			var ob bytes.Buffer
			cmd.Stdout = &ob
			cmd.Stderr = &ob
			cmd.Run()
			out := ob.String()
			first := out
			rest := ""
			if i := strings.IndexByte(out, '\n'); i >= 0 {
				first, rest = out[:i], out[i+1:]
			}
			first = strings.TrimSpace(first)
			if first != "sat" && first != "unsat" {
				rest = out
				first = "unknown"
			}
			ch <- one{sc[0], first, rest, time.Since(t0).Seconds()}
		}()
	}
	rr := RaceResult{Result: "unknown", All: map[string]string{}}
	got := 0
	for got < len(solverCmds) {
		o := <-ch
		got++
		rr.All[o.name] = o.res
		if o.res == "sat" || o.res == "unsat" {
			if rr.Result == "unknown" {
				rr.Result, rr.Solver, rr.Output, rr.Secs = o.res, o.name, o.out, o.secs
			} else if rr.Result != o.res {
				rr.Result = "conflict"
			}
			if !needAll {
				return rr
			}
		} else if rr.Result == "unknown" && rr.Output == "" {
			rr.Output = o.out
		}
	}
	return rr
}

func writeQueryFile(dir, name string, decls []string, asserts []string, getValues []string) (string, error) {
	os.MkdirAll(dir, 0o755)
	p := filepath.Join(dir, sanitize(name)+".smt2")
	var b strings.Builder
	b.WriteString(prelude)
	for _, d := range decls {
		b.WriteString(d)
		b.WriteByte('\n')
	}
	for _, a := range asserts {
		b.WriteString("(assert ")
		b.WriteString(a)
		b.WriteString(")\n")
	}
	b.WriteString("(check-sat)\n")
	if len(getValues) > 0 {
		// one get-value per term: a term that fails to evaluate does not spoil the rest
		for _, v := range getValues {
			b.WriteString("(get-value (" + v + "))\n")
		}
	}
	return p, os.WriteFile(p, []byte(b.String()), 0o644)
}

type teeCloser struct {
	io.WriteCloser
	log *os.File
}

func (t teeCloser) Write(p []byte) (int, error) {
	t.log.Write(p)
	return t.WriteCloser.Write(p)
}

func interactiveSolverName() string {
	if b := os.Getenv("GOVC_SOLVER"); b != "" {
		return b
	}
	return "z3"
}
