package main

// Evaluation of contract expressions to SMT terms in a symbolic state.

import (
	"sort"
	"fmt"
	"go/constant"
	"go/types"
	"math/big"
	"strconv"
	"strings"

	"golang.org/x/tools/go/ssa"
)

type EVal struct {
	T    Term
	Ty   types.Type // nil for purely logical values
	Addr *Term      // lazily loaded struct: the value lives at this address (T unset)
}

type Env struct {
	u              *Unit
	st             *State
	old            *State
	fr             *Frame
	oldFr          *Frame
	vars           map[string]EVal
	pkg            *types.Package
	fn             *ssa.Function
	assuming       bool
	key            string // clause key for skolem names
	freshLo        int    // objects with aid > freshLo were allocated since `old`
	depth          int
	inAxiom        bool
	keepUniversals bool
	aliasing       bool // resolving a renamed parameter (no second alias step)
	guard          []Term // conditions under which the expression being evaluated is asserted
	noUniv         bool   // inside a negation / equivalence: foralls here are not facts to retain
	target         *State // state that records universals (the live path state)
}

func (e *Env) with(vars map[string]EVal) *Env {
	n := *e
	n.vars = make(map[string]EVal, len(e.vars)+len(vars))
	for k, v := range e.vars {
		n.vars[k] = v
	}
	for k, v := range vars {
		n.vars[k] = v
	}
	return &n
}

func (e *Env) withGuard(g Term) *Env {
	n := *e
	n.guard = append(append([]Term(nil), e.guard...), g)
	return &n
}

func (e *Env) withoutUniversals() *Env {
	n := *e
	n.noUniv = true
	return &n
}

type evalError struct{ msg string }

func (e evalError) Error() string { return e.msg }

func efail(f string, a ...interface{}) { panic(evalError{fmt.Sprintf(f, a...)}) }

// Eval evaluates a boolean/any expression; errors are returned.
func (e *Env) Eval(x Expr) (v EVal, err error) {
	defer func() {
		if r := recover(); r != nil {
			if ee, ok := r.(evalError); ok {
				err = ee
				return
			}
			panic(r)
		}
	}()
	return e.eval(x), nil
}

func (e *Env) EvalBool(x Expr) (Term, error) {
	v, err := e.Eval(x)
	if err != nil {
		return Term{}, err
	}
	if v.T.Sort != SBool {
		return Term{}, fmt.Errorf("expression is not boolean (sort %s)", v.T.Sort)
	}
	return v.T, nil
}

func sortByName(u *Unit, n string) (Sort, types.Type) {
	switch n {
	case "int":
		return SInt, types.Typ[types.Int]
	case "int32":
		return SInt, types.Typ[types.Int32]
	case "int64":
		return SInt, types.Typ[types.Int64]
	case "byte":
		return SInt, types.Typ[types.Uint8]
	case "nat", "mathint":
		return SInt, nil
	case "bool":
		return SBool, types.Typ[types.Bool]
	case "string":
		return SStr, types.Typ[types.String]
	case "any", "ref", "error", "ptr":
		return SV, nil
	}
	efail("unknown sort name %q", n)
	return "", nil
}

func (e *Env) skolem(name, sortName string) EVal {
	so, ty := sortByName(e.u, sortName)
	// one skolem per (variable name, sort) in a unit: invariants and postconditions
	// that quantify over the same name talk about the same arbitrary index
	c := e.u.Const("sk!"+name+"!"+sanitize(sortName), so)
	found := false
	for _, s := range e.u.skol {
		if s.String() == c.String() {
			found = true
		}
	}
	if !found {
		e.u.skol = append(e.u.skol, c)
		if ty != nil {
			if lo, hi, ok := intRange(ty); ok {
				e.u.Axiom(And(Le(BigLit(lo), c), Le(c, BigLit(hi))))
			}
		}
		if so == SStr {
			e.u.Axiom(Ge(App("slen", SInt, c), IntLit(0)))
		}
	}
	return EVal{T: c, Ty: ty}
}

func (e *Env) eval(x Expr) EVal {
	v := e.evalLazy(x)
	if v.Addr != nil {
		return EVal{T: e.u.load(e.st, *v.Addr, v.Ty), Ty: v.Ty}
	}
	return v
}

func (e *Env) evalLazy(x Expr) EVal {
	u := e.u
	switch x := x.(type) {
	case EInt:
		n, ok := new(big.Int).SetString(x.V, 0)
		if !ok {
			efail("bad integer %q", x.V)
		}
		return EVal{T: BigLit(n)}
	case EStr:
		return EVal{T: u.StrLit(x.V), Ty: types.Typ[types.String]}
	case EChar:
		return EVal{T: IntLit(x.V)}
	case EBool:
		if x.V {
			return EVal{T: True}
		}
		return EVal{T: False}
	case ENil:
		return EVal{T: NilV}
	case EIdent:
		return e.ident(x.Name)
	case EUnary:
		if x.Op == "&" {
			if id, ok := x.X.(EIdent); ok {
				if v := e.ident(id.Name); v.Addr != nil {
					return EVal{T: *v.Addr, Ty: types.NewPointer(v.Ty)}
				}
			}
		}
		switch x.Op {
		case "!":
			v := e.withoutUniversals().eval(x.X)
			e.wantSort(v, SBool, "!")
			return EVal{T: Not(v.T)}
		case "-":
			v := e.eval(x.X)
			e.wantSort(v, SInt, "unary -")
			return EVal{T: Sub(IntLit(0), v.T), Ty: v.Ty}
		case "*":
			v := e.eval(x.X)
			if v.Ty == nil {
				efail("cannot dereference untyped value")
			}
			pt, ok := v.Ty.Underlying().(*types.Pointer)
			if !ok {
				efail("cannot dereference %s", v.Ty)
			}
			return EVal{T: u.load(e.st, v.T, pt.Elem()), Ty: pt.Elem()}
		case "&":
			a, ty := e.addrOf(x.X)
			return EVal{T: a, Ty: types.NewPointer(ty)}
		}
	case EBinary:
		return e.binary(x)
	case ESel:
		// qualified identifier?
		if id, ok := x.X.(EIdent); ok {
			if _, isVar := e.lookupVar(id.Name); !isVar && !e.isLocalName(id.Name) {
				if v, ok := e.qualified(id.Name, x.Name); ok {
					return v
				}
			}
		}
		base := e.evalLazy(x.X)
		return e.selectField(base, x.Name)
	case EIndex:
		base := e.eval(x.X)
		idx := e.eval(x.I)
		return e.index(base, idx)
	case ESlice:
		base := e.eval(x.X)
		if base.T.Sort != SStr {
			efail("slice expressions are supported on strings only")
		}
		lo := IntLit(0)
		hi := u.strLen(base.T)
		if x.Lo != nil {
			lo = e.eval(x.Lo).T
		}
		if x.Hi != nil {
			hi = e.eval(x.Hi).T
		}
		return EVal{T: u.subStr(base.T, lo, hi), Ty: base.Ty}
	case ECall:
		return e.call(x)
	case EForall:
		if x.Exists {
			efail("exists is not supported; use a witness")
		}
		if e.assuming {
			// instantiate at the unit's skolems of that sort
			so, ty := sortByName(u, x.Sort)
			var insts []Term
			for _, sk := range u.skol {
				if sk.Sort == so {
					insts = append(insts, sk)
				}
			}
			out := []Term{}
			for _, t := range insts {
				v := e.with(map[string]EVal{x.Var: {T: t, Ty: ty}}).eval(x.Body)
				out = append(out, v.T)
			}
			if e.keepUniversals && e.st != nil && !e.noUniv {
				// remember the fact: it is instantiated again at terms created later
				// (iteration keys), against the state it was assumed in
				snap := *e
				body := x.Body
				vname := x.Var
				guard := And(e.guard...)
				e.target.Universals = append(e.target.Universals, universal{sort: so, inst: func(t Term) (res Term, ok bool) {
					defer func() {
						if r := recover(); r != nil {
							if _, isEval := r.(evalError); !isEval {
								panic(r)
							}
							ok = false
						}
					}()
					v := snap.with(map[string]EVal{vname: {T: t, Ty: ty}}).eval(body)
					if v.T.Sort != SBool {
						return v.T, false
					}
					return Implies(guard, v.T), true
				}})
			}
			return EVal{T: And(out...)}
		}
		sk := e.skolem(x.Var, x.Sort)
		// facts assumed for all values (requires, loop invariants) hold at this index too
		if e.st != nil {
			for _, un := range e.st.Universals {
				if un.sort == sk.T.Sort {
					key := "uninst:" + sk.T.String() + ":" + fmt.Sprint(len(e.st.PC))
					_ = key
					if f, good := un.inst(sk.T); good {
						e.st.Assume(f)
					}
				}
			}
		}
		return e.with(map[string]EVal{x.Var: sk}).eval(x.Body)
	}
	efail("unsupported expression %T", x)
	return EVal{}
}

func (e *Env) wantSort(v EVal, so Sort, what string) {
	if v.T.Sort != so {
		efail("%s: expected %s, got %s (%s)", what, so, v.T.Sort, v.T)
	}
}

func (e *Env) binary(x EBinary) EVal {
	u := e.u
	switch x.Op {
	case "==>":
		a := e.withoutUniversals().eval(x.X)
		e.wantSort(a, SBool, "==>")
		if isFalse(a.T) {
			return EVal{T: True} // short-circuit: the consequent may not be evaluable on this path
		}
		b := e.withGuard(a.T).eval(x.Y)
		e.wantSort(b, SBool, "==>")
		return EVal{T: Implies(a.T, b.T)}
	case "<==>":
		a, b := e.withoutUniversals().eval(x.X), e.withoutUniversals().eval(x.Y)
		e.wantSort(a, SBool, "<==>")
		e.wantSort(b, SBool, "<==>")
		return EVal{T: Eq(a.T, b.T)}
	case "&&":
		a := e.eval(x.X)
		e.wantSort(a, SBool, "&&")
		if isFalse(a.T) {
			return EVal{T: False}
		}
		b := e.eval(x.Y)
		e.wantSort(b, SBool, "&&")
		return EVal{T: And(a.T, b.T)}
	case "||":
		a := e.withoutUniversals().eval(x.X)
		e.wantSort(a, SBool, "||")
		if isTrue(a.T) {
			return EVal{T: True}
		}
		b := e.withGuard(Not(a.T)).eval(x.Y)
		e.wantSort(b, SBool, "||")
		return EVal{T: Or(a.T, b.T)}
	}
	a, b := e.eval(x.X), e.eval(x.Y)
	switch x.Op {
	case "==", "!=":
		if a.T.Sort != b.T.Sort {
			efail("%s: sort mismatch %s vs %s in (%s %s %s)", x.Op, a.T.Sort, b.T.Sort, a.T, x.Op, b.T)
		}
		if a.T.Sort == SStr {
			// two string literals of the program / contract text: decided here (also lets
			// `||` and `&&` skip alternatives whose locals do not exist at this site)
			if av, aok := u.literalText(a.T); aok {
				if bv, bok := u.literalText(b.T); bok {
					if (av == bv) == (x.Op == "==") {
						return EVal{T: True}
					}
					return EVal{T: False}
				}
			}
			u.strEqFacts(e.st, a.T, b.T)
		}
		if x.Op == "==" {
			return EVal{T: Eq(a.T, b.T)}
		}
		return EVal{T: Neq(a.T, b.T)}
	}
	if a.T.Sort == SStr && b.T.Sort == SStr && x.Op == "+" {
		return EVal{T: u.strConcat(e.st, a.T, b.T), Ty: a.Ty}
	}
	e.wantSort(a, SInt, x.Op)
	e.wantSort(b, SInt, x.Op)
	switch x.Op {
	case "+":
		return EVal{T: Add(a.T, b.T)}
	case "-":
		return EVal{T: Sub(a.T, b.T)}
	case "*":
		return EVal{T: Mul(a.T, b.T)}
	case "/":
		return EVal{T: App("godiv", SInt, a.T, b.T)}
	case "%":
		return EVal{T: App("gomod", SInt, a.T, b.T)}
	case "<":
		return EVal{T: Lt(a.T, b.T)}
	case "<=":
		return EVal{T: Le(a.T, b.T)}
	case ">":
		return EVal{T: Gt(a.T, b.T)}
	case ">=":
		return EVal{T: Ge(a.T, b.T)}
	}
	efail("unsupported operator %s", x.Op)
	return EVal{}
}

// isLocalName: name is a local variable or captured variable of the current frame.
func (e *Env) isLocalName(name string) bool {
	if e.fr == nil {
		return false
	}
	if localAlloc(e.fr.Fn, name) != nil {
		return true
	}
	for _, fv := range e.fr.Fn.FreeVars {
		if fv.Name() == name {
			return true
		}
	}
	return false
}

func (e *Env) lookupVar(name string) (EVal, bool) {
	if v, ok := e.vars[name]; ok {
		return v, true
	}
	return EVal{}, false
}

// localAlloc finds the k-th Alloc named name in the frame's function.
func localAlloc(fn *ssa.Function, name string) *ssa.Alloc {
	want := 1
	if i := strings.Index(name, "#"); i > 0 {
		n, err := strconv.Atoi(name[i+1:])
		if err == nil {
			want = n
			name = name[:i]
		}
	}
	seen := 0
	for _, b := range fn.Blocks {
		for _, in := range b.Instrs {
			if a, ok := in.(*ssa.Alloc); ok && a.Comment == name {
				seen++
				if seen == want {
					return a
				}
			}
		}
	}
	return nil
}

func (e *Env) ident(name string) EVal {
	u := e.u
	if v, ok := e.lookupVar(name); ok {
		return v
	}
	// a parameter that was renamed since the contracts were written: the contract's
	// name still denotes the parameter at the same position (baseline/params.json)
	if !e.aliasing && e.fn != nil {
		if nn, ok := u.P.paramAlias[e.fn][name]; ok {
			sub := *e
			sub.aliasing = true
			suffix := ""
			base := name
			for _, sfx := range []string{"$entry", "$captured"} {
				if strings.HasSuffix(name, sfx) {
					base, suffix = strings.TrimSuffix(name, sfx), sfx
				}
			}
			_ = base
			return sub.ident(nn + suffix)
		}
	}
	// name$captured: the captured variable of that name (when a local shadows it)
	if strings.HasSuffix(name, "$captured") && e.fr != nil {
		base := strings.TrimSuffix(name, "$captured")
		for _, fv := range e.fr.Fn.FreeVars {
			if fv.Name() == base {
				bv := e.fr.Vals[fv]
				el := derefType(fv.Type())
				return EVal{T: u.load(e.st, bv.T, el), Ty: el}
			}
		}
		efail("no captured variable %q", base)
	}
	// local variable of the current frame, or of a frame that encloses it at run time
	// (the function whose contract this is, when the clause is evaluated at a site
	// inside a helper or literal executed in place): the innermost frame that knows
	// the name wins
	undefinedYet := ""
	for f := e.fr; f != nil; f = f.Parent {
		if a := localAlloc(f.Fn, name); a != nil {
			if av, ok := f.Vals[a]; ok {
				el := derefType(a.Type())
				if av.Cell != nil {
					t, _ := u.cellLoad(f, av.Cell)
					return EVal{T: t, Ty: el}
				}
				if _, isSt := isStruct(el); isSt {
					addr := av.T
					return EVal{Ty: el, Addr: &addr} // loaded lazily, field by field
				}
				return EVal{T: u.load(e.st, av.T, el), Ty: el}
			}
			if undefinedYet == "" {
				undefinedYet = name
			}
			continue
		}
		// free variable of a closure: its binding is an address
		for _, fv := range f.Fn.FreeVars {
			if fv.Name() == name {
				bv := f.Vals[fv]
				el := derefType(fv.Type())
				if bv.Cell != nil {
					efail("free variable %q bound to a cell", name)
				}
				return EVal{T: u.load(e.st, bv.T, el), Ty: el}
			}
		}
		// parameters of an enclosing frame that were not spilled to a local
		if f != e.fr {
			if pv, ok := f.Params[name]; ok {
				return EVal{T: pv.T, Ty: f.paramTypes[name]}
			}
		}
	}
	if undefinedYet != "" {
		efail("local %q is not yet defined on this path", name)
	}
	// a variable of an enclosing function that this function literal does not capture:
	// the literal cannot depend on it, so for the literal it is an arbitrary value
	if e.fr != nil && e.fr.Fn != nil {
		for pf := e.fr.Fn.Parent(); pf != nil; pf = pf.Parent() {
			var ty types.Type
			for _, prm := range pf.Params {
				if prm.Name() == name {
					ty = prm.Type()
				}
			}
			if ty == nil {
				if a := localAlloc(pf, name); a != nil {
					ty = derefType(a.Type())
				}
			}
			if ty != nil {
				so := u.P.TW.SortOf(ty)
				if _, isSt := isStruct(ty); !isSt {
					return EVal{T: u.Const("uncaptured_"+sanitize(name), so), Ty: ty}
				}
			}
		}
	}
	// package-level object
	if e.pkg != nil {
		if obj := e.pkg.Scope().Lookup(name); obj != nil {
			return e.object(obj)
		}
	}
	if obj := types.Universe.Lookup(name); obj != nil {
		if c, ok := obj.(*types.Const); ok {
			return e.constObj(c)
		}
	}
	if g, ok := u.P.Ghosts[name]; ok && len(g.Params) == 0 {
		so, ty := sortByName(u, g.Result)
		return EVal{T: u.Const("gh_"+name, so), Ty: ty}
	}
	if m, ok := u.P.Macros[name]; ok && len(m.Params) == 0 {
		return e.eval(m.Body)
	}
	efail("unknown identifier %q", name)
	return EVal{}
}

func (e *Env) constObj(c *types.Const) EVal {
	u := e.u
	switch c.Val().Kind() {
	case constant.Int:
		n, _ := new(big.Int).SetString(c.Val().ExactString(), 10)
		return EVal{T: BigLit(n), Ty: c.Type()}
	case constant.Bool:
		if constant.BoolVal(c.Val()) {
			return EVal{T: True, Ty: c.Type()}
		}
		return EVal{T: False, Ty: c.Type()}
	case constant.String:
		return EVal{T: u.StrLit(constant.StringVal(c.Val())), Ty: c.Type()}
	}
	efail("unsupported constant %s", c.Name())
	return EVal{}
}

func (e *Env) object(obj types.Object) EVal {
	u := e.u
	switch o := obj.(type) {
	case *types.Const:
		return e.constObj(o)
	case *types.Var:
		pkg := u.P.Prog.Package(o.Pkg())
		if pkg == nil {
			efail("package of %s not loaded", o.Name())
		}
		g, ok := pkg.Members[o.Name()].(*ssa.Global)
		if !ok {
			efail("%s is not a package-level variable", o.Name())
		}
		return EVal{T: u.loadGlobal(e.st, g), Ty: o.Type()}
	case *types.Func:
		f := u.P.Prog.FuncValue(o)
		if f == nil {
			efail("no ssa function for %s", o.Name())
		}
		return EVal{T: u.fnAtom(f), Ty: o.Type()}
	}
	efail("unsupported object %s", obj.Name())
	return EVal{}
}

func (e *Env) qualified(pkgName, name string) (EVal, bool) {
	p := e.u.P.pkgByName(e.pkg, pkgName)
	if p == nil {
		return EVal{}, false
	}
	obj := p.Scope().Lookup(name)
	if obj == nil {
		efail("%s.%s not found", pkgName, name)
	}
	return e.object(obj), true
}

func (e *Env) selectField(base EVal, name string) EVal {
	u := e.u
	if base.Ty == nil {
		efail("cannot select .%s on an untyped value", name)
	}
	obj, path, _ := types.LookupFieldOrMethod(base.Ty, true, e.pkgOrNil(), name)
	if obj == nil {
		// try with the field's own package (unexported fields of other in-repo packages)
		obj, path = lookupFieldAnyPkg(base.Ty, name)
	}
	fv, ok := obj.(*types.Var)
	if !ok || fv == nil {
		efail("no field %q in %s", name, base.Ty)
	}
	cur := base
	for _, idx := range path {
		t := cur.Ty
		if cur.Addr != nil {
			// struct living in memory: stay lazy
			st := t.Underlying().(*types.Struct)
			addr := u.fieldAddr(*cur.Addr, t, idx)
			ft := st.Field(idx).Type()
			if _, isSt := isStruct(ft); isSt {
				cur = EVal{Ty: ft, Addr: &addr}
			} else {
				cur = EVal{T: u.loadGhostAware(e.st, addr, ft), Ty: ft}
			}
			continue
		}
		if pt, ok := t.Underlying().(*types.Pointer); ok {
			// field through pointer: load leaf from memory
			st := pt.Elem().Underlying().(*types.Struct)
			addr := u.fieldAddr(cur.T, pt.Elem(), idx)
			ft := st.Field(idx).Type()
			if _, isSt := isStruct(ft); isSt {
				cur = EVal{Ty: ft, Addr: &addr}
			} else {
				cur = EVal{T: u.loadGhostAware(e.st, addr, ft), Ty: ft}
			}
			continue
		}
		stt, ok := t.Underlying().(*types.Struct)
		if !ok {
			efail("cannot select field of %s", t)
		}
		si := u.P.TW.Struct(t)
		u.declStruct(si)
		cur = EVal{T: u.Field(cur.T, si, idx), Ty: stt.Field(idx).Type()}
	}
	return cur
}

func (u *Unit) loadGhostAware(st *State, addr Term, t types.Type) Term { return u.load(st, addr, t) }

func (e *Env) pkgOrNil() *types.Package { return e.pkg }

func lookupFieldAnyPkg(t types.Type, name string) (types.Object, []int) {
	// walk struct fields manually (unexported fields of another package)
	base := t
	if pt, ok := t.Underlying().(*types.Pointer); ok {
		base = pt.Elem()
	}
	st, ok := base.Underlying().(*types.Struct)
	if !ok {
		return nil, nil
	}
	for i := 0; i < st.NumFields(); i++ {
		if st.Field(i).Name() == name {
			return st.Field(i), []int{i}
		}
	}
	for i := 0; i < st.NumFields(); i++ {
		f := st.Field(i)
		if f.Embedded() {
			if o, p := lookupFieldAnyPkg(f.Type(), name); o != nil {
				return o, append([]int{i}, p...)
			}
		}
	}
	return nil, nil
}

// addrOf evaluates an lvalue expression to an address.
func (e *Env) addrOf(x Expr) (Term, types.Type) {
	u := e.u
	switch x := x.(type) {
	case ESel:
		base := e.evalLazy(x.X)
		if base.Ty == nil {
			efail("cannot take address of field of untyped value")
		}
		if base.Addr != nil {
			obj, path := lookupFieldAnyPkg(base.Ty, x.Name)
			if obj == nil || len(path) != 1 {
				efail("no direct field %q in %s", x.Name, base.Ty)
			}
			return u.fieldAddr(*base.Addr, base.Ty, path[0]), obj.Type()
		}
		pt, ok := base.Ty.Underlying().(*types.Pointer)
		if !ok {
			efail("&x.f needs x of pointer type, got %s", base.Ty)
		}
		obj, path := lookupFieldAnyPkg(base.Ty, x.Name)
		if obj == nil || len(path) != 1 {
			efail("no direct field %q in %s", x.Name, base.Ty)
		}
		return u.fieldAddr(base.T, pt.Elem(), path[0]), obj.Type()
	case EIndex:
		base := e.eval(x.X)
		idx := e.eval(x.I)
		if base.Ty == nil {
			efail("cannot index untyped value")
		}
		sl, ok := base.Ty.Underlying().(*types.Slice)
		if !ok {
			efail("&x[i] needs a slice")
		}
		return u.sliceElemAddr(base.T, idx.T), sl.Elem()
	case EIdent:
		if e.fr != nil {
			if a := localAlloc(e.fr.Fn, x.Name); a != nil {
				if av, ok := e.fr.Vals[a]; ok && av.Cell == nil {
					return av.T, derefType(a.Type())
				}
			}
			for _, fv := range e.fr.Fn.FreeVars {
				if fv.Name() == x.Name {
					return e.fr.Vals[fv].T, derefType(fv.Type())
				}
			}
		}
		if e.pkg != nil {
			if obj, ok := e.pkg.Scope().Lookup(x.Name).(*types.Var); ok {
				pkg := u.P.Prog.Package(obj.Pkg())
				if g, ok := pkg.Members[obj.Name()].(*ssa.Global); ok {
					return u.globalAddr(g), obj.Type()
				}
			}
		}
	case EUnary:
		if x.Op == "*" {
			v := e.eval(x.X)
			if v.Ty == nil {
				efail("cannot take &* of untyped value")
			}
			return v.T, derefType(v.Ty)
		}
	}
	efail("not an addressable expression")
	return Term{}, nil
}

func (e *Env) index(base, idx EVal) EVal {
	u := e.u
	if base.T.Sort == SStr {
		return EVal{T: u.strAt(base.T, idx.T), Ty: types.Typ[types.Uint8]}
	}
	if base.Ty == nil {
		efail("cannot index untyped value")
	}
	switch t := base.Ty.Underlying().(type) {
	case *types.Slice:
		return EVal{T: u.load(e.st, u.sliceElemAddr(base.T, idx.T), t.Elem()), Ty: t.Elem()}
	case *types.Map:
		has, val := u.mapLookup(e.st, t, base.T, idx.T)
		return EVal{T: Ite(has, val, u.Zero(t.Elem())), Ty: t.Elem()}
	case *types.Pointer:
		if arr, ok := t.Elem().Underlying().(*types.Array); ok {
			return EVal{T: u.load(e.st, u.elemAddr(base.T, idx.T), arr.Elem()), Ty: arr.Elem()}
		}
	}
	efail("cannot index %s", base.Ty)
	return EVal{}
}

func (e *Env) call(x ECall) EVal {
	u := e.u
	arg := func(i int) EVal {
		if i >= len(x.Args) {
			efail("%s: missing argument %d", x.Fn, i)
		}
		return e.eval(x.Args[i])
	}
	switch x.Fn {
	case "old":
		if e.old == nil {
			efail("old() is not available here")
		}
		n := *e
		n.st = e.old
		if e.oldFr != nil {
			n.fr = e.oldFr
		}
		return n.eval(x.Args[0])
	case "at_lock":
		// at_lock(e): e evaluated in the state right after this function first acquired a
		// mutex (the linearisation point of a method that locks); old(e) if it never locked
		snap := e.st.LockSnap
		if snap == nil {
			snap = e.old
		}
		if snap == nil {
			efail("at_lock() is not available here")
		}
		n := *e
		n.st = snap
		return n.eval(x.Args[0])
	case "len":
		v := arg(0)
		if v.T.Sort == SStr {
			return EVal{T: u.strLen(v.T), Ty: types.Typ[types.Int]}
		}
		if v.Ty != nil {
			if mt, ok := v.Ty.Underlying().(*types.Map); ok {
				return EVal{T: u.mapLenOf(e.st, mt, v.T), Ty: types.Typ[types.Int]}
			}
		}
		l := App("vlen", SInt, v.T)
		u.Axiom(Ge(l, IntLit(0)))
		if v.Ty != nil {
			if sl, ok := v.Ty.Underlying().(*types.Slice); ok {
				sz := types.SizesFor("gc", "amd64").Sizeof(sl.Elem())
				if sz < 1 {
					sz = 1
				}
				u.Axiom(Le(Mul(l, IntLit(sz)), maxInt))
			}
		}
		return EVal{T: l, Ty: types.Typ[types.Int]}
	case "cap":
		v := arg(0)
		return EVal{T: App("vcap", SInt, v.T), Ty: types.Typ[types.Int]}
	case "has":
		m, k := arg(0), arg(1)
		if m.Ty == nil {
			efail("has: untyped map")
		}
		mt, ok := m.Ty.Underlying().(*types.Map)
		if !ok {
			efail("has: not a map")
		}
		h, _ := u.mapLookup(e.st, mt, m.T, k.T)
		return EVal{T: h}
	case "ite":
		nu := e.withoutUniversals()
		c, a, b := nu.eval(x.Args[0]), nu.eval(x.Args[1]), nu.eval(x.Args[2])
		return EVal{T: Ite(c.T, a.T, b.T), Ty: a.Ty}
	case "calls":
		name := ""
		if len(x.Args) == 1 {
			if s, ok := x.Args[0].(EStr); ok {
				name = s.V
			} else {
				name = exprName(x.Args[0])
			}
		}
		if name == "" {
			efail("calls(<designator>)")
		}
		if c, ok := e.st.CallCnt[name]; ok {
			return EVal{T: c}
		}
		return EVal{T: IntLit(0)}
	case "at_return":
		// at_return("designator", e): e evaluated on the heap as it was when the most recent
		// call to designator returned (locals keep their current values)
		name := ""
		if sv, ok := x.Args[0].(EStr); ok {
			name = sv.V
		} else {
			name = exprName(x.Args[0])
		}
		if len(x.Args) < 2 {
			efail("at_return needs a designator and an expression")
		}
		for i := len(e.st.Calls) - 1; i >= 0; i-- {
			ev := e.st.Calls[i]
			for _, d := range ev.Desigs {
				if d != name {
					continue
				}
				if ev.Havoc || ev.Post == nil {
					efail("at_return: the state after the last call to %q is not known here (call inside a cut loop)", name)
				}
				n := *e
				n.st = ev.Post
				return n.eval(x.Args[1])
			}
		}
		efail("lastresult: no call to %q on this path", name)
	case "lastresult":
		// lastresult("designator"[, i]): i-th result of the most recent call to designator on this path
		name := ""
		if sv, ok := x.Args[0].(EStr); ok {
			name = sv.V
		} else {
			name = exprName(x.Args[0])
		}
		idx := 0
		if len(x.Args) > 1 {
			if iv, ok := x.Args[1].(EInt); ok {
				fmt.Sscanf(iv.V, "%d", &idx)
			}
		}
		for i := len(e.st.Calls) - 1; i >= 0; i-- {
			ev := e.st.Calls[i]
			for _, d := range ev.Desigs {
				if d == name && ev.Havoc {
					// the last call may have happened in a loop that was cut here: its result
					// is unknown (a fresh value of the right sort)
					for j := i - 1; j >= 0; j-- {
						for _, d2 := range e.st.Calls[j].Desigs {
							if d2 == name && !e.st.Calls[j].Havoc && idx < len(e.st.Calls[j].Res) {
								var ty types.Type
								if idx < len(e.st.Calls[j].ResTys) {
									ty = e.st.Calls[j].ResTys[idx]
								}
								return EVal{T: ev.havocVal(u, name, idx, e.st.Calls[j].Res[idx].Sort), Ty: ty}
							}
						}
					}
					// no earlier call on this path: take the sort from the function's signature
					if f := u.P.funcByName(e.pkg, name); f != nil && idx < f.Signature.Results().Len() {
						rt := f.Signature.Results().At(idx).Type()
						return EVal{T: ev.havocVal(u, name, idx, u.P.TW.SortOf(rt)), Ty: rt}
					}
					return EVal{T: ev.havocVal(u, name, idx, SV)}
				}
				if d == name {
					if idx < len(ev.Res) {
						var ty types.Type
						if idx < len(ev.ResTys) {
							ty = ev.ResTys[idx]
						}
						return EVal{T: ev.Res[idx], Ty: ty}
					}
					efail("lastresult: call to %s has no result %d", name, idx)
				}
			}
		}
		efail("lastresult: no call to %q on this path", name)
	case "lastarg":
		// lastarg("designator", i): i-th argument (receiver first) of the most recent call
		name := ""
		if sv, ok := x.Args[0].(EStr); ok {
			name = sv.V
		} else {
			name = exprName(x.Args[0])
		}
		idx := 0
		if len(x.Args) > 1 {
			if iv, ok := x.Args[1].(EInt); ok {
				fmt.Sscanf(iv.V, "%d", &idx)
			}
		}
		for i := len(e.st.Calls) - 1; i >= 0; i-- {
			ev := e.st.Calls[i]
			for _, d := range ev.Desigs {
				if d == name && ev.Havoc {
					efail("lastarg(%s): the last call may have happened in a loop that was cut here", name)
				}
				if d == name {
					if idx < len(ev.Args) {
						var ty types.Type
						if idx < len(ev.ArgTys) {
							ty = ev.ArgTys[idx]
						}
						return EVal{T: ev.Args[idx], Ty: ty}
					}
					efail("lastarg: call to %s has no argument %d", name, idx)
				}
			}
		}
		efail("lastarg: no call to %q on this path", name)
	case "called":
		// called("designator"): at least one call so far (the ghost counter, which is a
		// literal on loop-free paths and symbolic after a loop has been cut)
		name := ""
		if sv, ok := x.Args[0].(EStr); ok {
			name = sv.V
		} else {
			name = exprName(x.Args[0])
		}
		if c, ok := e.st.CallCnt[name]; ok {
			return EVal{T: Ge(c, IntLit(1))}
		}
		return EVal{T: False}
	case "fresh":
		v := arg(0)
		if e.assuming {
			u.fresh++
			f := And(Neq(v.T, NilV), Eq(App("aid", SInt, App("aobj", SV, v.T)), IntLit(int64(u.fresh))))
			if v.Ty != nil {
				if _, isSl := v.Ty.Underlying().(*types.Slice); isSl {
					// a fresh slice has a fresh backing array
					u.fresh++
					f = And(f, Eq(App("aid", SInt, App("aobj", SV, App("sptr", SV, v.T))), IntLit(int64(u.fresh))))
				}
			}
			return EVal{T: f}
		}
		return EVal{T: And(Neq(v.T, NilV), Gt(App("aid", SInt, App("aobj", SV, v.T)), IntLit(int64(e.freshLo))))}
	case "wrap_u32":
		v := arg(0)
		return EVal{T: wrapInt(types.Typ[types.Uint32], v.T)}
	case "wrap_i32":
		v := arg(0)
		return EVal{T: wrapInt(types.Typ[types.Int32], v.T)}
	case "lit_contains", "lit_equals":
		// decided by evaluation when the first argument is a string literal of the
		// program text (e.g. a template passed at a call site); otherwise unknown
		sv := arg(0)
		sub, ok := x.Args[1].(EStr)
		if !ok {
			efail("%s(s, \"literal\")", x.Fn)
		}
		if sv.T.Op == "" {
			if txt, isLit := u.litVal[sv.T.A]; isLit || sv.T.A == "emptyStr" {
				var r bool
				if x.Fn == "lit_equals" {
					r = txt == sub.V
				} else {
					r = strings.Contains(txt, sub.V)
				}
				if r {
					return EVal{T: True}
				}
				return EVal{T: False}
			}
		}
		return EVal{T: u.Fresh("lit_unknown", SBool)}
	case "lit_ascii":
		// true iff the argument is a string literal of the program text made of ASCII bytes only
		sv := arg(0)
		if sv.T.Op == "" {
			if txt, isLit := u.litVal[sv.T.A]; isLit || sv.T.A == "emptyStr" {
				for i := 0; i < len(txt); i++ {
					if txt[i] >= 0x80 {
						return EVal{T: False}
					}
				}
				return EVal{T: True}
			}
		}
		return EVal{T: False}
	case "bytes_string":
		// string(b): the content of byte slice b (same function the engine uses for conversions)
		b := arg(0)
		u.Fun("bytes_of", []Sort{SV}, SStr)
		r := App("bytes_of", SStr, b.T)
		u.Axiom(Eq(App("slen", SInt, r), App("vlen", SInt, b.T)))
		return EVal{T: r, Ty: types.Typ[types.String]}
	case "byteat":
		s, i := arg(0), arg(1)
		return EVal{T: u.strAt(s.T, i.T)}
	case "substr":
		s, a, b := arg(0), arg(1), arg(2)
		return EVal{T: u.subStr(s.T, a.T, b.T), Ty: s.Ty}
	case "typeis":
		// typeis(x, "pkg.Type") : dynamic type of interface value x
		v := arg(0)
		s, ok := x.Args[1].(EStr)
		if !ok {
			efail("typeis(x, \"type\")")
		}
		t := u.P.typeByName(e.pkg, e.fn, s.V)
		if t == nil {
			efail("typeis: unknown type %q", s.V)
		}
		_, _, id := u.boxFn(t)
		return EVal{T: Eq(App("tag", SInt, v.T), IntLit(int64(id)))}
	case "unbox":
		v := arg(0)
		s, ok := x.Args[1].(EStr)
		if !ok {
			efail("unbox(x, \"type\")")
		}
		t := u.P.typeByName(e.pkg, e.fn, s.V)
		if t == nil {
			efail("unbox: unknown type %q", s.V)
		}
		fn, so, _ := u.boxFn(t)
		u.Fun(fn, []Sort{so}, SV)
		u.Fun("un"+fn, []Sort{SV}, so)
		return EVal{T: App("un"+fn, so, v.T), Ty: t}
	case "boxed":
		v := arg(0)
		if v.Ty == nil {
			efail("boxed: needs a typed value")
		}
		return EVal{T: u.box(e.st, v.T, v.Ty)}
	case "implements":
		v := arg(0)
		s, ok := x.Args[1].(EStr)
		if !ok {
			efail("implements(x, \"iface\")")
		}
		t := u.P.typeByName(e.pkg, e.fn, s.V)
		if t == nil {
			efail("implements: unknown type %q", s.V)
		}
		u.implFacts(t)
		return EVal{T: And(Neq(v.T, NilV), App(u.implFn(t), SBool, App("tag", SInt, v.T)))}
	case "isfunc":
		// isfunc(v, "name"): v is the function / closure named name
		v := arg(0)
		s, ok := x.Args[1].(EStr)
		if !ok {
			efail("isfunc(v, \"name\")")
		}
		f := u.P.funcByName(e.pkg, s.V)
		if f == nil {
			efail("isfunc: unknown function %q", s.V)
		}
		return EVal{T: Eq(App("clofn", SInt, v.T), IntLit(int64(u.P.fnID(f))))}
	case "isbound":
		// isbound(v, "method"): v is the bound-method value x.method for some receiver x
		v := arg(0)
		sv, ok := x.Args[1].(EStr)
		if !ok {
			efail("isbound(v, \"method\")")
		}
		// (the identity of a bound-method value of M is -fnID(M), see MakeClosure)
		var alts []Term
		var ms []*ssa.Function
		for _, f := range u.P.Funcs {
			if f != nil && f.Name() == sv.V && f.Signature.Recv() != nil && f.Pkg != nil && (e.pkg == nil || f.Pkg.Pkg == e.pkg) {
				ms = append(ms, f)
			}
		}
		sort.Slice(ms, func(i, j int) bool { return ms[i].String() < ms[j].String() })
		for _, f := range ms {
			alts = append(alts, Eq(App("clofn", SInt, v.T), IntLit(int64(-u.P.fnID(f)))))
		}
		return EVal{T: Or(alts...)}
	case "binding":
		// binding(v, i, "sort") : i-th captured value of closure v (addresses for captured variables)
		v := arg(0)
		iv, ok := x.Args[1].(EInt)
		if !ok {
			efail("binding(v, i, sort)")
		}
		so := SV
		var ty types.Type
		if len(x.Args) > 2 {
			if s, ok := x.Args[2].(EStr); ok {
				ty = u.P.typeByName(e.pkg, e.fn, s.V)
				if ty == nil {
					efail("binding: unknown type %q", s.V)
				}
				so = u.P.TW.SortOf(ty)
			}
		}
		fnm := sanitize(fmt.Sprintf("clobind%s_%s", iv.V, so))
		u.Fun(fnm, []Sort{SV}, so)
		return EVal{T: App(fnm, so, v.T), Ty: ty}
	case "addr_of_field":
		efail("use &x.f")
	}
	if h, ok := ghostStateFuncs[x.Fn]; ok {
		args := make([]EVal, len(x.Args))
		for i := range x.Args {
			args[i] = arg(i)
		}
		return h(e, args)
	}
	if m, ok := u.P.Macros[x.Fn]; ok {
		if len(m.Params) != len(x.Args) {
			efail("macro %s: wrong number of arguments", x.Fn)
		}
		if e.depth > 20 {
			efail("macro recursion too deep")
		}
		vars := map[string]EVal{}
		for i, p := range m.Params {
			vars[p] = arg(i)
		}
		n := e.with(vars)
		n.depth = e.depth + 1
		return n.eval(m.Body)
	}
	if g, ok := u.P.Ghosts[x.Fn]; ok && g.State {
		if len(x.Args) != 1 {
			efail("ghost state %s takes one argument", x.Fn)
		}
		rs, rt := sortByName(u, g.Result)
		v := arg(0)
		if v.T.Sort != SV {
			efail("ghost state %s: argument must be a reference", x.Fn)
		}
		gv := u.ghostGet(e.st, "u_"+g.Name, rs, v.T)
		if g.Name == "rd_pos" {
			// representation invariant of the ghost byte stream (every update is made by an
			// assumed reader contract that preserves it)
			u.Fun("gh_rd_tot", []Sort{SV}, SInt)
			e.st.Assume(And(Le(IntLit(0), gv), Le(gv, App("gh_rd_tot", SInt, v.T))))
		}
		return EVal{T: gv, Ty: rt}
	}
	if g, ok := u.P.Ghosts[x.Fn]; ok {
		if len(g.Params) != len(x.Args) {
			efail("ghost %s: wrong number of arguments", x.Fn)
		}
		var sorts []Sort
		var args []Term
		for i, p := range g.Params {
			so, _ := sortByName(u, p)
			v := arg(i)
			if v.T.Sort != so {
				efail("ghost %s: argument %d has sort %s, want %s", x.Fn, i, v.T.Sort, so)
			}
			sorts = append(sorts, so)
			args = append(args, v.T)
		}
		rs, rt := sortByName(u, g.Result)
		u.Fun("gh_"+g.Name, sorts, rs)
		t := App("gh_"+g.Name, rs, args...)
		if rs == SStr {
			u.Axiom(Ge(App("slen", SInt, t), IntLit(0)))
		}
		if !e.inAxiom {
			for _, tr := range u.P.axTriggers[g.Name] {
				if len(tr.vars) != len(args) {
					continue
				}
				key := fmt.Sprintf("axinst:%d:%v", tr.id, args)
				if u.declS[key] {
					continue
				}
				u.declS[key] = true
				bind := map[string]EVal{}
				for i, v := range tr.vars {
					bind[v] = EVal{T: args[i]}
					if args[i].Sort == SInt {
						bind[v] = EVal{T: args[i], Ty: types.Typ[types.Int]}
					}
				}
				sub := e.with(bind)
				sub.assuming = true
				sub.inAxiom = true // no nested instantiation (matching loops)
				func() {
					defer func() {
						if r := recover(); r != nil {
							if _, ok := r.(evalError); !ok {
								panic(r)
							}
						}
					}()
					inst := sub.eval(tr.body)
					if inst.T.Sort == SBool {
						u.Axiom(inst.T)
					}
				}()
			}
		}
		if rt != nil {
			if lo, hi, ok := intRange(rt); ok && g.Result != "int" {
				u.Axiom(And(Le(BigLit(lo), t), Le(t, BigLit(hi))))
			}
		}
		return EVal{T: t, Ty: rt}
	}
	efail("unknown function %q in contract", x.Fn)
	return EVal{}
}

// ghost state accessors (channel histories, locks, contexts)
var ghostStateFuncs = map[string]func(e *Env, a []EVal) EVal{}

func (u *Unit) literalText(t Term) (string, bool) {
	if t.Op != "" {
		return "", false
	}
	if t.A == "emptyStr" {
		return "", true
	}
	v, ok := u.litVal[t.A]
	return v, ok
}
