package main

// Heap model: one SMT array per leaf Go type, indexed by address terms.
// Struct objects are spread over their leaf fields; addresses are built with
// per-field functions `fa_<struct>_<i>` and the element function `ia`.

import (
	"fmt"
	"go/types"
	"sort"
	"strings"
)

func (u *Unit) memKey(t types.Type) (string, Sort) {
	return typeKey(t), u.P.TW.SortOf(t)
}

func (u *Unit) getMem(st *State, key string, elem Sort) Term {
	if _, ok := st.Mem[key]; !ok {
		name := "M0_" + sanitize(key)
		if len(name) > 80 {
			name = fmt.Sprintf("%s_%d", name[:80], len(key))
		}
		st.Mem[key] = u.Const(name, ArrSort(SV, elem))
		st.MemSort[key] = elem
		st.MemEpoch[key] = 0
	}
	// whole-heap havocs are applied lazily, when a key is next touched
	if !strings.HasPrefix(key, "ghost:") {
		for st.MemEpoch[key] < len(st.AllHavocs) {
			h := st.AllHavocs[st.MemEpoch[key]]
			st.MemEpoch[key]++
			u.applyAllHavoc(st, key, h)
		}
	}
	return st.Mem[key]
}

// curMem returns the up-to-date memory term of a key that already exists.
func (u *Unit) curMem(st *State, key string) Term {
	return u.getMem(st, key, st.MemSort[key])
}

func (u *Unit) isAllocAtom(t Term) bool {
	// fv_*: the cell of a captured variable (a whole object of its own)
	return t.Op == "" && (strings.HasPrefix(t.A, "obj!") || strings.HasPrefix(t.A, "glob!") || strings.HasPrefix(t.A, "fv_"))
}

// distinctAddr: syntactic proof that two address terms differ.
func (u *Unit) distinctAddr(a, b Term) bool {
	if a.String() == b.String() {
		return false
	}
	aAlloc, bAlloc := u.isAllocAtom(a), u.isAllocAtom(b)
	if aAlloc && bAlloc {
		return true
	}
	// parameters refer to objects that existed before the call; obj! atoms are
	// allocated by the call
	isParam := func(t Term) bool { return t.Op == "" && (strings.HasPrefix(t.A, "p_") || strings.HasPrefix(t.A, "fv_")) }
	isObj := func(t Term) bool { return t.Op == "" && strings.HasPrefix(t.A, "obj!") }
	if (isParam(a) && isObj(b)) || (isParam(b) && isObj(a)) {
		return true
	}
	isFa := func(t Term) bool { return strings.HasPrefix(t.Op, "fa_") }
	if (aAlloc && (isFa(b) || b.Op == "ia")) || (bAlloc && (isFa(a) || a.Op == "ia")) {
		return true
	}
	if isFa(a) && isFa(b) {
		if a.Op != b.Op {
			return true
		}
		return u.distinctAddr(a.Args[0], b.Args[0])
	}
	if isFa(a) && b.Op == "ia" || isFa(b) && a.Op == "ia" {
		return true
	}
	if a.Op == "ia" && b.Op == "ia" {
		if u.distinctAddr(a.Args[0], b.Args[0]) {
			return true
		}
		x, okx := intVal(a.Args[1])
		y, oky := intVal(b.Args[1])
		if a.Args[0].String() == b.Args[0].String() && okx && oky && x.Cmp(y) != 0 {
			return true
		}
	}
	return false
}

// newObject returns the address of a freshly allocated object.
func (u *Unit) newObject(st *State, prefix string) Term {
	u.fresh++
	name := fmt.Sprintf("obj!%s!%d", sanitize(prefix), u.fresh)
	a := u.Const(name, SV)
	u.Axiom(Eq(App("aid", SInt, a), IntLit(int64(u.fresh))))
	u.Axiom(Eq(App("akind", SInt, a), IntLit(0)))
	u.Axiom(Eq(App("aobj", SV, a), a))
	u.Axiom(Neq(a, NilV))
	st.Fresh[a.String()] = true
	return a
}

func (u *Unit) fieldFn(structT types.Type, idx int) string {
	si := u.P.TW.Struct(structT)
	return fmt.Sprintf("fa_%s_%d", strings.TrimPrefix(string(si.Sort), "S_"), idx)
}

var fieldKindIDs = map[string]int{}

func (u *Unit) fieldAddr(base Term, structT types.Type, idx int) Term {
	fn := u.fieldFn(structT, idx)
	u.Fun(fn, []Sort{SV}, SV)
	t := App(fn, SV, base)
	kid := u.P.fieldKind(fn, structT, idx)
	u.Axiom(Eq(App("abase", SV, t), base))
	u.Axiom(Eq(App("akind", SInt, t), IntLit(int64(kid))))
	u.Axiom(Eq(App("aobj", SV, t), App("aobj", SV, base)))
	u.Axiom(Neq(t, NilV))
	// nesting depth: an address is never (inside) one of its own fields
	u.Axiom(Eq(App("adepth", SInt, t), Add(App("adepth", SInt, base), IntLit(1))))
	return t
}

func (u *Unit) elemAddr(base, idx Term) Term {
	t := App("ia", SV, base, idx)
	u.Axiom(Eq(App("abase", SV, t), base))
	u.Axiom(Eq(App("aidx", SInt, t), idx))
	u.Axiom(Eq(App("akind", SInt, t), IntLit(-1)))
	u.Axiom(Eq(App("aobj", SV, t), App("aobj", SV, base)))
	u.Axiom(Neq(t, NilV))
	u.Axiom(Eq(App("adepth", SInt, t), Add(App("adepth", SInt, base), IntLit(1))))
	return t
}

// sliceElemAddr: address of s[i].
func (u *Unit) sliceElemAddr(s, i Term) Term {
	return u.elemAddr(u.sptrOf(s), Add(u.soffOf(s), i))
}

func (u *Unit) load(st *State, addr Term, t types.Type) Term {
	if st2, ok := isStruct(t); ok {
		si := u.P.TW.Struct(t)
		u.declStruct(si)
		if st2.NumFields() == 0 {
			return Atom(si.Ctor, si.Sort)
		}
		args := make([]Term, st2.NumFields())
		for i := 0; i < st2.NumFields(); i++ {
			args[i] = u.load(st, u.fieldAddr(addr, t, i), st2.Field(i).Type())
		}
		return App(si.Ctor, si.Sort, args...)
	}
	if _, ok := t.Underlying().(*types.Array); ok {
		u.abstracted("whole-array load")
		return u.Fresh("arrval", SV)
	}
	key, so := u.memKey(t)
	m := u.getMem(st, key, so)
	v := u.selectMem(st, m, addr, so, 0)
	if so == SV && v.Op == "select" {
		// everything in this state's memory was allocated before its last mutation
		u.clockFactsAt(st.Clock, v, t, 0)
	}
	return v
}

// clockFacts: allocation clock. A reference found in memory (or in a map / on a
// channel) now was allocated no later than now, so it differs from every
// object allocated later on this path.
func (u *Unit) clockFacts(v Term, t types.Type, depth int) { u.clockFactsAt(u.fresh, v, t, depth) }

func (u *Unit) clockFactsAt(now int, v Term, t types.Type, depth int) {
	if depth > 2 {
		return
	}
	clock := IntLit(int64(now))
	if fromInitialMemory(v) {
		// the value is read from the memory the function was entered with: it refers
		// to an object that existed before the call
		clock = IntLit(0)
	}
	switch tt := t.Underlying().(type) {
	case *types.Interface:
		// an interface value refers (if at all) to an object that exists now
		u.Axiom(Le(App("aid", SInt, App("aobj", SV, v)), clock))
	case *types.Pointer, *types.Map, *types.Chan:
		u.Axiom(Le(App("aid", SInt, App("aobj", SV, v)), clock))
	case *types.Slice:
		u.Axiom(Le(App("aid", SInt, App("aobj", SV, App("sptr", SV, v))), clock))
	case *types.Signature:
		// a closure found in memory was created earlier, and so were the variables it captured
		u.Axiom(Le(App("aid", SInt, App("aobj", SV, v)), clock))
		for i := 0; i < 4; i++ {
			fnm := fmt.Sprintf("clobind%d_V", i)
			u.Fun(fnm, []Sort{SV}, SV)
			u.Axiom(Le(App("aid", SInt, App("aobj", SV, App(fnm, SV, v))), clock))
			// a captured variable is a whole object of its own, never a field or element
			u.Axiom(Eq(App("akind", SInt, App(fnm, SV, v)), IntLit(0)))
		}
	case *types.Struct:
		if v.Sort == SV {
			return
		}
		si := u.P.TW.Struct(t)
		for i := 0; i < tt.NumFields(); i++ {
			switch tt.Field(i).Type().Underlying().(type) {
			case *types.Pointer, *types.Map, *types.Chan, *types.Slice, *types.Struct, *types.Signature, *types.Interface:
				u.clockFactsAt(now, u.Field(v, si, i), tt.Field(i).Type(), depth+1)
			}
		}
	}
}

func (u *Unit) selectMem(st *State, m, addr Term, so Sort, depth int) Term {
	for m.Op == "store" {
		if m.Args[1].String() == addr.String() {
			return m.Args[2]
		}
		if u.distinctAddr(m.Args[1], addr) {
			m = m.Args[0]
			continue
		}
		break
	}
	if m.Op == "" {
		if d, ok := st.Derivs[m.A]; ok && depth < 200 {
			if addr.Op == "" && u.roMaps[addr.A] {
				// content of a read-only map global: no havoc reaches it
				return u.selectMem(st, d.Old, addr, so, depth+1)
			}
			mod := d.Modified(addr)
			if isFalse(mod) {
				return u.selectMem(st, d.Old, addr, so, depth+1)
			}
			sel := App("select", so, m, addr)
			if !isTrue(mod) {
				old := u.selectMem(st, d.Old, addr, so, depth+1)
				u.Axiom(Implies(Not(mod), Eq(sel, old))) // definition of the havocked memory
			}
			if d.NewVal != nil {
				if nv, ok := d.NewVal(addr); ok {
					u.Axiom(Implies(mod, Eq(sel, nv)))
				}
			}
			return sel
		}
	}
	if m.Op == "store" && depth < 200 {
		// the chain could not be resolved syntactically: the solver will, and it
		// then needs the definition of the memory underneath at this address
		b := m
		for b.Op == "store" {
			b = b.Args[0]
		}
		if _, ok := st.Derivs[b.A]; ok && b.Op == "" {
			inner := u.selectMem(st, b, addr, so, depth+1)
			// when the derivation says syntactically that addr was not touched, the value
			// comes back as a select on an older memory and no definition was emitted: the
			// solver, which resolves the store chain itself, still needs to know what the
			// memory underneath holds at addr
			if raw := App("select", so, b, addr); raw.String() != inner.String() {
				u.Axiom(Eq(raw, inner))
			}
		}
	}
	return App("select", so, m, addr)
}

func (u *Unit) store(st *State, addr Term, t types.Type, v Term) {
	if st2, ok := isStruct(t); ok {
		si := u.P.TW.Struct(t)
		for i := 0; i < st2.NumFields(); i++ {
			u.store(st, u.fieldAddr(addr, t, i), st2.Field(i).Type(), u.Field(v, si, i))
		}
		return
	}
	if _, ok := t.Underlying().(*types.Array); ok {
		u.abstracted("whole-array store")
		return
	}
	key, so := u.memKey(t)
	m := u.getMem(st, key, so)
	if v.Sort != so {
		panic(fmt.Sprintf("store: sort mismatch for %s: %s vs %s", key, v.Sort, so))
	}
	st.Clock = u.fresh
	st.Mem[key] = Store(m, addr, v)
}

// havocMem replaces the memory of key by a fresh array equal to the old one
// wherever modified(addr) is false.
func (u *Unit) havocMem(st *State, key string, modified func(addr Term) Term) {
	so, ok := st.MemSort[key]
	if !ok {
		return // never touched on this path: any later first use is unconstrained anyway
	}
	old := u.curMem(st, key)
	nm := u.Fresh("M_"+shorten(sanitize(key), 40), ArrSort(SV, so))
	st.Derivs[nm.A] = &MemDeriv{Old: old, Elem: so, Kind: "frame", Modified: modified}
	st.Mem[key] = nm
}

func shorten(s string, n int) string {
	if len(s) > n {
		return s[len(s)-n:]
	}
	return s
}

// leafKeys lists the memory keys an object of type t occupies.
func (u *Unit) leafKeys(t types.Type, out map[string]bool) {
	if st, ok := isStruct(t); ok {
		for i := 0; i < st.NumFields(); i++ {
			u.leafKeys(st.Field(i).Type(), out)
		}
		return
	}
	if a, ok := t.Underlying().(*types.Array); ok {
		u.leafKeys(a.Elem(), out)
		return
	}
	out[typeKey(t)] = true
}

// ---- maps ----
// A map value is a V reference; its content lives in two ghost memories per
// map type: has : V -> (K -> Bool), val : V -> (K -> E), plus mlen : V -> Int.

func (u *Unit) mapSorts(mt *types.Map) (k, e Sort) {
	return u.P.TW.SortOf(mt.Key()), u.P.TW.SortOf(mt.Elem())
}

func (u *Unit) mapHas(st *State, mt *types.Map, named types.Type) Term {
	ks, _ := u.mapSorts(mt)
	return u.getMem(st, "maphas:"+typeKey(mt), ArrSort(ks, SBool))
}

func (u *Unit) mapValArr(st *State, mt *types.Map) Term {
	ks, es := u.mapSorts(mt)
	return u.getMem(st, "mapval:"+typeKey(mt), ArrSort(ks, es))
}

func (u *Unit) mapLenArr(st *State, mt *types.Map) Term {
	return u.getMem(st, "maplen:"+typeKey(mt), SInt)
}

func (u *Unit) mapHasOf(st *State, mt *types.Map, m Term) Term {
	ks, _ := u.mapSorts(mt)
	return u.selectMem(st, u.mapHas(st, mt, nil), m, ArrSort(ks, SBool), 0)
}

func (u *Unit) mapValOf(st *State, mt *types.Map, m Term) Term {
	ks, es := u.mapSorts(mt)
	return u.selectMem(st, u.mapValArr(st, mt), m, ArrSort(ks, es), 0)
}

func (u *Unit) mapLenOf(st *State, mt *types.Map, m Term) Term {
	l := u.selectMem(st, u.mapLenArr(st, mt), m, SInt, 0)
	u.Axiom(Ge(l, IntLit(0)))
	u.Axiom(Implies(Eq(m, NilV), Eq(l, IntLit(0))))
	return l
}

func (u *Unit) mapLookup(st *State, mt *types.Map, m, k Term) (has Term, val Term) {
	ks, es := u.mapSorts(mt)
	_ = ks
	hasArr := u.mapHasOf(st, mt, m)
	valArr := u.mapValOf(st, mt, m)
	has = Select(hasArr, k, SBool, nil)
	val = Select(valArr, k, es, nil)
	if val.Op == "select" {
		u.clockFactsAt(st.Clock, val, mt.Elem(), 0)
	}
	// nil map has no keys; a present key implies len >= 1
	u.Axiom(Implies(Eq(m, NilV), Not(has)))
	u.Axiom(Implies(has, Ge(u.mapLenOf(st, mt, m), IntLit(1))))
	return has, val
}

func (u *Unit) mapUpdate(st *State, mt *types.Map, m, k, v Term) {
	hasArr := u.mapHasOf(st, mt, m)
	valArr := u.mapValOf(st, mt, m)
	l := u.mapLenOf(st, mt, m)
	had := Select(hasArr, k, SBool, nil)
	kh := "maphas:" + typeKey(mt)
	kv := "mapval:" + typeKey(mt)
	kl := "maplen:" + typeKey(mt)
	st.Clock = u.fresh
	st.Mem[kh] = Store(u.curMem(st, kh), m, Store(hasArr, k, True))
	st.Mem[kv] = Store(u.curMem(st, kv), m, Store(valArr, k, v))
	st.Mem[kl] = Store(u.curMem(st, kl), m, Ite(had, l, Add(l, IntLit(1))))
}

func (u *Unit) mapDelete(st *State, mt *types.Map, m, k Term) {
	hasArr := u.mapHasOf(st, mt, m)
	l := u.mapLenOf(st, mt, m)
	had := Select(hasArr, k, SBool, nil)
	kh := "maphas:" + typeKey(mt)
	kl := "maplen:" + typeKey(mt)
	st.Mem[kh] = Store(u.curMem(st, kh), m, Store(hasArr, k, False))
	st.Mem[kl] = Store(u.curMem(st, kl), m, Ite(had, Sub(l, IntLit(1)), l))
}

func (u *Unit) newMap(st *State, mt *types.Map) Term {
	m := u.newObject(st, "map")
	ks, es := u.mapSorts(mt)
	u.needSort(ArrSort(ks, SBool))
	emptyHas := Atom(fmt.Sprintf("((as const (Array %s Bool)) false)", ks), ArrSort(ks, SBool))
	kh := "maphas:" + typeKey(mt)
	kl := "maplen:" + typeKey(mt)
	u.mapHas(st, mt, nil)
	u.mapLenArr(st, mt)
	u.mapValArr(st, mt)
	_ = es
	st.Mem[kh] = Store(u.curMem(st, kh), m, emptyHas)
	st.Mem[kl] = Store(u.curMem(st, kl), m, IntLit(0))
	return m
}

// notPrivate: addr is not inside a module-private field (an unexported field
// of a struct declared in this module), i.e. code outside the module could
// write it.
func (u *Unit) notPrivate(addr Term) Term {
	u.P.mu.Lock()
	priv := make(map[string]int, len(u.P.privFa))
	for k, v := range u.P.privFa {
		priv[k] = v
	}
	u.P.mu.Unlock()
	cur := addr
	for {
		if strings.HasPrefix(cur.Op, "fa_") {
			if _, ok := priv[cur.Op]; ok {
				return False
			}
			cur = cur.Args[0]
			continue
		}
		if cur.Op == "ia" {
			cur = cur.Args[0]
			continue
		}
		break
	}
	if u.isAllocAtom(cur) {
		return True
	}
	// opaque root: it may itself be (inside) a private field
	// the kind numbers of private fields start at kindPrivate (fieldKind), so the
	// membership test is one comparison instead of a disjunction over every
	// private field of the module
	return Not(Or(Ge(App("akind", SInt, cur), IntLit(kindPrivate)), Ge(App("akind", SInt, App("abase", SV, cur)), IntLit(kindPrivate))))
}

// Field kinds are numbered by class: [1, kindPrivate) ordinary fields,
// [kindPrivate, kindStable) module-private fields, [kindStable, ...) fields
// that are stable (assume_stable types, final fields; these are private too).
const (
	kindPrivate = 1000000
	kindStable  = 2000000
)

// fromInitialMemory: v is (a projection of) a select whose array is an
// initial-memory constant M0_*.
func fromInitialMemory(v Term) bool {
	cur := v
	for {
		switch {
		case cur.Op == "select":
			cur = cur.Args[0]
		case cur.Op == "" :
			return strings.HasPrefix(cur.A, "M0_")
		case len(cur.Args) == 1 && strings.HasPrefix(cur.Op, "S_"): // struct field selector
			cur = cur.Args[0]
		default:
			return false
		}
	}
}

// notStable: addr is not inside a field of an `assume_stable` struct type.
func (u *Unit) notStable(addr Term) Term {
	u.P.mu.Lock()
	st := make(map[string]int, len(u.P.stableFa))
	for k, v := range u.P.stableFa {
		st[k] = v
	}
	u.P.mu.Unlock()
	if len(st) == 0 {
		return True
	}
	cur := addr
	for {
		if strings.HasPrefix(cur.Op, "fa_") {
			if _, ok := st[cur.Op]; ok {
				return False
			}
			cur = cur.Args[0]
			continue
		}
		if cur.Op == "ia" {
			cur = cur.Args[0]
			continue
		}
		break
	}
	if u.isAllocAtom(cur) {
		return True
	}
	return Not(Ge(App("akind", SInt, cur), IntLit(kindStable)))
}

// fieldKind returns the stable small integer of a field-address function and, on
// first sight, classifies the field (module-private / stable / final). All
// struct types declared in the module are registered at load time
// (registerModuleFields) so that the classification every unit sees does not
// depend on which other units happened to run before it.
func (p *Prog) fieldKind(fn string, structT types.Type, idx int) int {
	p.mu.Lock()
	defer p.mu.Unlock()
	kid, ok := p.fieldKinds[fn]
	if ok {
		return kid
	}
	kid = len(p.fieldKinds) + 1
	st, isSt := structT.Underlying().(*types.Struct)
	if !isSt {
		p.fieldKinds[fn] = kid
		return kid
	}
	f := st.Field(idx)
	stable := false
	if nt, ok := structT.(*types.Named); ok && nt.Obj().Pkg() != nil {
		full := nt.Obj().Pkg().Name() + "." + nt.Obj().Name()
		for _, sn := range p.StableTypes {
			if sn == full {
				stable = true
			}
		}
	}
	if p.finalFa[fn] {
		stable = true // proved module-wide (FinalCheck): nobody but the constructor writes it
	}
	private := stable || (!f.Exported() && f.Pkg() != nil && strings.HasPrefix(f.Pkg().Path(), modulePath))
	switch {
	case stable:
		kid += kindStable
	case private:
		kid += kindPrivate
	}
	p.fieldKinds[fn] = kid
	if private {
		if p.privFa == nil {
			p.privFa = map[string]int{}
		}
		p.privFa[fn] = kid
	}
	if stable {
		if p.stableFa == nil {
			p.stableFa = map[string]int{}
		}
		p.stableFa[fn] = kid
	}
	return kid
}

func (p *Prog) registerModuleFields() {
	u := &Unit{P: p}
	var paths []string
	for path := range p.AllPkgs {
		paths = append(paths, path)
	}
	sort.Strings(paths)
	for _, path := range paths {
		pk := p.AllPkgs[path]
		inModule := strings.HasPrefix(path, modulePath)
		names := pk.Scope().Names()
		for _, n := range names {
			tn, ok := pk.Scope().Lookup(n).(*types.TypeName)
			if !ok {
				continue
			}
			st, ok := tn.Type().Underlying().(*types.Struct)
			if !ok {
				continue
			}
			stable := false
			for _, sn := range p.StableTypes {
				if sn == pk.Name()+"."+tn.Name() {
					stable = true
				}
			}
			if !inModule && !stable {
				continue
			}
			if _, isNamed := tn.Type().(*types.Named); !isNamed {
				continue
			}
			if nt := tn.Type().(*types.Named); nt.TypeParams().Len() > 0 {
				continue
			}
			for i := 0; i < st.NumFields(); i++ {
				p.fieldKind(u.fieldFn(tn.Type(), i), tn.Type(), i)
			}
		}
	}
}
