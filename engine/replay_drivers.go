package main

// Hand-written replay drivers for functions whose inputs are structured
// (headers, bodies, wrapper chains). Each turns the solver's model into a Go
// test that runs the REAL function through `go test -overlay` and evaluates
// the failed clause dynamically.

import (
	"fmt"
	"math/big"
	"regexp"
	"strings"
)

var resultConstRe = regexp.MustCompile(`[A-Za-z_][A-Za-z0-9_]*_r[0-9]+![0-9]+`)

// modelInts returns the integer values of all call-result constants in the model.
func modelInts(out string) map[string]*big.Int {
	res := map[string]*big.Int{}
	for k, v := range modelValues(out) {
		if iv, ok := sexpInt(v); ok {
			res[k] = iv
		}
	}
	return res
}

func runDriver(cc *checkCtx, pkgPath, src string, res map[string]interface{}) map[string]interface{} {
	out, cmdline, err := runOverlayTest(cc.p.RepoDir, pkgPath, "zz_govc_replay_test.go", src, "TestZZGovcReplay")
	res["attempted"] = true
	res["command"] = cmdline
	if len(out) > 4000 {
		out = out[:4000]
	}
	res["output"] = out
	res["test_source"] = src
	res["reproduced"] = strings.Contains(out, "GOVC-REPLAY: VIOLATED")
	if err != nil && !strings.Contains(out, "GOVC-REPLAY") {
		res["error"] = err.Error()
	}
	return res
}

func init() {
	replayDrivers["httpgrpc.contextFromHeaders"] = func(cc *checkCtx, rec *obRecord, f *Failure) map[string]interface{} {
		res := map[string]interface{}{"attempted": false}
		v := big.NewInt(0)
		found := false
		for k, iv := range modelInts(f.Race.Output) {
			if strings.HasPrefix(k, "strconv_ParseInt_r0!") {
				v = iv
				found = true
			}
		}
		if !found {
			res["reason"] = "model has no value for the ParseInt result"
			return res
		}
		res["inputs"] = map[string]interface{}{"GRPC-Timeout digits": v.String(), "suffixes tried": "H M S m u n"}
		src := fmt.Sprintf(`package httpgrpc

import (
	"context"
	"math"
	"net/http"
	"testing"
	"time"
)

// The model gives the number in the GRPC-Timeout header; every unit is tried.
// Clause: a non-negative value v with a valid unit gives the handler the
// duration min(v*unit, MaxInt64) (saturating), header strings not of that
// form give no timeout, and nothing panics.
func TestZZGovcReplay(t *testing.T) {
	v := int64(%s)
	units := map[string]time.Duration{"H": time.Hour, "M": time.Minute, "S": time.Second, "m": time.Millisecond, "u": time.Microsecond, "n": time.Nanosecond}
	for suf, unit := range units {
		func() {
			defer func() {
				if r := recover(); r != nil {
					t.Errorf("GOVC-REPLAY: VIOLATED (panic) for %%d%%s: %%v", v, suf, r)
				}
			}()
			h := http.Header{}
			h.Set("GRPC-Timeout", time.Duration(v).String()[:0]+itoa(v)+suf)
			before := time.Now()
			ctx, cancel, err := contextFromHeaders(context.Background(), h)
			defer cancel()
			if err != nil {
				return
			}
			want := time.Duration(math.MaxInt64)
			if v >= 0 && (unit == 0 || v <= math.MaxInt64/int64(unit)) {
				want = time.Duration(v) * unit
			}
			dl, ok := ctx.Deadline()
			if v < 0 {
				return
			}
			if !ok {
				t.Errorf("GOVC-REPLAY: VIOLATED no deadline for %%d%%s", v, suf)
				return
			}
			got := dl.Sub(before)
			// saturation: time.Now().Add saturates as well, so compare with slack
			if want > 200*365*24*time.Hour {
				want = 200 * 365 * 24 * time.Hour
			}
			if got < want-time.Second {
				t.Errorf("GOVC-REPLAY: VIOLATED timeout %%d%%s gives the handler %%v, want at least %%v (wrapped around)", v, suf, got, want)
			}
		}()
	}
}

func itoa(v int64) string {
	neg := v < 0
	if neg {
		v = -v
	}
	s := ""
	for v > 0 || s == "" {
		s = string(rune('0'+v%%10)) + s
		v /= 10
	}
	if neg {
		s = "-" + s
	}
	return s
}
`, v.String())
		return runDriver(cc, modulePath+"/httpgrpc", src, res)
	}
}
