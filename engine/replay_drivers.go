package main

// Hand-written replay drivers for functions whose inputs are structured
// (headers, bodies, wrapper chains). Each turns the solver's model into a Go
// test that runs the REAL function through `go test -overlay` and evaluates
// the failed clause dynamically.

import (
	"fmt"
	"math/big"
	"regexp"
	"strings"
)

var resultConstRe = regexp.MustCompile(`[A-Za-z_][A-Za-z0-9_]*_r[0-9]+![0-9]+`)

// modelInts returns the integer values of all call-result constants in the model.
func modelInts(out string) map[string]*big.Int {
	res := map[string]*big.Int{}
	for k, v := range modelValues(out) {
		if iv, ok := sexpInt(v); ok {
			res[k] = iv
		}
	}
	return res
}

func runDriver(cc *checkCtx, pkgPath, src string, res map[string]interface{}) map[string]interface{} {
	out, cmdline, err := runOverlayTest(cc.p.RepoDir, pkgPath, "zz_govc_replay_test.go", src, "TestZZGovcReplay")
	res["attempted"] = true
	res["command"] = cmdline
	if len(out) > 4000 {
		out = out[:4000]
	}
	res["output"] = out
	res["test_source"] = src
	res["reproduced"] = strings.Contains(out, "GOVC-REPLAY: VIOLATED")
	if err != nil && !strings.Contains(out, "GOVC-REPLAY") {
		res["error"] = err.Error()
	}
	return res
}

func init() {
	replayDrivers["httpgrpc.contextFromHeaders"] = func(cc *checkCtx, rec *obRecord, f *Failure) map[string]interface{} {
		res := map[string]interface{}{"attempted": false}
		v := big.NewInt(0)
		found := false
		for k, iv := range modelInts(f.Race.Output) {
			if strings.HasPrefix(k, "strconv_ParseInt_r0!") {
				v = iv
				found = true
			}
		}
		if !found {
			res["reason"] = "model has no value for the ParseInt result"
			return res
		}
		res["inputs"] = map[string]interface{}{"GRPC-Timeout digits": v.String(), "suffixes tried": "H M S m u n"}
		src := fmt.Sprintf(`package httpgrpc

import (
	"context"
	"math"
	"net/http"
	"testing"
	"time"
)

// The model gives the number in the GRPC-Timeout header; every unit is tried.
// Clause: a non-negative value v with a valid unit gives the handler the
// duration min(v*unit, MaxInt64) (saturating), header strings not of that
// form give no timeout, and nothing panics.
func TestZZGovcReplay(t *testing.T) {
	v := int64(%s)
	units := map[string]time.Duration{"H": time.Hour, "M": time.Minute, "S": time.Second, "m": time.Millisecond, "u": time.Microsecond, "n": time.Nanosecond}
	for suf, unit := range units {
		func() {
			defer func() {
				if r := recover(); r != nil {
					t.Errorf("GOVC-REPLAY: VIOLATED (panic) for %%d%%s: %%v", v, suf, r)
				}
			}()
			h := http.Header{}
			h.Set("GRPC-Timeout", time.Duration(v).String()[:0]+itoa(v)+suf)
			before := time.Now()
			ctx, cancel, err := contextFromHeaders(context.Background(), h)
			defer cancel()
			if err != nil {
				return
			}
			want := time.Duration(math.MaxInt64)
			if v >= 0 && (unit == 0 || v <= math.MaxInt64/int64(unit)) {
				want = time.Duration(v) * unit
			}
			dl, ok := ctx.Deadline()
			if v < 0 {
				return
			}
			if !ok {
				t.Errorf("GOVC-REPLAY: VIOLATED no deadline for %%d%%s", v, suf)
				return
			}
			got := dl.Sub(before)
			// saturation: time.Now().Add saturates as well, so compare with slack
			if want > 200*365*24*time.Hour {
				want = 200 * 365 * 24 * time.Hour
			}
			if got < want-time.Second {
				t.Errorf("GOVC-REPLAY: VIOLATED timeout %%d%%s gives the handler %%v, want at least %%v (wrapped around)", v, suf, got, want)
			}
		}()
	}
}

func itoa(v int64) string {
	neg := v < 0
	if neg {
		v = -v
	}
	s := ""
	for v > 0 || s == "" {
		s = string(rune('0'+v%%10)) + s
		v /= 10
	}
	if neg {
		s = "-" + s
	}
	return s
}
`, v.String())
		return runDriver(cc, modulePath+"/httpgrpc", src, res)
	}
}

const doHttpCallDriver = `package httpgrpc

import (
	"bytes"
	"context"
	"encoding/binary"
	"errors"
	"io"
	"io/ioutil"
	"net/http"
	"net/url"
	"runtime"
	"testing"

	"google.golang.org/grpc"
	"google.golang.org/grpc/codes"
	"google.golang.org/grpc/status"
)

type zzRT struct{ body io.ReadCloser }

func (r zzRT) RoundTrip(req *http.Request) (*http.Response, error) {
	go io.Copy(ioutil.Discard, req.Body)
	return &http.Response{StatusCode: 200, Status: "200 OK", Header: http.Header{}, Body: r.body, Request: req}, nil
}

type zzErrReader struct {
	data []byte
	err  error
}

func (r *zzErrReader) Read(p []byte) (int, error) {
	if len(r.data) == 0 {
		return 0, r.err
	}
	n := copy(p, r.data)
	r.data = r.data[n:]
	return n, nil
}

func zzStream(t *testing.T, body io.Reader) grpc.ClientStream {
	u, _ := url.Parse("http://example.invalid/")
	ch := &Channel{Transport: zzRT{ioutil.NopCloser(body)}, BaseURL: u}
	cs, err := ch.NewStream(context.Background(), &grpc.StreamDesc{ServerStreams: true, ClientStreams: true}, "/svc/M")
	if err != nil {
		t.Fatalf("NewStream: %%v", err)
	}
	return cs
}

func TestZZGovcReplay(t *testing.T) {
	scenario := %q
	sz := int32(%d)
	switch scenario {
	case "alloc":
		// body: one size prefix announcing sz bytes, then nothing. The decoder must not
		// allocate more than the per-message limit on the strength of that prefix.
		var b bytes.Buffer
		binary.Write(&b, binary.BigEndian, sz)
		var m0, m1 runtime.MemStats
		runtime.GC()
		runtime.ReadMemStats(&m0)
		cs := zzStream(t, &b)
		var msg HttpTrailer
		err := cs.RecvMsg(&msg)
		runtime.ReadMemStats(&m1)
		grown := m1.TotalAlloc - m0.TotalAlloc
		if grown > uint64(maxMessageSize) {
			t.Fatalf("GOVC-REPLAY: VIOLATED size prefix %%d made the client allocate %%d bytes (limit %%d); RecvMsg = %%v", sz, grown, maxMessageSize, err)
		}
	case "final-error":
		// the final error published for RecvMsg must be reportable: neither a clean
		// io.EOF for a cut response nor a bare context error
		func() {
			cs := zzStream(t, bytes.NewReader(nil))
			var msg HttpTrailer
			if err := cs.RecvMsg(&msg); err == io.EOF || err == nil {
				t.Errorf("GOVC-REPLAY: VIOLATED response body cut before the trailer frame is reported as a clean end of stream: RecvMsg = %%v", err)
			}
		}()
		for _, ce := range []error{context.Canceled, context.DeadlineExceeded} {
			cs := zzStream(t, &zzErrReader{err: ce})
			var msg HttpTrailer
			err := cs.RecvMsg(&msg)
			if errors.Is(err, ce) && status.Code(err) == codes.Unknown {
				t.Errorf("GOVC-REPLAY: VIOLATED RecvMsg returned the bare context error %%v (status code %%v) instead of a Canceled/DeadlineExceeded status", err, status.Code(err))
			}
		}
	case "clean-eof":
		// body ends cleanly where a frame (at least the trailer) must start
		cs := zzStream(t, bytes.NewReader(nil))
		var msg HttpTrailer
		err := cs.RecvMsg(&msg)
		if err == io.EOF || err == nil {
			t.Fatalf("GOVC-REPLAY: VIOLATED response body cut before the trailer frame is reported as a clean end of stream: RecvMsg = %%v", err)
		}
	case "ctx-error":
		// the body read fails with a bare context error (what net/http returns when the
		// request context is cancelled while the server stalls)
		for _, ce := range []error{context.Canceled, context.DeadlineExceeded} {
			cs := zzStream(t, &zzErrReader{err: ce})
			var msg HttpTrailer
			err := cs.RecvMsg(&msg)
			if errors.Is(err, ce) && status.Code(err) == codes.Unknown {
				t.Fatalf("GOVC-REPLAY: VIOLATED RecvMsg returned the bare context error %%v (status code %%v) instead of a Canceled/DeadlineExceeded status", err, status.Code(err))
			}
		}
	}
}
`

func init() {
	replayDrivers["httpgrpc.(*clientStream).doHttpCall"] = func(cc *checkCtx, rec *obRecord, f *Failure) map[string]interface{} {
		res := map[string]interface{}{"attempted": false}
		scenario := ""
		switch {
		case rec.o.Class == "alloc":
			scenario = "alloc"
		case strings.Contains(rec.o.Name, "truncated_response_is_never_a_clean_end"):
			scenario = "clean-eof"
		case strings.Contains(rec.o.Name, "never_a_bare_context_error"):
			scenario = "ctx-error"
		case strings.Contains(rec.o.Name, "final_error_is_reportable"):
			scenario = "final-error"
		default:
			res["reason"] = "no replay scenario for this obligation of doHttpCall"
			return res
		}
		sz := int64(0)
		if scenario == "alloc" {
			for k, iv := range modelInts(f.Race.Output) {
				if strings.HasPrefix(k, "httpgrpc_readSizePreface_r0!") && iv.IsInt64() {
					sz = iv.Int64()
				}
			}
			// do not replay multi-GiB allocations as is: the minimal violating size is limit+1
			if sz > 100*1024*1024+1 {
				res["model_size"] = sz
				sz = 100*1024*1024 + 1
			}
			if sz <= 0 {
				res["reason"] = "model has no positive size prefix"
				return res
			}
		}
		res["inputs"] = map[string]interface{}{"scenario": scenario, "size_prefix": sz}
		return runDriver(cc, modulePath+"/httpgrpc", fmt.Sprintf(doHttpCallDriver, scenario, sz), res)
	}
}

const interceptDriver = `package grpchan

import (
	"context"
	"errors"
	"testing"

	"google.golang.org/grpc"
	"google.golang.org/grpc/credentials/insecure"
)

// A wrapper chain of the given depth over a lazily dialled *grpc.ClientConn
// (no network is used): the interceptors of the OUTERMOST wrapper must be
// handed the underlying standard gRPC connection.
func TestZZGovcReplay(t *testing.T) {
	cc, err := grpc.Dial("passthrough:///govc-replay", grpc.WithTransportCredentials(insecure.NewCredentials()))
	if err != nil {
		t.Skipf("cannot create a lazy ClientConn: %%v", err)
	}
	defer cc.Close()
	stop := errors.New("stop")
	pass := func(ctx context.Context, method string, req, reply interface{}, c *grpc.ClientConn, invoker grpc.UnaryInvoker, opts ...grpc.CallOption) error {
		return invoker(ctx, method, req, reply, c, opts...)
	}
	passS := func(ctx context.Context, desc *grpc.StreamDesc, c *grpc.ClientConn, method string, streamer grpc.Streamer, opts ...grpc.CallOption) (grpc.ClientStream, error) {
		return streamer(ctx, desc, c, method, opts...)
	}
	for depth := 1; depth <= %d; depth++ {
		var ch grpc.ClientConnInterface = cc
		for i := 1; i < depth; i++ {
			ch = InterceptClientConn(ch, pass, passS)
		}
		var gotU, gotS *grpc.ClientConn
		outer := InterceptClientConn(ch,
			func(ctx context.Context, method string, req, reply interface{}, c *grpc.ClientConn, invoker grpc.UnaryInvoker, opts ...grpc.CallOption) error {
				gotU = c
				return stop
			},
			func(ctx context.Context, desc *grpc.StreamDesc, c *grpc.ClientConn, method string, streamer grpc.Streamer, opts ...grpc.CallOption) (grpc.ClientStream, error) {
				gotS = c
				return nil, stop
			})
		outer.Invoke(context.Background(), "/s/m", nil, nil)
		outer.NewStream(context.Background(), &grpc.StreamDesc{}, "/s/m")
		if gotU != cc {
			t.Errorf("GOVC-REPLAY: VIOLATED depth %%d: unary interceptor got cc=%%v, want the underlying *grpc.ClientConn", depth, gotU)
		}
		if gotS != cc {
			t.Errorf("GOVC-REPLAY: VIOLATED depth %%d: stream interceptor got cc=%%v, want the underlying *grpc.ClientConn", depth, gotS)
		}
	}
}
`

func init() {
	drv := func(cc *checkCtx, rec *obRecord, f *Failure) map[string]interface{} {
		res := map[string]interface{}{"attempted": false}
		if !strings.Contains(rec.o.Name, "connection_is_the_root_grpc_conn") {
			res["reason"] = "no replay scenario for this obligation"
			return res
		}
		res["inputs"] = map[string]interface{}{"wrapper depths tried": "1..4 over a lazily dialled *grpc.ClientConn"}
		return runDriver(cc, modulePath, fmt.Sprintf(interceptDriver, 4), res)
	}
	replayDrivers["grpchan.(*interceptedChannel).NewStream"] = drv
	replayDrivers["grpchan.(*interceptedChannel).Invoke"] = drv
	replayDrivers["grpchan.unwrap"] = drv
}

const invokePeerDriver = `package httpgrpc

import (
	"bytes"
	"context"
	"crypto/tls"
	"io/ioutil"
	"net/http"
	"net/url"
	"testing"

	"google.golang.org/grpc"
	"google.golang.org/grpc/credentials"
	"google.golang.org/grpc/peer"
	"google.golang.org/protobuf/types/known/emptypb"
)

type zzTLSRT struct{}

func (zzTLSRT) RoundTrip(req *http.Request) (*http.Response, error) {
	// what net/http's Transport does for an https URL: the RESPONSE carries the TLS state
	return &http.Response{StatusCode: 200, Status: "200 OK", Header: http.Header{}, Body: ioutil.NopCloser(bytes.NewReader(nil)), Request: req,
		TLS: &tls.ConnectionState{HandshakeComplete: true, ServerName: "example.invalid"}}, nil
}

func TestZZGovcReplay(t *testing.T) {
	u, _ := url.Parse("https://example.invalid/")
	ch := &Channel{Transport: zzTLSRT{}, BaseURL: u}
	var p peer.Peer
	err := ch.Invoke(context.Background(), "/svc/M", &emptypb.Empty{}, &emptypb.Empty{}, grpc.Peer(&p))
	if err != nil {
		t.Fatalf("Invoke: %v", err)
	}
	ti, ok := p.AuthInfo.(credentials.TLSInfo)
	if !ok || !ti.State.HandshakeComplete {
		t.Fatalf("GOVC-REPLAY: VIOLATED unary call over https: peer call option reports AuthInfo=%v, want the TLS info of the connection (addr=%v)", p.AuthInfo, p.Addr)
	}
}
`

func init() {
	replayDrivers["httpgrpc.(*Channel).Invoke"] = func(cc *checkCtx, rec *obRecord, f *Failure) map[string]interface{} {
		res := map[string]interface{}{"attempted": false}
		if strings.Contains(rec.o.Name, "the_method_name_is_appended_to_the_base_path_verbatim") {
			res["inputs"] = map[string]interface{}{"scenario": "method names that are not registered but clean to a registered path"}
			return runDriver(cc, modulePath+"/httpgrpc", methodPathDriver, res)
		}
		if strings.Contains(rec.o.Name, "a_failed_read_of_the_reply_body_is_never_a_bare_context_error") {
			res["inputs"] = map[string]interface{}{"scenario": "the reply body's Read fails with the context error (what net/http's body does when the request context ends mid-body) and the receive of the reader goroutine's signal wins the select"}
			return runDriver(cc, modulePath+"/httpgrpc", invokeBodyCtxErrDriver, res)
		}
		if !strings.Contains(rec.o.Name, "peer_reports_the_connection_tls_state") {
			res["reason"] = "no replay scenario for this obligation"
			return res
		}
		res["inputs"] = map[string]interface{}{"scenario": "https base URL, RoundTripper whose response carries a TLS state, grpc.Peer call option"}
		return runDriver(cc, modulePath+"/httpgrpc", invokePeerDriver, res)
	}
}

const inprocInvokeDriver = `package inprocgrpc

import (
	"context"
	"io"
	"runtime"
	"sync/atomic"
	"testing"
	"time"

	"google.golang.org/grpc"
	"google.golang.org/grpc/codes"
	"google.golang.org/grpc/metadata"
	"google.golang.org/grpc/status"
	"google.golang.org/protobuf/types/known/emptypb"
	"google.golang.org/protobuf/types/known/wrapperspb"
)

var _ = time.Second

type zzResp struct{ emptypb.Empty }

type zzBlockingCloner struct{ entered, release chan struct{} }

func (c zzBlockingCloner) Copy(out, in interface{}) error {
	if _, isReq := in.(*wrapperspb.StringValue); isReq {
		if _, toHandler := out.(*wrapperspb.StringValue); toHandler {
			select {
			case c.entered <- struct{}{}:
			default:
			}
			<-c.release
		}
	}
	return ProtoCloner{}.Copy(out, in)
}
func (c zzBlockingCloner) Clone(in interface{}) (interface{}, error) { return ProtoCloner{}.Clone(in) }

var zzSink int64

func zzChannel(h func(ctx context.Context) (interface{}, error)) *Channel {
	ch := &Channel{}
	ch.RegisterService(&grpc.ServiceDesc{
		ServiceName: "svc",
		HandlerType: (*interface{})(nil),
		Methods: []grpc.MethodDesc{{MethodName: "M", Handler: func(srv interface{}, ctx context.Context, dec func(interface{}) error, _ grpc.UnaryServerInterceptor) (interface{}, error) {
			var in emptypb.Empty
			if err := dec(&in); err != nil {
				return nil, err
			}
			return h(ctx)
		}}},
	}, struct{}{})
	return ch
}

func TestZZGovcReplay(t *testing.T) {
	scenario := %q
	switch scenario {
	case "malformed":
		ch := zzChannel(func(context.Context) (interface{}, error) { return &emptypb.Empty{}, nil })
		for _, m := range []string{"", "foo", "/svc", "svc", "/"} {
			func() {
				defer func() {
					if r := recover(); r != nil {
						t.Errorf("GOVC-REPLAY: VIOLATED Invoke(%%q) panicked: %%v", m, r)
					}
				}()
				err := ch.Invoke(context.Background(), m, &emptypb.Empty{}, &emptypb.Empty{})
				if _, ok := status.FromError(err); !ok || err == nil {
					t.Errorf("GOVC-REPLAY: VIOLATED Invoke(%%q) = %%v, want a status error", m, err)
				}
			}()
		}
	case "handler-context-error":
		for _, ce := range []error{context.DeadlineExceeded, context.Canceled} {
			ce := ce
			ch := zzChannel(func(context.Context) (interface{}, error) { return nil, ce })
			err := ch.Invoke(context.Background(), "/svc/M", &emptypb.Empty{}, &emptypb.Empty{})
			want := codes.DeadlineExceeded
			if ce == context.Canceled {
				want = codes.Canceled
			}
			if status.Code(err) != want {
				t.Errorf("GOVC-REPLAY: VIOLATED handler returned %%v; the caller got %%v (code %%v), want code %%v", ce, err, status.Code(err), want)
			}
		}
	case "request-after-return":
		// The handler starts to decode the request, the caller's context is cancelled
		// while the (blocking) cloner is at work, Invoke returns Canceled, the caller
		// reuses its request message; the cloner then copies what the caller wrote.
		entered, release, seen := make(chan struct{}, 1), make(chan struct{}), make(chan string, 1)
		ch := &Channel{}
		ch.RegisterService(&grpc.ServiceDesc{
			ServiceName: "svc",
			HandlerType: (*interface{})(nil),
			Methods: []grpc.MethodDesc{{MethodName: "M", Handler: func(srv interface{}, ctx context.Context, dec func(interface{}) error, _ grpc.UnaryServerInterceptor) (interface{}, error) {
				var in wrapperspb.StringValue
				if err := dec(&in); err != nil {
					seen <- "decode error: " + err.Error()
					return nil, err
				}
				seen <- in.Value
				return &emptypb.Empty{}, nil
			}}},
		}, struct{}{})
		ch.WithCloner(zzBlockingCloner{entered, release})
		ctx, cancel := context.WithCancel(context.Background())
		req := &wrapperspb.StringValue{Value: "original"}
		go func() {
			select {
			case <-entered: // the handler has started to decode
			case <-time.After(500 * time.Millisecond): // or the request never reaches a copy made after the call started
			}
			cancel()
		}()
		err := ch.Invoke(ctx, "/svc/M", req, &emptypb.Empty{})
		if err == nil {
			t.Logf("the call completed before it could be cancelled")
		}
		req.Value = "REUSED BY THE CALLER" // the call has returned: the caller owns req again
		close(release)
		select {
		case v := <-seen:
			if v == "REUSED BY THE CALLER" {
				t.Fatalf("GOVC-REPLAY: VIOLATED the handler decoded the caller's request message after Invoke had returned (%%v): it saw %%q", err, v)
			}
		case <-time.After(2 * time.Second):
		}
	case "cancel-race":
		// Schedules, not inputs: the caller's context is cancelled at an instant that
		// falls between two frames of the reply while the client loop is not parked.
		// (a) a cloner cancels while the client copies the response: the server
		// goroutine may then abandon the trailers frame and close the channel, and the
		// client's select picks the closed channel: success without trailers.
		// (b) a concurrent goroutine cancels after a varying delay: the server
		// goroutine abandons the data frame after the headers frame was taken: the
		// call returns a bare io.EOF. Both need the race to fall into a window of a
		// few instructions, hence the loop (about 1 in 10^4 runs shows it).
		for i := 0; i < 400000; i++ {
			ctx, cancel := context.WithCancel(context.Background())
			ch := zzChannel(func(hctx context.Context) (interface{}, error) {
				grpc.SetTrailer(hctx, metadata.Pairs("k", "v"))
				return &emptypb.Empty{}, nil
			})
			ch.WithCloner(CopyFunc(func(out, in interface{}) error {
				if _, isResp := out.(*zzResp); isResp {
					cancel()
					runtime.Gosched()
				}
				return nil
			}))
			var tr metadata.MD
			err := ch.Invoke(ctx, "/svc/M", &emptypb.Empty{}, &zzResp{}, grpc.Trailer(&tr))
			cancel()
			if err == io.EOF {
				t.Fatalf("GOVC-REPLAY: VIOLATED run %%d: unary call returned a bare io.EOF", i)
			}
			if err == nil && len(tr["k"]) == 0 {
				t.Fatalf("GOVC-REPLAY: VIOLATED run %%d: call cancelled while the client was copying the response reported success but the handler's trailers are missing (%%v)", i, tr)
			}
		}
		for i := 0; i < 600000; i++ {
			ctx, cancel := context.WithCancel(context.Background())
			ch := zzChannel(func(hctx context.Context) (interface{}, error) {
				grpc.SetHeader(hctx, metadata.Pairs("h", "v"))
				return &emptypb.Empty{}, nil
			})
			n := i %% 3000
			go func() {
				x := 0
				for j := 0; j < n; j++ {
					x += j
				}
				atomic.StoreInt64(&zzSink, int64(x))
				cancel()
			}()
			err := ch.Invoke(ctx, "/svc/M", &emptypb.Empty{}, &emptypb.Empty{})
			if err == io.EOF {
				t.Fatalf("GOVC-REPLAY: VIOLATED run %%d: call cancelled between the headers frame and the response frame returned a bare io.EOF", i)
			}
		}
	}
}
`

func init() {
	replayDrivers["inprocgrpc.(*Channel).Invoke"] = func(cc *checkCtx, rec *obRecord, f *Failure) map[string]interface{} {
		res := map[string]interface{}{"attempted": false}
		scenario := ""
		switch {
		case rec.o.Class == "bounds" || strings.Contains(rec.o.Name, "malformed_name"):
			scenario = "malformed"
		case strings.Contains(rec.o.Name, "never_a_bare_context_error") || strings.Contains(rec.o.Name, "error_frame_is_translated"):
			scenario = "handler-context-error"
		case strings.Contains(rec.o.Name, "borrow:req"):
			scenario = "request-after-return"
		case strings.Contains(rec.o.Name, "never_a_bare_eof") || strings.Contains(rec.o.Name, "success_only_if_the_context_was_live"):
			scenario = "cancel-race"
		default:
			res["reason"] = "no replay scenario for this obligation"
			return res
		}
		res["inputs"] = map[string]interface{}{"scenario": scenario}
		return runDriver(cc, modulePath+"/inprocgrpc", fmt.Sprintf(inprocInvokeDriver, scenario), res)
	}
}

const inprocClientStreamDriver = `package inprocgrpc

import (
	"context"
	"testing"

	"google.golang.org/grpc"
	"google.golang.org/grpc/codes"
	"google.golang.org/grpc/status"
	"google.golang.org/protobuf/types/known/emptypb"
)

// A client-streaming (single response) method whose handler sends its response and
// then FAILS: the caller must see the failure, not success.
func TestZZGovcReplay(t *testing.T) {
	ch := &Channel{}
	ch.RegisterService(&grpc.ServiceDesc{
		ServiceName: "svc",
		HandlerType: (*interface{})(nil),
		Streams: []grpc.StreamDesc{{StreamName: "CS", ClientStreams: true, Handler: func(srv interface{}, ss grpc.ServerStream) error {
			if err := ss.SendMsg(&emptypb.Empty{}); err != nil {
				return err
			}
			return status.Error(codes.DataLoss, "lost after the response was sent")
		}}},
	}, struct{}{})
	cs, err := ch.NewStream(context.Background(), &grpc.StreamDesc{StreamName: "CS", ClientStreams: true}, "/svc/CS")
	if err != nil {
		t.Fatalf("NewStream: %v", err)
	}
	cs.CloseSend()
	var resp emptypb.Empty
	err = cs.RecvMsg(&resp)
	if status.Code(err) != codes.DataLoss {
		t.Fatalf("GOVC-REPLAY: VIOLATED handler sent one response and then returned DataLoss; the caller's RecvMsg returned %v (code %v)", err, status.Code(err))
	}
}
`

func init() {
	replayDrivers["inprocgrpc.(*inProcessClientStream).ensureNoMoreLocked"] = func(cc *checkCtx, rec *obRecord, f *Failure) map[string]interface{} {
		res := map[string]interface{}{"attempted": false}
		if !strings.Contains(rec.o.Name, "a_failure_after_the_message_takes_precedence") {
			res["reason"] = "no replay scenario for this obligation"
			return res
		}
		res["inputs"] = map[string]interface{}{"scenario": "client-streaming handler: SendMsg(response) then return status DataLoss"}
		return runDriver(cc, modulePath+"/inprocgrpc", inprocClientStreamDriver, res)
	}
}

const httpHandlerCtxErrDriver = `package httpgrpc

import (
	"context"
	"net/http"
	"net/http/httptest"
	"net/url"
	"testing"

	"google.golang.org/grpc"
	"google.golang.org/grpc/codes"
	"google.golang.org/grpc/status"
	"google.golang.org/protobuf/types/known/emptypb"
)

// A handler that itself returns a context error (for instance ctx.Err() of a
// timer of its own): the caller must see the matching Canceled /
// DeadlineExceeded code, on the unary and on the streaming path.
func TestZZGovcReplay(t *testing.T) {
	for _, ce := range []error{context.DeadlineExceeded, context.Canceled} {
		ce := ce
		want := codes.DeadlineExceeded
		if ce == context.Canceled {
			want = codes.Canceled
		}
		mux := http.NewServeMux()
		mux.Handle("/svc/U", HandleMethod(struct{}{}, "svc", &grpc.MethodDesc{MethodName: "U", Handler: func(srv interface{}, ctx context.Context, dec func(interface{}) error, _ grpc.UnaryServerInterceptor) (interface{}, error) {
			var in emptypb.Empty
			if err := dec(&in); err != nil {
				return nil, err
			}
			return nil, ce
		}}, nil))
		mux.Handle("/svc/S", HandleStream(struct{}{}, "svc", &grpc.StreamDesc{StreamName: "S", ServerStreams: true, Handler: func(srv interface{}, ss grpc.ServerStream) error {
			var in emptypb.Empty
			if err := ss.RecvMsg(&in); err != nil {
				return err
			}
			return ce
		}}, nil))
		svr := httptest.NewServer(mux)
		u, _ := url.Parse(svr.URL)
		ch := &Channel{Transport: http.DefaultTransport, BaseURL: u}
		if %t {
			err := ch.Invoke(context.Background(), "/svc/U", &emptypb.Empty{}, &emptypb.Empty{})
			if status.Code(err) != want {
				t.Errorf("GOVC-REPLAY: VIOLATED unary handler returned %%v; the caller got %%v (code %%v), want code %%v", ce, err, status.Code(err), want)
			}
		} else {
			cs, err := ch.NewStream(context.Background(), &grpc.StreamDesc{StreamName: "S", ServerStreams: true}, "/svc/S")
			if err != nil {
				t.Fatalf("NewStream: %%v", err)
			}
			if err := cs.SendMsg(&emptypb.Empty{}); err != nil {
				t.Fatalf("SendMsg: %%v", err)
			}
			cs.CloseSend()
			err = cs.RecvMsg(&emptypb.Empty{})
			if status.Code(err) != want {
				t.Errorf("GOVC-REPLAY: VIOLATED stream handler returned %%v; the caller's RecvMsg got %%v (code %%v), want code %%v", ce, err, status.Code(err), want)
			}
		}
		svr.Close()
	}
}
`

func init() {
	for _, unary := range []bool{true, false} {
		unary := unary
		unit := "httpgrpc.handleStream.return"
		if unary {
			unit = "httpgrpc.handleMethod.return"
		}
		replayDrivers[unit] = func(cc *checkCtx, rec *obRecord, f *Failure) map[string]interface{} {
			res := map[string]interface{}{"attempted": false}
			if sc := httpStatusTextScenario(rec.o.Name); sc != "" {
				res["inputs"] = map[string]interface{}{"scenario": sc}
				return runDriver(cc, modulePath+"/httpgrpc", fmt.Sprintf(httpStatusTextDriver, sc), res)
			}
			if strings.Contains(rec.o.Name, "the_final_status_does_not_wait_for_the_clients_request_body") {
				res["inputs"] = map[string]interface{}{"scenario": "bidi handler reads one request and returns Aborted; the client has sent one message, has not called CloseSend, and calls RecvMsg; real HandleStream behind httptest, real Channel"}
				return runDriver(cc, modulePath+"/httpgrpc", httpEarlyReturnDriver, res)
			}
			if !strings.Contains(rec.o.Name, "a_handlers_context_error_has_the_matching_code") {
				res["reason"] = "no replay scenario for this obligation"
				return res
			}
			res["inputs"] = map[string]interface{}{"scenario": "handler returns context.DeadlineExceeded / context.Canceled; real HandleMethod/HandleStream behind httptest, real Channel as client"}
			return runDriver(cc, modulePath+"/httpgrpc", fmt.Sprintf(httpHandlerCtxErrDriver, unary), res)
		}
	}
}

const httpEarlyReturnDriver = `package httpgrpc

import (
	"context"
	"net/http"
	"net/http/httptest"
	"net/url"
	"testing"
	"time"

	"google.golang.org/grpc"
	"google.golang.org/grpc/codes"
	"google.golang.org/grpc/status"
	"google.golang.org/protobuf/types/known/emptypb"
)

// The handler of a bidi stream returns while the client's send side is still open. The
// final status must reach the client without the client having to close its send side.
func TestZZGovcReplay(t *testing.T) {
	mux := http.NewServeMux()
	mux.Handle("/svc/B", HandleStream(struct{}{}, "svc", &grpc.StreamDesc{StreamName: "B", ServerStreams: true, ClientStreams: true, Handler: func(srv interface{}, ss grpc.ServerStream) error {
		if err := ss.RecvMsg(&emptypb.Empty{}); err != nil {
			return err
		}
		return status.Error(codes.Aborted, "handler done early")
	}}, nil))
	svr := httptest.NewServer(mux)
	defer svr.Close()
	u, _ := url.Parse(svr.URL)
	ch := &Channel{Transport: &http.Transport{}, BaseURL: u}
	ctx, cancel := context.WithTimeout(context.Background(), 30*time.Second)
	defer cancel()
	cs, err := ch.NewStream(ctx, &grpc.StreamDesc{StreamName: "B", ServerStreams: true, ClientStreams: true}, "/svc/B")
	if err != nil {
		t.Fatalf("NewStream: %v", err)
	}
	if err := cs.SendMsg(&emptypb.Empty{}); err != nil {
		t.Fatalf("SendMsg: %v", err)
	}
	done := make(chan error, 1)
	go func() { done <- cs.RecvMsg(&emptypb.Empty{}) }()
	select {
	case err := <-done:
		if status.Code(err) != codes.Aborted {
			t.Errorf("GOVC-REPLAY: VIOLATED the handler returned Aborted; RecvMsg returned %v", err)
		}
	case <-time.After(4 * time.Second):
		t.Errorf("GOVC-REPLAY: VIOLATED the handler returned 4 s ago (status Aborted) but the client's RecvMsg is still blocked: the final status is held back until the client closes its send side or its context ends")
		cancel()
	}
}
`

const inprocHandlerEOFDriver = `package inprocgrpc

import (
	"context"
	"io"
	"testing"

	"google.golang.org/grpc"
	"google.golang.org/grpc/codes"
	"google.golang.org/grpc/status"
	"google.golang.org/protobuf/types/known/emptypb"
)

// A streaming handler that returns io.EOF (the classic "return err" after its own
// RecvMsg reported the end of the requests) has FAILED: over the network the caller
// sees code Unknown. The caller must not see io.EOF, which means "completed normally".
func TestZZGovcReplay(t *testing.T) {
	ch := &Channel{}
	ch.RegisterService(&grpc.ServiceDesc{
		ServiceName: "svc",
		HandlerType: (*interface{})(nil),
		Streams: []grpc.StreamDesc{
			{StreamName: "SS", ServerStreams: true, Handler: func(srv interface{}, ss grpc.ServerStream) error {
				var in emptypb.Empty
				for {
					if err := ss.RecvMsg(&in); err != nil {
						return err // io.EOF at the end of the requests
					}
				}
			}},
			{StreamName: "CS", ClientStreams: true, Handler: func(srv interface{}, ss grpc.ServerStream) error {
				if err := ss.SendMsg(&emptypb.Empty{}); err != nil {
					return err
				}
				return io.EOF
			}},
		},
	}, struct{}{})
	cs, err := ch.NewStream(context.Background(), &grpc.StreamDesc{StreamName: "SS", ServerStreams: true}, "/svc/SS")
	if err != nil {
		t.Fatalf("NewStream: %v", err)
	}
	cs.SendMsg(&emptypb.Empty{})
	cs.CloseSend()
	err = cs.RecvMsg(&emptypb.Empty{})
	if err == io.EOF || status.Code(err) != codes.Unknown {
		t.Errorf("GOVC-REPLAY: VIOLATED server-streaming handler returned io.EOF (a failure, code Unknown over the network); the caller's RecvMsg returned %v, which means the call completed successfully", err)
	}
	cs, err = ch.NewStream(context.Background(), &grpc.StreamDesc{StreamName: "CS", ClientStreams: true}, "/svc/CS")
	if err != nil {
		t.Fatalf("NewStream: %v", err)
	}
	cs.CloseSend()
	err = cs.RecvMsg(&emptypb.Empty{})
	if err == nil {
		t.Errorf("GOVC-REPLAY: VIOLATED client-streaming handler sent its response and then returned io.EOF (a failure); the caller's RecvMsg returned nil (success)")
	}
}
`

func init() {
	replayDrivers["inprocgrpc.(*inProcessClientStream).recvMsgLocked"] = func(cc *checkCtx, rec *obRecord, f *Failure) map[string]interface{} {
		res := map[string]interface{}{"attempted": false}
		if !strings.Contains(rec.o.Name, "end_of_stream_is_reported_only_when_the_reply_channel_ended") {
			res["reason"] = "no replay scenario for this obligation"
			return res
		}
		res["inputs"] = map[string]interface{}{"scenario": "streaming handlers that return io.EOF"}
		return runDriver(cc, modulePath+"/inprocgrpc", inprocHandlerEOFDriver, res)
	}
}

func httpStatusTextScenario(ob string) string {
	switch {
	case strings.Contains(ob, "the_status_message_can_be_carried_by_the_frame"):
		return "stream-message-invalid-utf8"
	case strings.Contains(ob, "the_status_message_survives_the_header"):
		return "unary-message-crlf"
	case strings.Contains(ob, "trailer_values_can_be_carried_by_the_frame"):
		return "stream-bin-trailer-not-utf8"
	}
	return ""
}

const httpStatusTextDriver = `package httpgrpc

import (
	"context"
	"net/http"
	"net/http/httptest"
	"net/url"
	"testing"

	"google.golang.org/grpc"
	"google.golang.org/grpc/codes"
	"google.golang.org/grpc/metadata"
	"google.golang.org/grpc/status"
	"google.golang.org/protobuf/types/known/emptypb"
)

// Texts that the HTTP encodings of this package cannot carry. The solver's model
// only says "a text for which the carrier predicate is false"; these are such texts.
func TestZZGovcReplay(t *testing.T) {
	scenario := %q
	msg, trailerVal := "not found", "v"
	switch scenario {
	case "stream-message-invalid-utf8":
		msg = "bad \xff utf8"
	case "unary-message-crlf":
		msg = "line one\nline two "
	case "stream-bin-trailer-not-utf8":
		trailerVal = "\xff\xfe"
	}
	mux := http.NewServeMux()
	mux.Handle("/svc/U", HandleMethod(struct{}{}, "svc", &grpc.MethodDesc{MethodName: "U", Handler: func(srv interface{}, ctx context.Context, dec func(interface{}) error, _ grpc.UnaryServerInterceptor) (interface{}, error) {
		return nil, status.Error(codes.NotFound, msg)
	}}, nil))
	mux.Handle("/svc/S", HandleStream(struct{}{}, "svc", &grpc.StreamDesc{StreamName: "S", ServerStreams: true, Handler: func(srv interface{}, ss grpc.ServerStream) error {
		ss.SetTrailer(metadata.Pairs("k-bin", trailerVal))
		if scenario == "stream-bin-trailer-not-utf8" {
			return nil
		}
		return status.Error(codes.NotFound, msg)
	}}, nil))
	svr := httptest.NewServer(mux)
	defer svr.Close()
	u, _ := url.Parse(svr.URL)
	ch := &Channel{Transport: http.DefaultTransport, BaseURL: u}
	if scenario == "unary-message-crlf" {
		err := ch.Invoke(context.Background(), "/svc/U", &emptypb.Empty{}, &emptypb.Empty{})
		if got := status.Convert(err).Message(); got != msg {
			t.Fatalf("GOVC-REPLAY: VIOLATED unary handler returned NotFound with message %%q; the caller sees message %%q", msg, got)
		}
		return
	}
	cs, err := ch.NewStream(context.Background(), &grpc.StreamDesc{StreamName: "S", ServerStreams: true}, "/svc/S")
	if err != nil {
		t.Fatalf("NewStream: %%v", err)
	}
	cs.SendMsg(&emptypb.Empty{})
	cs.CloseSend()
	err = cs.RecvMsg(&emptypb.Empty{})
	switch scenario {
	case "stream-message-invalid-utf8":
		if status.Code(err) != codes.NotFound {
			t.Fatalf("GOVC-REPLAY: VIOLATED streaming handler returned NotFound with a message that is not valid UTF-8; the caller sees %%v (code %%v): the whole final frame was lost", err, status.Code(err))
		}
	case "stream-bin-trailer-not-utf8":
		if got := cs.Trailer()["k-bin"]; err == nil || err.Error() != "EOF" || len(got) != 1 || got[0] != trailerVal {
			t.Fatalf("GOVC-REPLAY: VIOLATED streaming handler succeeded after setting trailer k-bin=%%q; the caller sees err=%%v trailers=%%q", trailerVal, err, got)
		}
	}
}
`

const invokeBodyCtxErrDriver = `package httpgrpc

import (
	"context"
	"io"
	"net/http"
	"net/url"
	"testing"

	"google.golang.org/grpc/codes"
	"google.golang.org/grpc/status"
	"google.golang.org/protobuf/types/known/emptypb"
)

type zzCtxErrBody struct{ err error }

func (b zzCtxErrBody) Read(p []byte) (int, error) { return 0, b.err }
func (b zzCtxErrBody) Close() error               { return nil }

type zzCtxErrRT struct{ err error }

func (r zzCtxErrRT) RoundTrip(req *http.Request) (*http.Response, error) {
	h := http.Header{}
	h.Set("Content-Type", UnaryRpcContentType_V1)
	return &http.Response{StatusCode: 200, Status: "200 OK", Header: h, Body: io.ReadCloser(zzCtxErrBody{r.err}), Request: req}, nil
}

// The read of the reply body fails with the error of the request context (net/http's
// body does that when the context ends mid-body). Whichever case of Invoke's final
// select wins, the caller must get a status, not the bare context error.
func TestZZGovcReplay(t *testing.T) {
	u, _ := url.Parse("http://example.test/")
	for _, ce := range []error{context.DeadlineExceeded, context.Canceled} {
		ch := &Channel{Transport: zzCtxErrRT{ce}, BaseURL: u}
		err := ch.Invoke(context.Background(), "/svc/U", &emptypb.Empty{}, &emptypb.Empty{})
		want := codes.DeadlineExceeded
		if ce == context.Canceled {
			want = codes.Canceled
		}
		if _, ok := status.FromError(err); !ok || status.Code(err) != want {
			t.Errorf("GOVC-REPLAY: VIOLATED the read of the reply body failed with %v; Invoke returned %v (a status: %v, code %v), want a status with code %v", ce, err, ok, status.Code(err), want)
		}
	}
}
`

// A failed obligation of the frame readers / writers gives a model over the byte-stream
// ghost (rd_pos, rd_at, ...), which says which clause broke but is awkward to read back.
// The replay instead searches a small, stated scope of concrete bodies on the REAL
// decoders for an input that violates the statement of C07: every truncation offset of
// an encoded three-message sequence (server side) and a handful of adversarial size
// prefixes. Bounded search: it finds the failing input when one exists in that scope and
// says so when not.
const framingDriver = `package httpgrpc

import (
	"bytes"
	"encoding/binary"
	"io"
	"io/ioutil"
	"math"
	"net/http"
	"testing"

	"google.golang.org/grpc/encoding"
	grpcproto "google.golang.org/grpc/encoding/proto"
	"google.golang.org/protobuf/types/known/wrapperspb"
)

func TestZZGovcReplay(t *testing.T) {
	codec := encoding.GetCodec(grpcproto.Name)
	defer func() {
		if r := recover(); r != nil {
			t.Fatalf("GOVC-REPLAY: VIOLATED the decoder panicked: %v", r)
		}
	}()
	// --- the size preface alone, on every prefix of 4 bytes and on nothing
	for n := 0; n <= 4; n++ {
		raw := []byte{0x00, 0x00, 0x01, 0x02}[:n]
		v, err := readSizePreface(bytes.NewReader(raw))
		switch {
		case n == 0 && err != io.EOF:
			t.Errorf("GOVC-REPLAY: VIOLATED readSizePreface on an empty body = (%d, %v), want io.EOF", v, err)
		case n > 0 && n < 4 && (err == nil || err == io.EOF):
			t.Errorf("GOVC-REPLAY: VIOLATED readSizePreface on a body cut after %d of the 4 prefix bytes = (%d, %v): a cut prefix must be an error other than the clean end io.EOF", n, v, err)
		case n == 4 && (err != nil || v != 258):
			t.Errorf("GOVC-REPLAY: VIOLATED readSizePreface(00 00 01 02) = (%d, %v), want 258", v, err)
		}
	}
	// --- what the writer produces is what the reader expects
	for _, sz := range []int32{0, 1, 258, -1, -258, math.MaxInt32, math.MinInt32} {
		var b bytes.Buffer
		if err := writeSizePreface(&b, sz); err != nil || b.Len() != 4 || int32(binary.BigEndian.Uint32(b.Bytes())) != sz {
			t.Errorf("GOVC-REPLAY: VIOLATED writeSizePreface(%d) wrote % x (err %v), want the 4-byte big-endian value", sz, b.Bytes(), err)
		}
	}
	// --- a three-message request body, cut at every offset, through the real server stream
	var body bytes.Buffer
	var ends []int
	msgs := []string{"", "one", "a longer second message"}
	for _, m := range msgs {
		if err := writeProtoMessage(&body, codec, wrapperspb.String(m), false); err != nil {
			t.Fatalf("writeProtoMessage: %v", err)
		}
		ends = append(ends, body.Len())
	}
	full := body.Bytes()
	for cut := 0; cut <= len(full); cut++ {
		str := &serverStream{r: &http.Request{Body: ioutil.NopCloser(bytes.NewReader(full[:cut]))}, codec: codec, respStream: true}
		whole := 0
		for whole < len(ends) && ends[whole] <= cut {
			whole++
		}
		onBoundary := cut == 0 || (whole > 0 && ends[whole-1] == cut)
		got := 0
		var last error
		for {
			var m wrapperspb.StringValue
			last = str.RecvMsg(&m)
			if last != nil {
				break
			}
			if got >= len(msgs) || m.Value != msgs[got] {
				t.Fatalf("GOVC-REPLAY: VIOLATED request body cut at %d of %d: message #%d decoded as %q, which was never sent", cut, len(full), got, m.Value)
			}
			got++
		}
		if got != whole {
			t.Fatalf("GOVC-REPLAY: VIOLATED request body cut at %d of %d: %d messages delivered, %d whole frames were in the body", cut, len(full), got, whole)
		}
		if onBoundary && last != io.EOF {
			t.Fatalf("GOVC-REPLAY: VIOLATED request body ending at the frame boundary %d ends with %v, want io.EOF", cut, last)
		}
		if !onBoundary && last == io.EOF {
			t.Fatalf("GOVC-REPLAY: VIOLATED request body cut at %d of %d (inside a frame) is reported as a clean end of stream (io.EOF) after %d messages", cut, len(full), got)
		}
	}
	// --- adversarial size prefixes: rejected, nothing fabricated, nothing read beyond the prefix
	for _, sz := range []int32{-1, math.MinInt32, math.MaxInt32, int32(maxMessageSize) + 1} {
		rd := bytes.NewReader([]byte{1, 2, 3})
		var m wrapperspb.StringValue
		err := readProtoMessage(rd, codec, sz, &m)
		if err == nil {
			t.Errorf("GOVC-REPLAY: VIOLATED readProtoMessage accepted the size %d and decoded %q", sz, m.Value)
		}
	}
	// --- a payload shorter than its prefix is an error and is not decoded
	for short := 0; short < 5; short++ {
		payload, _ := codec.Marshal(wrapperspb.String("abc"))
		var m wrapperspb.StringValue
		err := readProtoMessage(bytes.NewReader(payload[:short]), codec, int32(len(payload)), &m)
		if err == nil || err == io.EOF && short > 0 {
			t.Errorf("GOVC-REPLAY: VIOLATED readProtoMessage with %d of %d payload bytes = %v (decoded %q), want an error that is not the clean end", short, len(payload), err, m.Value)
		}
	}
}
`

func init() {
	for _, unit := range []string{"httpgrpc.readSizePreface", "httpgrpc.writeSizePreface", "httpgrpc.readProtoMessage", "httpgrpc.writeProtoMessage", "httpgrpc.(*serverStream).RecvMsg"} {
		replayDrivers[unit] = func(cc *checkCtx, rec *obRecord, f *Failure) map[string]interface{} {
			res := map[string]interface{}{"attempted": false}
			res["inputs"] = map[string]interface{}{"scenario": "bounded search on the real frame readers/writers: every truncation offset of a three-message request body through serverStream.RecvMsg, every prefix of a size preface, adversarial sizes, short payloads"}
			return runDriver(cc, modulePath+"/httpgrpc", framingDriver, res)
		}
	}
}

const finalizerDriver = `package httpgrpc

import (
	"context"
	"net/http"
	"net/http/httptest"
	"net/url"
	"runtime"
	"testing"
	"time"

	"google.golang.org/grpc"
	"google.golang.org/grpc/status"
	"google.golang.org/protobuf/types/known/emptypb"
)

// A schedule of the garbage collector, not an input: the caller's last use of the
// stream is a RecvMsg that blocks (the handler answers after 300 ms) and a collection
// runs meanwhile. The context never ends and nobody cancels: the call must succeed.
func TestZZGovcReplay(t *testing.T) {
	mux := http.NewServeMux()
	mux.Handle("/svc/S", HandleStream(struct{}{}, "svc", &grpc.StreamDesc{StreamName: "S", ServerStreams: true, Handler: func(srv interface{}, ss grpc.ServerStream) error {
		var in emptypb.Empty
		if err := ss.RecvMsg(&in); err != nil {
			return err
		}
		time.Sleep(300 * time.Millisecond)
		return ss.SendMsg(&emptypb.Empty{})
	}}, nil))
	svr := httptest.NewServer(mux)
	defer svr.Close()
	u, _ := url.Parse(svr.URL)
	ch := &Channel{Transport: http.DefaultTransport, BaseURL: u}
	stop := make(chan struct{})
	defer close(stop)
	go func() {
		for {
			select {
			case <-stop:
				return
			default:
				runtime.GC()
				time.Sleep(time.Millisecond)
			}
		}
	}()
	for i := 0; i < 3; i++ {
		cs, err := ch.NewStream(context.Background(), &grpc.StreamDesc{StreamName: "S", ServerStreams: true}, "/svc/S")
		if err != nil {
			t.Fatalf("NewStream: %v", err)
		}
		cs.SendMsg(&emptypb.Empty{})
		cs.CloseSend()
		if err := cs.RecvMsg(&emptypb.Empty{}); err != nil { // last use of cs
			t.Fatalf("GOVC-REPLAY: VIOLATED run %d: RecvMsg on a live stream whose context never ends returned %v (code %v): the stream's own finalizer cancelled it while the receive was pending", i, err, status.Code(err))
		}
	}
}
`

func init() {
	scanReplayDrivers["type:httpgrpc.clientStreamWrapper/kept_alive_during:"] = func(cc *checkCtx, rec *obRecord) map[string]interface{} {
		res := map[string]interface{}{"attempted": false}
		res["inputs"] = map[string]interface{}{"scenario": "garbage collections while the caller's last use of the stream, a RecvMsg, is blocked"}
		return runDriver(cc, modulePath+"/httpgrpc", finalizerDriver, res)
	}
}

const methodPathDriver = `package httpgrpc

import (
	"context"
	"net/http"
	"net/http/httptest"
	"net/url"
	"sync/atomic"
	"testing"

	"google.golang.org/grpc"
	"google.golang.org/protobuf/types/known/emptypb"
)

// Names that are NOT the registered "/pkg.Svc/M" / "/pkg.Svc/S" but become it when a path
// is cleaned. Such a call must fail with a status error and run no handler (the
// in-process channel answers Unimplemented for every one of them).
func TestZZGovcReplay(t *testing.T) {
	var ran int32
	mux := http.NewServeMux()
	mux.Handle("/base/pkg.Svc/M", HandleMethod(struct{}{}, "pkg.Svc", &grpc.MethodDesc{MethodName: "M", Handler: func(srv interface{}, ctx context.Context, dec func(interface{}) error, _ grpc.UnaryServerInterceptor) (interface{}, error) {
		atomic.AddInt32(&ran, 1)
		return &emptypb.Empty{}, nil
	}}, nil))
	mux.Handle("/base/pkg.Svc/S", HandleStream(struct{}{}, "pkg.Svc", &grpc.StreamDesc{StreamName: "S", ServerStreams: true, Handler: func(srv interface{}, ss grpc.ServerStream) error {
		atomic.AddInt32(&ran, 1)
		return nil
	}}, nil))
	svr := httptest.NewServer(mux)
	defer svr.Close()
	u, _ := url.Parse(svr.URL + "/base")
	ch := &Channel{Transport: http.DefaultTransport, BaseURL: u}
	for _, name := range []string{"/x/../pkg.Svc/M", "/pkg.Svc//M", "/pkg.Svc/./M", "/pkg.Svc/M/", "/../base/pkg.Svc/M"} {
		before := atomic.LoadInt32(&ran)
		err := ch.Invoke(context.Background(), name, &emptypb.Empty{}, &emptypb.Empty{})
		if err == nil || atomic.LoadInt32(&ran) != before {
			t.Errorf("GOVC-REPLAY: VIOLATED unary call to the unregistered method name %q ran the handler of /pkg.Svc/M (err = %v)", name, err)
		}
	}
	for _, name := range []string{"/x/../pkg.Svc/S", "/pkg.Svc//S", "/pkg.Svc/S/"} {
		before := atomic.LoadInt32(&ran)
		cs, err := ch.NewStream(context.Background(), &grpc.StreamDesc{StreamName: "S", ServerStreams: true}, name)
		if err == nil {
			cs.SendMsg(&emptypb.Empty{})
			cs.CloseSend()
			err = cs.RecvMsg(&emptypb.Empty{})
		}
		if atomic.LoadInt32(&ran) != before {
			t.Errorf("GOVC-REPLAY: VIOLATED stream to the unregistered method name %q ran the handler of /pkg.Svc/S (final error %v)", name, err)
		}
	}
}
`

func init() {
	replayDrivers["httpgrpc.(*Channel).NewStream"] = func(cc *checkCtx, rec *obRecord, f *Failure) map[string]interface{} {
		res := map[string]interface{}{"attempted": false}
		if !strings.Contains(rec.o.Name, "the_method_name_is_appended_to_the_base_path_verbatim") {
			res["reason"] = "no replay scenario for this obligation"
			return res
		}
		res["inputs"] = map[string]interface{}{"scenario": "method names that are not registered but clean to a registered path"}
		return runDriver(cc, modulePath+"/httpgrpc", methodPathDriver, res)
	}
}

// Property-level fallback: when an obligation of the property fails and neither a unit
// driver nor the generic driver reproduces it from the solver's model, the real API is
// searched over a small stated scope (both transports, the repository's own test service)
// for a case that violates the property's statement. One run per property and check.
const propertyHarness = `package httpgrpc_test

import (
	"context"
	"io"
	"net/http"
	"net/http/httptest"
	"net/url"
	"testing"

	"google.golang.org/grpc"
	"google.golang.org/grpc/codes"
	"google.golang.org/grpc/metadata"
	"google.golang.org/grpc/status"
	"google.golang.org/protobuf/types/known/anypb"
	"google.golang.org/protobuf/types/known/wrapperspb"

	"github.com/fullstorydev/grpchan"
	"github.com/fullstorydev/grpchan/grpchantesting"
	"github.com/fullstorydev/grpchan/httpgrpc"
	"github.com/fullstorydev/grpchan/inprocgrpc"
)

// Bounded search on the real API: both transports, the repository's own test service.
// Run when an obligation of the property failed and no more specific replay reproduced
// it; finds a failing case when one exists in this (stated) scope.
func TestZZGovcReplay(t *testing.T) {
	scenario := %q
	svr := &grpchantesting.TestServer{}
	reg := grpchan.HandlerMap{}
	grpchantesting.RegisterTestServiceServer(reg, svr)
	var mux http.ServeMux
	httpgrpc.HandleServices(mux.HandleFunc, "/base/", reg, nil, nil)
	hs := httptest.NewServer(&mux)
	defer hs.Close()
	u, _ := url.Parse(hs.URL + "/base/")
	var inproc inprocgrpc.Channel
	grpchantesting.RegisterTestServiceServer(&inproc, svr)
	chans := map[string]grpc.ClientConnInterface{"http": &httpgrpc.Channel{Transport: http.DefaultTransport, BaseURL: u}, "inproc": &inproc}
	for name, ch := range chans {
		cli := grpchantesting.NewTestServiceClient(ch)
		switch scenario {
		case "C02", "C14":
			// every code, with details: unary, server stream (failure before any message), client stream
			det, _ := anypb.New(wrapperspb.String("detail"))
			for c := 1; c <= 18; c++ {
				req := &grpchantesting.Message{Code: int32(c), ErrorDetails: []*anypb.Any{det}}
				_, err := cli.Unary(context.Background(), req)
				zzCheckStatus(t, name+" unary", err, codes.Code(c), 1)
				var oh, ot metadata.MD
				_, err = cli.Unary(context.Background(), req, grpc.Header(&oh), grpc.Trailer(&ot))
				zzCheckStatus(t, name+" unary with header and trailer call options", err, codes.Code(c), 1)
				ss, err := cli.ServerStream(context.Background(), req)
				if err == nil {
					_, err = ss.Recv()
				}
				zzCheckStatus(t, name+" server-stream", err, codes.Code(c), 1)
				cs, err := cli.ClientStream(context.Background())
				if err == nil {
					cs.Send(req)
					_, err = cs.CloseAndRecv()
				}
				zzCheckStatus(t, name+" client-stream", err, codes.Code(c), 1)
			}
			// success is success
			if _, err := cli.Unary(context.Background(), &grpchantesting.Message{Payload: []byte("x")}); err != nil {
				t.Errorf("GOVC-REPLAY: VIOLATED %s unary: successful handler reported as %v", name, err)
			}
			ss, err := cli.ServerStream(context.Background(), &grpchantesting.Message{Count: 2})
			if err == nil {
				n := 0
				for {
					_, err = ss.Recv()
					if err != nil {
						break
					}
					n++
				}
				if err != io.EOF || n != 2 {
					t.Errorf("GOVC-REPLAY: VIOLATED %s server-stream of 2 messages: got %d messages, then %v", name, n, err)
				}
			}
		case "C03":
			bin := string([]byte{0x00, 0x0a, 0xff, 0x80, 'z'})
			hdrs := map[string][]byte{"h1": []byte("v1"), "h2-bin": []byte(bin)}
			tlrs := map[string][]byte{"t1": []byte("w1"), "t2-bin": []byte("ascii only")}
			ctx := metadata.NewOutgoingContext(context.Background(), metadata.Pairs("req1", "a", "req1", "b", "req2-bin", bin))
			actx := metadata.AppendToOutgoingContext(context.Background(), "app1", "x", "app2-bin", bin)
			if aresp, err := cli.Unary(actx, &grpchantesting.Message{}); err != nil || string(aresp.Headers["app1"]) != "x" || string(aresp.Headers["app2-bin"]) != bin {
				t.Errorf("GOVC-REPLAY: VIOLATED %s unary with metadata appended to the outgoing context: err=%v, the handler saw app1=%q app2-bin=%q, sent \"x\" and %q", name, err, aresp.GetHeaders()["app1"], aresp.GetHeaders()["app2-bin"], bin)
			}
			var hd, tr, hd2 metadata.MD
			resp, err := cli.Unary(ctx, &grpchantesting.Message{Headers: hdrs, Trailers: tlrs}, grpc.Header(&hd), grpc.Trailer(&tr), grpc.Header(&hd2))
			if err != nil {
				t.Errorf("GOVC-REPLAY: VIOLATED %s unary with metadata failed: %v", name, err)
				continue
			}
			if string(resp.Headers["req1"]) != "b" || string(resp.Headers["req2-bin"]) != bin {
				t.Errorf("GOVC-REPLAY: VIOLATED %s unary: the handler saw request metadata req1=%q req2-bin=%q, sent [a b] and %q", name, resp.Headers["req1"], resp.Headers["req2-bin"], bin)
			}
			zzCheckMD(t, name+" unary grpc.Header", hd, hdrs)
			zzCheckMD(t, name+" unary second grpc.Header", hd2, hdrs)
			zzCheckMD(t, name+" unary grpc.Trailer", tr, tlrs)
			var shd, str metadata.MD
			ss, err := cli.ServerStream(ctx, &grpchantesting.Message{Headers: hdrs, Trailers: tlrs, Count: 1}, grpc.Header(&shd), grpc.Trailer(&str))
			if err != nil {
				t.Errorf("GOVC-REPLAY: VIOLATED %s server-stream with metadata failed: %v", name, err)
				continue
			}
			h, err := ss.Header()
			if err != nil {
				t.Errorf("GOVC-REPLAY: VIOLATED %s server-stream Header(): %v", name, err)
			}
			zzCheckMD(t, name+" server-stream Header()", h, hdrs)
			for {
				if _, err = ss.Recv(); err != nil {
					break
				}
			}
			if err != io.EOF {
				t.Errorf("GOVC-REPLAY: VIOLATED %s server-stream ended with %v", name, err)
			}
			zzCheckMD(t, name+" server-stream Trailer()", ss.Trailer(), tlrs)
			zzCheckMD(t, name+" server-stream grpc.Header", shd, hdrs)
			zzCheckMD(t, name+" server-stream grpc.Trailer", str, tlrs)
			// trailers of a failed call
			var ftr metadata.MD
			_, err = cli.Unary(ctx, &grpchantesting.Message{Trailers: tlrs, Code: int32(codes.NotFound)}, grpc.Trailer(&ftr))
			if status.Code(err) != codes.NotFound {
				t.Errorf("GOVC-REPLAY: VIOLATED %s failing unary: %v", name, err)
			}
			zzCheckMD(t, name+" failing unary grpc.Trailer", ftr, tlrs)
		case "C12":
			for _, m := range []string{"/grpchantesting.TestService/Unary", "grpchantesting.TestService/Unary"} {
				if err := ch.Invoke(context.Background(), m, &grpchantesting.Message{}, &grpchantesting.Message{}); err != nil {
					t.Errorf("GOVC-REPLAY: VIOLATED %s: the registered method %q fails: %v", name, m, err)
				}
			}
			for _, m := range []string{"", "/", "foo", "/grpchantesting.TestService", "/grpchantesting.TestService/", "/grpchantesting.TestService/Nope", "/nope.Service/Unary", "/grpchantesting.TestService/Unary/", "/grpchantesting.TestService//Unary", "/x/../grpchantesting.TestService/Unary", "/grpchantesting.TestService/ServerStream", "/grpchantesting.TestService/unary", "/grpchantesting.TestService/Unar", "/grpchantesting.TestService/Unaryy"} {
				func() {
					defer func() {
						if r := recover(); r != nil {
							t.Errorf("GOVC-REPLAY: VIOLATED %s: Invoke(%q) panicked: %v", name, m, r)
						}
					}()
					err := ch.Invoke(context.Background(), m, &grpchantesting.Message{Payload: []byte("p")}, &grpchantesting.Message{})
					if _, ok := status.FromError(err); err == nil || !ok {
						t.Errorf("GOVC-REPLAY: VIOLATED %s: unary call to the unregistered name %q returned %v, want a status error", name, m, err)
					}
				}()
			}
			for _, m := range []string{"/grpchantesting.TestService/Unary", "/grpchantesting.TestService/Nope", "/grpchantesting.TestService/ServerStream/", "foo"} {
				cs, err := ch.NewStream(context.Background(), &grpc.StreamDesc{ServerStreams: true}, m)
				if err == nil {
					cs.SendMsg(&grpchantesting.Message{})
					cs.CloseSend()
					err = cs.RecvMsg(&grpchantesting.Message{})
				}
				if _, ok := status.FromError(err); err == nil || err == io.EOF || !ok {
					t.Errorf("GOVC-REPLAY: VIOLATED %s: stream to the name %q, which is no registered streaming method, ended with %v, want a status error", name, m, err)
				}
			}
		}
	}
}

func zzCheckStatus(t *testing.T, what string, err error, code codes.Code, details int) {
	st, ok := status.FromError(err)
	if err == nil || !ok || st.Code() != code || st.Message() != "error" || len(st.Details()) != details {
		t.Errorf("GOVC-REPLAY: VIOLATED %s: handler returned code %v, message \"error\", %d detail(s); the caller sees %v", what, code, details, err)
	}
}

func zzCheckMD(t *testing.T, what string, got metadata.MD, want map[string][]byte) {
	for k, v := range want {
		if vs := got[k]; len(vs) != 1 || vs[0] != string(v) {
			t.Errorf("GOVC-REPLAY: VIOLATED %s: key %q = %q, the handler set %q", what, k, vs, v)
		}
	}
}
`

// The in-process half: aliasing between caller and handler (C06), single-response
// enforcement (C08) and the four cloner adapters (C18).
const propertyHarnessInproc = `package inprocgrpc_test

import (
	"context"
	"io"
	"testing"

	"github.com/jhump/protoreflect/desc"
	"github.com/jhump/protoreflect/dynamic"
	"google.golang.org/grpc/encoding"
	grpcproto "google.golang.org/grpc/encoding/proto"
	"google.golang.org/grpc/status"
	"google.golang.org/protobuf/proto"

	"github.com/fullstorydev/grpchan/grpchantesting"
	"github.com/fullstorydev/grpchan/inprocgrpc"
)

type zzSvc struct {
	grpchantesting.UnimplementedTestServiceServer
	cached    *grpchantesting.Message
	seen      []*grpchantesting.Message
	responses int
	mutated   chan struct{}
}

func (s *zzSvc) Unary(ctx context.Context, req *grpchantesting.Message) (*grpchantesting.Message, error) {
	s.seen = append(s.seen, req)
	if s.responses == 0 {
		return nil, nil
	}
	return s.cached, nil
}

func (s *zzSvc) ServerStream(req *grpchantesting.Message, ss grpchantesting.TestService_ServerStreamServer) error {
	s.seen = append(s.seen, req)
	if s.mutated != nil {
		// send a message, then change it once Send has returned
		m := proto.Clone(s.cached).(*grpchantesting.Message)
		if err := ss.Send(m); err != nil {
			return err
		}
		m.Payload[0] = '!'
		m.Headers["k"][0] = '!'
		close(s.mutated)
		return ss.Send(s.cached)
	}
	for i := 0; i < 2; i++ {
		if err := ss.Send(s.cached); err != nil {
			return err
		}
	}
	return nil
}

func (s *zzSvc) ClientStream(cs grpchantesting.TestService_ClientStreamServer) error {
	for {
		m, err := cs.Recv()
		if err == io.EOF {
			break
		}
		if err != nil {
			return err
		}
		s.seen = append(s.seen, m)
	}
	for i := 0; i < s.responses; i++ {
		if err := cs.SendMsg(s.cached); err != nil {
			return err
		}
	}
	return nil
}

func zzMsg(p string) *grpchantesting.Message {
	return &grpchantesting.Message{Payload: []byte(p), Count: 7, Headers: map[string][]byte{"k": []byte(p)}}
}

// Bounded search on the real in-process channel and cloner adapters.
func TestZZGovcReplay(t *testing.T) {
	scenario := %q
	cloners := map[string]inprocgrpc.Cloner{
		"default":    nil,
		"codec":      inprocgrpc.CodecCloner(encoding.GetCodec(grpcproto.Name)),
		"clone-func": inprocgrpc.CloneFunc(func(in interface{}) (interface{}, error) { return proto.Clone(in.(proto.Message)), nil }),
		"copy-func": inprocgrpc.CopyFunc(func(out, in interface{}) error {
			proto.Reset(out.(proto.Message))
			proto.Merge(out.(proto.Message), in.(proto.Message))
			return nil
		}),
	}
	for cname, cl := range cloners {
		switch scenario {
		case "C18":
			if cl == nil {
				cl = inprocgrpc.ProtoCloner{}
			}
			src := zzMsg("source")
			cp, err := cl.Clone(src)
			if err != nil || !proto.Equal(cp.(proto.Message), src) || cp == interface{}(src) {
				t.Errorf("GOVC-REPLAY: VIOLATED %s cloner: Clone(src) = %v, %v; want an equal, distinct copy", cname, cp, err)
				continue
			}
			cp.(*grpchantesting.Message).Payload[0] = 'X'
			cp.(*grpchantesting.Message).Headers["k"][0] = 'X'
			if !proto.Equal(src, zzMsg("source")) {
				t.Errorf("GOVC-REPLAY: VIOLATED %s cloner: mutating the clone changed the source: %v", cname, src)
			}
			dst := &grpchantesting.Message{Payload: []byte("old"), Count: 99, Trailers: map[string][]byte{"stale": []byte("x")}, Code: 5}
			if err := cl.Copy(dst, src); err != nil || !proto.Equal(dst, src) {
				t.Errorf("GOVC-REPLAY: VIOLATED %s cloner: Copy into a populated destination gives %v (err %v), want exactly %v", cname, dst, err, src)
			}
			empty := &grpchantesting.Message{}
			dst2 := zzMsg("stale")
			if err := cl.Copy(dst2, empty); err != nil || !proto.Equal(dst2, empty) {
				t.Errorf("GOVC-REPLAY: VIOLATED %s cloner: Copy of an empty message into a populated destination gives %v (err %v), want an empty message", cname, dst2, err)
			}
			dst.Payload[0] = 'Y'
			if !proto.Equal(src, zzMsg("source")) {
				t.Errorf("GOVC-REPLAY: VIOLATED %s cloner: mutating the destination of Copy changed the source", cname)
			}
			if cname == "default" {
				if md, err := desc.LoadMessageDescriptorForMessage(&grpchantesting.Message{}); err == nil {
					dm := dynamic.NewMessage(md)
					if err := cl.Copy(dm, src); err != nil {
						t.Errorf("GOVC-REPLAY: VIOLATED default cloner: generated -> dynamic copy failed: %v", err)
					}
					back := &grpchantesting.Message{}
					if err := cl.Copy(back, dm); err != nil || !proto.Equal(back, src) {
						t.Errorf("GOVC-REPLAY: VIOLATED default cloner: dynamic -> generated copy gives %v (err %v)", back, err)
					}
				}
				x := 5
				if _, err := cl.Clone(&x); err == nil {
					t.Errorf("GOVC-REPLAY: VIOLATED default cloner: a pointer to a non-message was cloned without error")
				}
				if err := cl.Copy(&x, src); err == nil {
					t.Errorf("GOVC-REPLAY: VIOLATED default cloner: a message was copied into a pointer to a non-message without error")
				}
			}
		case "C06", "C08":
			svc := &zzSvc{cached: zzMsg("cached response"), responses: 1}
			ch := &inprocgrpc.Channel{}
			if cl != nil {
				ch.WithCloner(cl)
			}
			grpchantesting.RegisterTestServiceServer(ch, svc)
			cli := grpchantesting.NewTestServiceClient(ch)
			if scenario == "C06" {
				req := zzMsg("request")
				resp, err := cli.Unary(context.Background(), req)
				if err != nil {
					t.Errorf("GOVC-REPLAY: VIOLATED %s: unary failed: %v", cname, err)
					continue
				}
				req.Payload[0] = 'X'
				req.Headers["k"][0] = 'X'
				if got := svc.seen[len(svc.seen)-1]; !proto.Equal(got, zzMsg("request")) || got == req {
					t.Errorf("GOVC-REPLAY: VIOLATED %s: the caller changed its request after the unary call returned and the handler's copy changed too: %v", cname, got)
				}
				resp.Payload[0] = 'Z'
				resp.Headers["k"][0] = 'Z'
				if !proto.Equal(svc.cached, zzMsg("cached response")) || resp == svc.cached {
					t.Errorf("GOVC-REPLAY: VIOLATED %s: the caller changed the unary response and the handler's own message changed too: %v", cname, svc.cached)
				}
				reused := zzMsg("stale destination")
				reused.Trailers = map[string][]byte{"stale": []byte("x")}
				if err := ch.Invoke(context.Background(), "/grpchantesting.TestService/Unary", zzMsg("r"), reused); err != nil || !proto.Equal(reused, zzMsg("cached response")) {
					t.Errorf("GOVC-REPLAY: VIOLATED %s: a reused response message holds %v after the call (err %v), want exactly the handler's response", cname, reused, err)
				}
				ss, err := cli.ServerStream(context.Background(), zzMsg("request"))
				if err == nil {
					m1, e1 := ss.Recv()
					m2, e2 := ss.Recv()
					if e1 != nil || e2 != nil || m1 == m2 || m1 == svc.cached {
						t.Errorf("GOVC-REPLAY: VIOLATED %s: server stream delivered shared messages (%p %p handler's %p; errors %v %v)", cname, m1, m2, svc.cached, e1, e2)
					} else {
						m1.Headers["k"][0] = 'Q'
						if !proto.Equal(m2, zzMsg("cached response")) || !proto.Equal(svc.cached, zzMsg("cached response")) {
							t.Errorf("GOVC-REPLAY: VIOLATED %s: changing one received message changed another one or the handler's", cname)
						}
					}
				}
				svc.mutated = make(chan struct{})
				if ms, err := cli.ServerStream(context.Background(), zzMsg("request")); err == nil {
					<-svc.mutated
					if m1, err := ms.Recv(); err != nil || !proto.Equal(m1, zzMsg("cached response")) {
						t.Errorf("GOVC-REPLAY: VIOLATED %s: the handler changed a message after its Send had returned and the caller received the changed one: %v (err %v)", cname, m1, err)
					}
					ms.Recv()
					ms.Recv()
				}
				svc.mutated = nil
				cs, err := cli.ClientStream(context.Background())
				if err == nil {
					m := zzMsg("first")
					cs.Send(m)
					m.Payload[0] = 'X'
					cs.Send(m)
					cs.CloseAndRecv()
					n := len(svc.seen)
					if n < 2 || string(svc.seen[n-2].Payload) != "first" || string(svc.seen[n-1].Payload) != "Xirst" {
						t.Errorf("GOVC-REPLAY: VIOLATED %s: a message changed and re-sent after Send returned reached the handler as %q, %q", cname, svc.seen[n-2].GetPayload(), svc.seen[n-1].GetPayload())
					}
				}
			} else {
				for _, n := range []int{0, 2, 3} {
					svc.responses = n
					if n == 0 {
						if _, err := cli.Unary(context.Background(), zzMsg("r")); err == nil {
							t.Errorf("GOVC-REPLAY: VIOLATED %s: a unary handler that returned neither response nor error was reported as success", cname)
						} else if _, ok := status.FromError(err); !ok {
							t.Errorf("GOVC-REPLAY: VIOLATED %s: a unary handler that returned nothing gives the non-status error %v", cname, err)
						}
					}
					cs, err := cli.ClientStream(context.Background())
					if err != nil {
						continue
					}
					cs.Send(zzMsg("r"))
					if _, err := cs.CloseAndRecv(); err == nil {
						t.Errorf("GOVC-REPLAY: VIOLATED %s: a client-streaming handler that sent %d responses was reported as success", cname, n)
					}
				}
				svc.responses = 1
				cs, err := cli.ClientStream(context.Background())
				if err == nil {
					cs.Send(zzMsg("r"))
					if m, err := cs.CloseAndRecv(); err != nil || !proto.Equal(m, zzMsg("cached response")) {
						t.Errorf("GOVC-REPLAY: VIOLATED %s: a client-streaming handler that sent exactly one response gives %v, %v", cname, m, err)
					}
				}
			}
		}
	}
}

`

// The registry (C15): reference map and a standard grpc.Server side by side.
const propertyHarnessRegistry = `package grpchan_test

import (
	"context"
	"fmt"
	"reflect"
	"sort"
	"testing"

	"google.golang.org/grpc"

	"github.com/fullstorydev/grpchan"
)

type zzIface interface{ Do() }
type zzImpl struct{ n int }

func (zzImpl) Do() {}

type zzOther struct{}

func zzDesc(name string, nm, ns int) *grpc.ServiceDesc {
	d := &grpc.ServiceDesc{ServiceName: name, HandlerType: (*zzIface)(nil), Metadata: "file_" + name + ".proto"}
	for i := 0; i < nm; i++ {
		d.Methods = append(d.Methods, grpc.MethodDesc{MethodName: fmt.Sprintf("M%d", i), Handler: func(srv interface{}, ctx context.Context, dec func(interface{}) error, _ grpc.UnaryServerInterceptor) (interface{}, error) {
			return nil, nil
		}})
	}
	for i := 0; i < ns; i++ {
		d.Streams = append(d.Streams, grpc.StreamDesc{StreamName: fmt.Sprintf("S%d", i), ClientStreams: i%2 == 0, ServerStreams: i%3 != 0, Handler: func(srv interface{}, ss grpc.ServerStream) error { return nil }})
	}
	return d
}

func zzNormalize(in map[string]grpc.ServiceInfo) map[string]grpc.ServiceInfo {
	out := map[string]grpc.ServiceInfo{}
	for k, v := range in {
		ms := append([]grpc.MethodInfo(nil), v.Methods...)
		sort.Slice(ms, func(i, j int) bool { return ms[i].Name < ms[j].Name })
		out[k] = grpc.ServiceInfo{Methods: ms, Metadata: v.Metadata}
	}
	return out
}

// Bounded search on the real registry: sequences of registrations against a reference
// map and against what a standard grpc.Server reports for the same registrations.
func TestZZGovcReplay(t *testing.T) {
	shapes := [][2]int{{0, 0}, {1, 0}, {0, 1}, {2, 3}, {3, 1}}
	for n := 0; n <= len(shapes); n++ {
		reg := grpchan.HandlerMap{}
		std := grpc.NewServer()
		ref := map[string]*grpc.ServiceDesc{}
		impls := map[string]interface{}{}
		for i := 0; i < n; i++ {
			d := zzDesc(fmt.Sprintf("pkg.Svc%d", i), shapes[i][0], shapes[i][1])
			impl := zzImpl{n: i}
			reg.RegisterService(d, impl)
			std.RegisterService(d, impl)
			ref[d.ServiceName], impls[d.ServiceName] = d, impl
		}
		// lookup
		for name, d := range ref {
			gd, gh := reg.QueryService(name)
			if gd != d || gh != impls[name] {
				t.Errorf("GOVC-REPLAY: VIOLATED %d services: QueryService(%q) = %p, %v; registered %p, %v", n, name, gd, gh, d, impls[name])
			}
		}
		for _, name := range []string{"", "pkg.Svc", "pkg.Svc99", "pkg.svc0", "pkg.Svc0 "} {
			if gd, gh := reg.QueryService(name); gd != nil || gh != nil {
				t.Errorf("GOVC-REPLAY: VIOLATED %d services: QueryService(%q), never registered, = %v, %v", n, name, gd, gh)
			}
		}
		// iteration
		visits := map[string]int{}
		reg.ForEach(func(d *grpc.ServiceDesc, h interface{}) {
			visits[d.ServiceName]++
			if ref[d.ServiceName] != d || impls[d.ServiceName] != h {
				t.Errorf("GOVC-REPLAY: VIOLATED %d services: ForEach visited (%q, %v), which is not what was registered", n, d.ServiceName, h)
			}
		})
		if len(visits) != n {
			t.Errorf("GOVC-REPLAY: VIOLATED %d services: ForEach visited %d distinct services", n, len(visits))
		}
		for k, c := range visits {
			if c != 1 {
				t.Errorf("GOVC-REPLAY: VIOLATED %d services: ForEach visited %q %d times", n, k, c)
			}
		}
		// service info against the standard server
		if got, want := zzNormalize(reg.GetServiceInfo()), zzNormalize(std.GetServiceInfo()); !reflect.DeepEqual(got, want) {
			t.Errorf("GOVC-REPLAY: VIOLATED %d services: GetServiceInfo = %v, a standard grpc.Server reports %v", n, got, want)
		}
		// refusals leave the registry intact
		if n > 0 {
			before := zzNormalize(reg.GetServiceInfo())
			for what, f := range map[string]func(){
				"a second handler for a registered name": func() { reg.RegisterService(zzDesc("pkg.Svc0", 1, 1), zzImpl{n: 77}) },
				"a handler that does not implement the service interface": func() { reg.RegisterService(zzDesc("pkg.New", 1, 0), zzOther{}) },
			} {
				func() {
					defer func() {
						if recover() == nil {
							t.Errorf("GOVC-REPLAY: VIOLATED %d services: registering %s was not refused by panicking", n, what)
						}
					}()
					f()
				}()
				if after := zzNormalize(reg.GetServiceInfo()); !reflect.DeepEqual(before, after) {
					t.Errorf("GOVC-REPLAY: VIOLATED %d services: after the refusal of %s the registry reports %v, before %v", n, what, after, before)
				}
				if gd, gh := reg.QueryService("pkg.Svc0"); gd != ref["pkg.Svc0"] || gh != impls["pkg.Svc0"] {
					t.Errorf("GOVC-REPLAY: VIOLATED %d services: after the refusal of %s the earlier registration of pkg.Svc0 is %p, %v", n, what, gd, gh)
				}
			}
		}
	}
}
`

var propertyHarnessScenario = map[string]string{"C15": "C15", "C02": "C02", "C14": "C14", "C03": "C03", "C12": "C12", "C06": "C06", "C08": "C08", "C18": "C18"}

func (cc *checkCtx) propertyFallback(prop string) map[string]interface{} {
	sc, ok := propertyHarnessScenario[prop]
	if !ok {
		return nil
	}
	cc.mu.Lock()
	if cc.harnessDone == nil {
		cc.harnessDone = map[string]map[string]interface{}{}
	}
	if r, ok := cc.harnessDone[prop]; ok {
		cc.mu.Unlock()
		return r
	}
	cc.mu.Unlock()
	res := map[string]interface{}{"attempted": false, "kind": "property-level bounded search on the real API (not derived from the solver's model)"}
	res["inputs"] = map[string]interface{}{"scenario": sc, "scope": "HTTP and in-process channel, grpchantesting.TestServer: every code 1..18 with a detail on unary/server-stream/client-stream; request metadata with repeated keys and arbitrary -bin bytes, response headers/trailers through Header()/Trailer() and duplicated call options, trailers of a failed call; registered and fourteen unregistered or malformed method names"}
	switch sc {
	case "C15":
		res["inputs"] = map[string]interface{}{"scenario": sc, "scope": "0..5 registered services of five shapes: lookup of registered and never registered names, iteration, GetServiceInfo against grpc.Server.GetServiceInfo for the same registrations, refused registrations (duplicate name, handler of the wrong type) and the registry afterwards"}
		res = runDriver(cc, modulePath, propertyHarnessRegistry, res)
	case "C06", "C08", "C18":
		res["inputs"] = map[string]interface{}{"scenario": sc, "scope": "in-process channel with each of the four cloner configurations, a service whose handlers keep what they receive and return a cached message: mutation after return on either side, reused destination, messages re-sent after a change; handlers producing 0, 2, 3 responses for single-response methods; Clone/Copy of each adapter incl. populated and empty sources and destinations, dynamic <-> generated, non-message pointers"}
		res = runDriver(cc, modulePath+"/inprocgrpc", strings.Replace(propertyHarnessInproc, "%q", fmt.Sprintf("%q", sc), 1), res)
	default:
		res = runDriver(cc, modulePath+"/httpgrpc", strings.Replace(propertyHarness, "%q", fmt.Sprintf("%q", sc), 1), res)
	}
	cc.mu.Lock()
	cc.harnessDone[prop] = res
	cc.mu.Unlock()
	return res
}
