package main

// A contract that has fallen out of step with the code: clauses speak about calls to a
// function X (assert_call X, called/calls/lastresult/lastarg of X) and the function under
// contract no longer contains any call to X, while it now makes calls it did not make when
// the contract was written (baseline/callees.json). Whether the new calls do what the old
// one did (ioutil.ReadAll -> io.ReadAll, binary.Write -> PutUint32 + Write, a closure body
// moved into a function that returns closures) cannot be read off the contract: such a
// failure is "cannot decide, the contract has to follow", not a refutation. A call that
// merely disappears (nothing new is called) stays a violation.

import (
	"encoding/json"
	"os"
	"path/filepath"
	"regexp"
	"sort"
	"strings"

	"golang.org/x/tools/go/ssa"
)

// staticCallees lists the designators (every spelling) and the primary names of all calls
// that occur in f, in the function literals it creates and in the functions of the module
// without contract it calls (which are executed in place).
func (u *Unit) staticCallees(f *ssa.Function) (all, primary map[string]bool) {
	all, primary = map[string]bool{}, map[string]bool{}
	seen := map[*ssa.Function]bool{}
	var visit func(f *ssa.Function)
	visit = func(f *ssa.Function) {
		if f == nil || seen[f] {
			return
		}
		seen[f] = true
		for _, b := range f.Blocks {
			for _, in := range b.Instrs {
				for _, op := range in.Operands(nil) {
					if g := moduleGlobal(*op); g != nil {
						primary["global:"+g.String()] = true
					}
				}
				var c *ssa.CallCommon
				switch x := in.(type) {
				case *ssa.Call:
					c = &x.Call
				case *ssa.Defer:
					c = &x.Call
				case *ssa.Go:
					c = &x.Call
				case *ssa.MakeClosure:
					visit(x.Fn.(*ssa.Function))
					continue
				default:
					continue
				}
				var ds []string
				if sc := c.StaticCallee(); sc != nil {
					ds = u.funcDesignators(sc)
					primary[sc.String()] = true
					if sc.Pkg != nil && strings.HasPrefix(sc.Pkg.Pkg.Path(), modulePath) && u.P.Contracts[sc] == nil {
						visit(sc)
					}
				} else if _, isBuiltin := c.Value.(*ssa.Builtin); !isBuiltin {
					ds = u.dynDesignators(c)
					if len(ds) > 0 {
						primary[ds[0]] = true
					}
				}
				for _, d := range ds {
					all[d] = true
				}
			}
		}
	}
	visit(f)
	return
}

func (p *Prog) unitKeyOf(f *ssa.Function) string {
	for k, g := range p.Funcs {
		if g == f {
			return k
		}
	}
	return ""
}

func (p *Prog) loadCalleeBaseline(verifDir string) {
	b, err := os.ReadFile(filepath.Join(verifDir, "baseline", "callees.json"))
	if err != nil {
		return
	}
	var rec map[string][]string
	if json.Unmarshal(b, &rec) != nil {
		return
	}
	p.baseCallees = map[string]map[string]bool{}
	for k, l := range rec {
		m := map[string]bool{}
		for _, d := range l {
			m[d] = true
		}
		p.baseCallees[k] = m
	}
}

func (p *Prog) writeCalleeBaseline(verifDir string) {
	rec := map[string][]string{}
	for key, f := range p.Funcs {
		if _, ok := p.Contracts[f]; !ok {
			continue
		}
		u := &Unit{P: p, Fn: f}
		if f.Pkg != nil {
			u.Pkg = f.Pkg.Pkg
		} else if f.Parent() != nil && f.Parent().Pkg != nil {
			u.Pkg = f.Parent().Pkg.Pkg
		}
		_, prim := u.staticCallees(f)
		l := make([]string, 0, len(prim))
		for d := range prim {
			l = append(l, d)
		}
		sort.Strings(l)
		rec[key] = l
	}
	b, _ := json.MarshalIndent(rec, "", " ")
	os.MkdirAll(filepath.Join(verifDir, "baseline"), 0o755)
	os.WriteFile(filepath.Join(verifDir, "baseline", "callees.json"), append(b, '\n'), 0o644)
}

var (
	reClauseCall   = regexp.MustCompile(`\b(?:called|calls|lastresult|lastarg)\(\s*(?:"([^"]+)"|([A-Za-z_(*][^,)\s]*))`)
	reAssertTarget = regexp.MustCompile(`^assert_call (.+?) : `)
)

// clauseDesignators: the functions a clause text speaks about.
func clauseDesignators(clause string) []string {
	var out []string
	if m := reAssertTarget.FindStringSubmatch(clause); m != nil {
		out = append(out, strings.TrimSpace(m[1]))
	}
	for _, m := range reClauseCall.FindAllStringSubmatch(clause, -1) {
		if m[1] != "" {
			out = append(out, m[1])
		} else {
			out = append(out, m[2])
		}
	}
	return out
}

// markOutOfStep weakens the failures described above (run once, after the unit was executed).
func (u *Unit) markOutOfStep() {
	if u.P.baseCallees == nil || u.Fn == nil {
		return
	}
	base, ok := u.P.baseCallees[u.P.unitKeyOf(u.Fn)]
	if !ok {
		return
	}
	all, prim := u.staticCallees(u.Fn)
	// only helpers of the module that have no contract count: code that moved into a new
	// function (possibly one that returns the closure which now makes the call)
	var added []string
	for d := range prim {
		if !base[d] && u.uncontractedModuleFunc(d) {
			added = append(added, d)
		}
	}
	if len(added) == 0 {
		return
	}
	sort.Strings(added)
	if len(added) > 4 {
		added = append(added[:4], "…")
	}
	for _, o := range u.sortedObligs() {
		if len(o.Failures) == 0 {
			continue
		}
		switch o.Class {
		case "post", "assert_call", "inv-entry", "inv-step", "panic-post", "panics_only_if":
		default:
			continue
		}
		var gone []string
		for _, d := range clauseDesignators(o.Clause) {
			switch d {
			case "go", "send", "recv", "close", "panic", "select", "defer":
				continue // statements, not functions
			}
			if !all[d] {
				gone = append(gone, d)
			}
		}
		if len(gone) == 0 {
			continue
		}
		why := "the clause speaks about calls to " + strings.Join(gone, ", ") + ", which this function no longer contains, while it now calls " + strings.Join(added, ", ") + ", which the contract does not know: the contract has to follow the code"
		for _, f := range o.Failures {
			f.Weak = append(append([]string(nil), f.Weak...), why)
		}
	}
}

// baseCalleeSet: the calls the function under contract contained when the baseline was
// written (nil: unknown, e.g. a new function).
func (u *Unit) baseCalleeSet() map[string]bool {
	if u.P.baseCallees == nil || u.Fn == nil {
		return nil
	}
	if !u.baseSetDone {
		u.baseSetDone = true
		u.baseSet = u.P.baseCallees[u.P.unitKeyOf(u.Fn)]
	}
	return u.baseSet
}

func (u *Unit) uncontractedModuleFunc(primary string) bool {
	for _, f := range u.P.Funcs {
		if f.String() == primary {
			return f.Pkg != nil && strings.HasPrefix(f.Pkg.Pkg.Path(), modulePath) && u.P.Contracts[f] == nil
		}
	}
	return false
}

// moduleGlobal: v if it is a package-level variable of the module, else nil.
func moduleGlobal(v ssa.Value) *ssa.Global {
	g, ok := v.(*ssa.Global)
	if !ok || g.Pkg == nil || !strings.HasPrefix(g.Pkg.Pkg.Path(), modulePath) {
		return nil
	}
	return g
}
