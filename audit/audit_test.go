// Bounded audit of assumed contracts in /verif/contracts/extern/std.spec: every
// executable `ensures` of a dependency that the proofs rely on is run against
// the real dependency on generated inputs. A failure here means an assumption
// the proofs use is false (the proof engine is then unsound for clauses using
// it) — reported by the thorough tier as an ENGINE-ERROR, never as a VIOLATION.
// Bounded: pseudo-random inputs (seed VERIF_SEED) plus hand-picked corner cases.
package govcaudit

import (
	"bytes"
	"context"
	"encoding/base64"
	"encoding/binary"
	"errors"
	"fmt"
	"io"
	"io/ioutil"
	"math"
	"math/rand"
	"mime"
	"net/http"
	"os"
	"path"
	"strconv"
	"strings"
	"testing"
	"testing/iotest"
	"time"
	"unicode/utf8"

	spb "google.golang.org/genproto/googleapis/rpc/status"
	"google.golang.org/grpc/codes"
	"google.golang.org/grpc/metadata"
	"google.golang.org/grpc/status"
	"google.golang.org/protobuf/proto"
	"google.golang.org/protobuf/types/known/anypb"
	"google.golang.org/protobuf/types/known/wrapperspb"

	_ "github.com/fullstorydev/grpchan"
)

func rng() *rand.Rand {
	seed := int64(1)
	if s := os.Getenv("VERIF_SEED"); s != "" {
		if v, err := strconv.ParseInt(s, 10, 64); err == nil {
			seed = v
		}
	}
	return rand.New(rand.NewSource(seed))
}

var corpusRunes = []rune{'a', 'Z', 'k', 'K', '-', '/', '=', ':', '%', ' ', '0', '9', '+', '_', 0x212A, 0x130, 0x23A, 0x2C65, 0xE9, 0x4E16, 0x1F600, '\n', '\r', 0}

func randString(r *rand.Rand, max int) string {
	n := r.Intn(max + 1)
	var b strings.Builder
	for i := 0; i < n; i++ {
		switch r.Intn(10) {
		case 0:
			b.WriteByte(byte(r.Intn(256))) // possibly invalid UTF-8
		default:
			b.WriteRune(corpusRunes[r.Intn(len(corpusRunes))])
		}
	}
	return b.String()
}

func asciiPrefixLen(s string) int {
	for i := 0; i < len(s); i++ {
		if s[i] >= 0x80 {
			return i
		}
	}
	return len(s)
}

const N = 20000

func TestStrings(t *testing.T) {
	r := rng()
	for i := 0; i < N; i++ {
		s, sep := randString(r, 12), randString(r, 2)
		if sep != "" {
			p := strings.SplitN(s, sep, 2)
			if !(len(p) == 1 || len(p) == 2) {
				t.Fatalf("SplitN(%q,%q,2) has %d parts", s, sep, len(p))
			}
			if (len(p) == 2) != strings.Contains(s, sep) {
				t.Fatalf("SplitN(%q,%q,2): two parts iff contains", s, sep)
			}
			if len(p) == 1 && p[0] != s {
				t.Fatalf("SplitN(%q,%q,2): single part is not the input", s, sep)
			}
			if len(p) == 2 && p[0]+sep+p[1] != s {
				t.Fatalf("SplitN(%q,%q,2): parts do not reassemble", s, sep)
			}
		}
		lo := strings.ToLower(s)
		if (len(lo) == 0) != (len(s) == 0) {
			t.Fatalf("ToLower(%q): emptiness", s)
		}
		if asciiPrefixLen(lo) > len(s) {
			t.Fatalf("ToLower(%q) = %q: ASCII prefix %d longer than the argument %d", s, lo, asciiPrefixLen(lo), len(s))
		}
		pre := randString(r, 3)
		if strings.HasPrefix(s, pre) && len(s) < len(pre) {
			t.Fatalf("HasPrefix length")
		}
		if strings.HasPrefix(s, pre) && asciiPrefixLen(pre) == len(pre) && asciiPrefixLen(s) < len(pre) {
			t.Fatalf("HasPrefix ascii prefix")
		}
		if strings.HasSuffix(s, pre) && len(s) < len(pre) {
			t.Fatalf("HasSuffix length")
		}
		// the combination used by setMetadata: an ASCII prefix of the lowered key bounds the key
		if strings.HasPrefix(lo, "x-grpc-trailer-") && len(s) < len("x-grpc-trailer-") {
			t.Fatalf("lowered key %q has the prefix but the key %q is shorter", lo, s)
		}
	}
	// growth of ToLower (why only the ASCII prefix is bounded)
	if s := "Ⱥ"; len(strings.ToLower(s)) <= len(s) {
		t.Logf("note: ToLower(%q) no longer grows on this Go version", s)
	}
}

func TestStrconv(t *testing.T) {
	r := rng()
	digits := "0123456789+-_ x"
	for i := 0; i < N; i++ {
		n := r.Intn(24)
		var b strings.Builder
		for j := 0; j < n; j++ {
			b.WriteByte(digits[r.Intn(len(digits))])
		}
		s := b.String()
		if r.Intn(4) == 0 {
			s = strconv.FormatInt(r.Int63()-r.Int63(), 10)
		}
		v64, e64 := strconv.ParseInt(s, 10, 64)
		v32, e32 := strconv.ParseInt(s, 10, 32)
		if e32 == nil && e64 != nil {
			t.Fatalf("ParseInt(%q): ok at 32 bits but not at 64", s)
		}
		if e32 == nil && (v32 < math.MinInt32 || v32 > math.MaxInt32) {
			t.Fatalf("ParseInt(%q,32) out of range", s)
		}
		if e32 == nil && e64 == nil && v32 != v64 {
			t.Fatalf("ParseInt(%q): value depends on bitSize", s)
		}
		for _, pr := range []struct {
			v int64
			e error
		}{{v64, e64}, {v32, e32}} {
			if pr.e != nil && !(pr.v == 0 || pr.v == math.MaxInt64 || pr.v == math.MinInt64 || pr.v == math.MaxInt32 || pr.v == math.MinInt32) {
				t.Fatalf("ParseInt(%q): error value %d", s, pr.v)
			}
		}
		u32, ue := strconv.ParseUint(s, 10, 32)
		if ue == nil && u32 > math.MaxUint32 {
			t.Fatalf("ParseUint(%q,32) out of range", s)
		}
		if ue == nil && e64 == nil && int64(u32) != v64 {
			t.Fatalf("ParseUint/ParseInt(%q) disagree", s)
		}
	}
}

func TestByteStreamModel(t *testing.T) {
	r := rng()
	for i := 0; i < N; i++ {
		content := make([]byte, r.Intn(12))
		r.Read(content)
		pos := 0
		if len(content) > 0 {
			pos = r.Intn(len(content) + 1)
		}
		// binary.Read of an int32
		rd := bytes.NewReader(content)
		rd.Seek(int64(pos), io.SeekStart)
		avail := len(content) - pos
		var sz int32 = 12345
		err := binary.Read(rd, binary.BigEndian, &sz)
		newPos := len(content) - rd.Len()
		switch {
		case avail >= 4:
			if err != nil || newPos != pos+4 || sz != int32(binary.BigEndian.Uint32(content[pos:])) {
				t.Fatalf("binary.Read with %d available: err=%v pos %d->%d", avail, err, pos, newPos)
			}
		case avail <= 0:
			if err != io.EOF || newPos != pos || sz != 12345 {
				t.Fatalf("binary.Read at the end: err=%v pos %d->%d sz=%d", err, pos, newPos, sz)
			}
		default:
			if err != io.ErrUnexpectedEOF || newPos != len(content) || sz != 12345 {
				t.Fatalf("binary.Read with %d available: err=%v pos %d->%d sz=%d", avail, err, pos, newPos, sz)
			}
		}
		// io.ReadAtLeast(r, buf, min) with len(buf) == min
		rd = bytes.NewReader(content)
		rd.Seek(int64(pos), io.SeekStart)
		min := r.Intn(8)
		buf := make([]byte, min)
		n, err := io.ReadAtLeast(rd, buf, min)
		newPos = len(content) - rd.Len()
		switch {
		case min <= 0:
			if err != nil || n != 0 || newPos != pos {
				t.Fatalf("ReadAtLeast(min=0): n=%d err=%v", n, err)
			}
		case avail >= min:
			if err != nil || n != min || newPos != pos+min || !bytes.Equal(buf, content[pos:pos+min]) {
				t.Fatalf("ReadAtLeast(min=%d) with %d available: n=%d err=%v", min, avail, n, err)
			}
		case avail <= 0:
			if err != io.EOF || newPos != pos {
				t.Fatalf("ReadAtLeast at the end: err=%v", err)
			}
		default:
			if err != io.ErrUnexpectedEOF || newPos != len(content) {
				t.Fatalf("ReadAtLeast(min=%d) with %d available: err=%v pos %d->%d", min, avail, err, pos, newPos)
			}
		}
	}
}

func TestStatus(t *testing.T) {
	r := rng()
	var nilStatus *status.Status
	if nilStatus.Code() != codes.OK || nilStatus.Proto() != nil || nilStatus.Err() != nil {
		t.Fatalf("nil *Status: Code/Proto/Err")
	}
	if s, ok := status.FromError(nil); s != nil || !ok {
		t.Fatalf("FromError(nil)")
	}
	if s, ok := status.FromError(errors.New("plain")); s == nil || ok || s.Code() != codes.Unknown {
		t.Fatalf("FromError(plain error)")
	}
	if s, ok := status.FromError(fmt.Errorf("wrapped: %w", status.Error(codes.NotFound, "x"))); s == nil || (!ok && s.Code() != codes.Unknown) {
		t.Fatalf("FromError(wrapped status error): %v %v", s, ok)
	}
	// FromError of anything that is not a status error: not ok, code Unknown
	for _, e := range []error{context.Canceled, context.DeadlineExceeded, io.EOF, io.ErrUnexpectedEOF, errors.New("x")} {
		if s, ok := status.FromError(e); ok || s == nil || s.Code() != codes.Unknown {
			t.Fatalf("FromError(%v) = %v %v", e, s, ok)
		}
	}
	// FromContextError: nil -> OK, the two context errors -> their codes, others -> Unknown
	if s := status.FromContextError(nil); s != nil {
		t.Fatalf("FromContextError(nil)")
	}
	if s := status.FromContextError(context.DeadlineExceeded); s == nil || s.Code() != codes.DeadlineExceeded {
		t.Fatalf("FromContextError(DeadlineExceeded)")
	}
	if s := status.FromContextError(context.Canceled); s == nil || s.Code() != codes.Canceled {
		t.Fatalf("FromContextError(Canceled)")
	}
	for _, e := range []error{io.EOF, io.ErrUnexpectedEOF, errors.New("x"), status.Error(codes.NotFound, "nf")} {
		if s := status.FromContextError(e); s == nil || s.Code() != codes.Unknown {
			t.Fatalf("FromContextError(%v) = %v", e, s)
		}
	}
	for _, e := range []error{context.Canceled, context.DeadlineExceeded, io.EOF, io.ErrUnexpectedEOF} {
		if _, ok := e.(interface{ GRPCStatus() *status.Status }); ok {
			t.Fatalf("%v is a status error", e)
		}
	}
	for i := 0; i < 5000; i++ {
		var c codes.Code
		switch r.Intn(3) {
		case 0:
			c = codes.Code(r.Intn(20))
		case 1:
			c = codes.Code(r.Uint32())
		default:
			c = codes.Code(uint32(math.MaxInt32) + uint32(r.Intn(3)) - 1)
		}
		msg := randString(r, 10)
		s := status.New(c, msg)
		if s == nil || s.Code() != c || s.Message() != msg || len(s.Details()) != 0 {
			t.Fatalf("status.New(%d,%q)", c, msg)
		}
		err := status.Error(c, msg)
		if (err == nil) != (c == codes.OK) {
			t.Fatalf("status.Error(%d): nil iff OK", c)
		}
		if (s.Err() == nil) != (c == codes.OK) {
			t.Fatalf("Status.Err(%d): nil iff OK", c)
		}
		if err != nil {
			s2, ok := status.FromError(err)
			if !ok || s2 == nil || s2.Code() != c || s2.Message() != msg {
				t.Fatalf("FromError(Error(%d,%q)) = %v %v", c, msg, s2, ok)
			}
		}
		if e := status.Errorf(c, "%s", msg); (e == nil) != (c == codes.OK) {
			t.Fatalf("status.Errorf(%d): nil iff OK", c)
		}
		p := s.Proto()
		if p == nil || p == s.Proto() {
			t.Fatalf("Proto() is not a fresh non-nil message")
		}
		if (p.Code == 0) != (c == 0) || p.Message != msg {
			t.Fatalf("Proto() of (%d,%q): %v", c, msg, p)
		}
		if uint32(c) <= math.MaxInt32 && p.Code != int32(c) {
			t.Fatalf("Proto().Code for %d", c)
		}
		// FromProto
		det, _ := anypb.New(wrapperspb.String(msg))
		pp := &spb.Status{Code: int32(r.Uint32()), Message: msg, Details: []*anypb.Any{det}}
		fs := status.FromProto(pp)
		if fs == nil || uint32(fs.Code()) != uint32(pp.Code) || fs.Message() != msg || len(fs.Proto().Details) != 1 {
			t.Fatalf("FromProto(%v) = %v", pp, fs)
		}
		if pp.Code != 0 && fs.Code() == 0 {
			t.Fatalf("FromProto: non-zero code became OK")
		}
	}
}

func TestHTTP(t *testing.T) {
	r := rng()
	for i := 0; i < 3000; i++ {
		h := http.Header{}
		key := []string{"GRPC-Timeout", "grpc-timeout", "X-GRPC-Status", "x-grpc-status", "Content-Type", "a b", "é"}[r.Intn(7)]
		if r.Intn(2) == 0 {
			h.Add(key, "v1")
			h.Add(key, "v2")
		}
		want := ""
		if vs := h[http.CanonicalHeaderKey(key)]; len(vs) > 0 {
			want = vs[0]
		}
		if got := h.Get(key); got != want {
			t.Fatalf("Header.Get(%q) = %q want %q", key, got, want)
		}
	}
	body := bytes.NewReader([]byte("x"))
	req, err := http.NewRequest("POST", "http://example.com/a/b", body)
	if err != nil || req == nil || req.Method != "POST" || req.Body == nil {
		t.Fatalf("NewRequest")
	}
	if req2, err := http.NewRequest("POST", "http://example.com/a", bytes.NewReader(nil)); err != nil || req2.Body == nil {
		t.Fatalf("NewRequest with an empty reader: Body is nil")
	}
	if req3, err := http.NewRequest("POST", "::bad url", body); err == nil || req3 != nil {
		t.Fatalf("NewRequest with a bad URL")
	}
	ctx, cancel := context.WithCancel(context.Background())
	defer cancel()
	r2 := req.WithContext(ctx)
	if r2 == nil || r2 == req || r2.Method != req.Method || r2.URL != req.URL || r2.Body != req.Body || fmt.Sprintf("%p", r2.Header) != fmt.Sprintf("%p", req.Header) || r2.Context() != ctx {
		t.Fatalf("WithContext does not share Header/URL/Body or is not a fresh request")
	}
	c2, cancel2 := context.WithTimeout(context.Background(), time.Hour)
	if c2 == nil || cancel2 == nil {
		t.Fatalf("WithTimeout")
	}
	cancel2()
	if b, err := ioutil.ReadAll(bytes.NewReader([]byte("abc"))); err != nil || string(b) != "abc" {
		t.Fatalf("ReadAll")
	}
	pr, pw := io.Pipe()
	if pr == nil || pw == nil {
		t.Fatalf("Pipe")
	}
}

func TestMetadata(t *testing.T) {
	md := metadata.Pairs("k", "v1", "k", "v2", "other-bin", "\x00\xff")
	ctx := metadata.NewOutgoingContext(context.Background(), md)
	got, ok := metadata.FromOutgoingContext(ctx)
	if !ok || got == nil {
		t.Fatalf("FromOutgoingContext")
	}
	got["k"][0] = "changed"
	got["new"] = []string{"x"}
	again, _ := metadata.FromOutgoingContext(ctx)
	if again["k"][0] != "v1" || len(again["new"]) != 0 || md["k"][0] != "v1" {
		t.Fatalf("FromOutgoingContext does not return a fresh copy")
	}
	if _, ok := metadata.FromOutgoingContext(context.Background()); ok {
		t.Fatalf("FromOutgoingContext without metadata")
	}
	ictx := metadata.NewIncomingContext(context.Background(), md)
	in, ok := metadata.FromIncomingContext(ictx)
	if !ok {
		t.Fatalf("FromIncomingContext")
	}
	in["k"][0] = "changed"
	in2, _ := metadata.FromIncomingContext(ictx)
	if in2["k"][0] != "v1" {
		t.Fatalf("FromIncomingContext does not return a fresh copy")
	}
	j := metadata.Join(md, metadata.Pairs("k", "v3"))
	if j == nil || len(j["k"]) != 3 || j["k"][0] != "v1" || j["k"][2] != "v3" {
		t.Fatalf("Join order")
	}
	j["k"][0] = "changed"
	if md["k"][0] != "v1" {
		t.Fatalf("Join result shares memory with its arguments")
	}
	if m := metadata.New(map[string]string{"A": "b"}); m == nil || m["a"][0] != "b" {
		t.Fatalf("New")
	}
}

func TestEquivalentSpellings(t *testing.T) {
	r := rng()
	for i := 0; i < N; i++ {
		n := int(r.Int63() - r.Int63())
		if strconv.Itoa(n) != fmt.Sprintf("%d", n) || strconv.FormatInt(int64(n), 10) != fmt.Sprintf("%d", n) {
			t.Fatalf("Itoa/FormatInt(%d) differ from Sprintf(%%d)", n)
		}
		s, sep := randString(r, 10), randString(r, 2)
		if sep == "" {
			continue
		}
		before, after, found := strings.Cut(s, sep)
		p := strings.SplitN(s, sep, 2)
		if found != strings.Contains(s, sep) || before != p[0] || (found && after != p[1]) || (!found && after != "") {
			t.Fatalf("Cut(%q,%q) disagrees with SplitN", s, sep)
		}
		if (strings.Index(s, sep) >= 0) != strings.Contains(s, sep) {
			t.Fatalf("Index/Contains(%q,%q)", s, sep)
		}
		if m := int64(n); fmt.Sprintf("%dm", m) != strconv.FormatInt(m, 10)+"m" {
			t.Fatalf("Sprintf(%%dm) is not FormatInt + m for %d", m)
		}
		content := []byte(randString(r, 9))
		if a, ea := ioutil.ReadAll(bytes.NewReader(content)); true {
			rd := bytes.NewReader(content)
			b, eb := io.ReadAll(rd)
			if !bytes.Equal(a, b) || ea != eb || rd.Len() != 0 {
				t.Fatalf("ioutil.ReadAll and io.ReadAll differ")
			}
			rd2 := bytes.NewReader(content)
			if _, err := io.Copy(io.Discard, rd2); err != nil || rd2.Len() != 0 {
				t.Fatalf("io.Copy(io.Discard) does not drain")
			}
		}
		k := r.Intn(6)
		b1, b2 := make([]byte, k), make([]byte, k)
		r1, r2 := bytes.NewReader(content), bytes.NewReader(content)
		n1, e1 := io.ReadFull(r1, b1)
		n2, e2 := io.ReadAtLeast(r2, b2, k)
		if n1 != n2 || e1 != e2 || !bytes.Equal(b1, b2) || r1.Len() != r2.Len() {
			t.Fatalf("ReadFull and ReadAtLeast(len) differ on %d of %d bytes", k, len(content))
		}
	}
}

// the axiom on media_type_of: a bare lower-case type/subtype is its own media type
func TestBareMediaTypes(t *testing.T) {
	for _, s := range []string{"application/x-protobuf", "application/json", "application/x-httpgrpc-proto+v1"} {
		mt, params, err := mime.ParseMediaType(s)
		if err != nil || mt != s || len(params) != 0 {
			t.Fatalf("ParseMediaType(%q) = %q, %v, %v", s, mt, params, err)
		}
	}
}

func TestMisc(t *testing.T) {
	r := rng()
	for i := 0; i < 5000; i++ {
		a, b := randString(r, 8), randString(r, 8)
		if path.Join(a, b) != path.Join(a, b) {
			t.Fatalf("path.Join is not a function of its arguments")
		}
		raw := []byte(randString(r, 9))
		e1 := base64.URLEncoding.EncodeToString(raw)
		if e1 != base64.URLEncoding.EncodeToString([]byte(string(raw))) {
			t.Fatalf("base64 encode is not a function of the byte content")
		}
		if d, err := base64.URLEncoding.DecodeString(e1); err != nil || !bytes.Equal(d, raw) {
			t.Fatalf("base64 decode(encode(x)) != x")
		}
		if !utf8.ValidString(e1) {
			t.Fatalf("base64 output is not ASCII")
		}
	}
	m := wrapperspb.String("x")
	c := proto.Clone(m)
	if c == nil || c == proto.Message(m) || !proto.Equal(c, m) {
		t.Fatalf("proto.Clone")
	}
	// documented non-facts (assumptions that were removed because they are false)
	if d, err := base64.URLEncoding.DecodeString("YQ==\n"); err != nil || base64.URLEncoding.EncodeToString(d) == "YQ==\n" {
		t.Fatalf("expected: decoding ignores newlines, so decode-then-encode is not the identity on accepted inputs")
	}
	if d, err := base64.URLEncoding.DecodeString("YQ=*"); err == nil || d == nil {
		t.Logf("note: DecodeString returns a non-nil partial slice together with an error: %v %v", d, err)
	}
}

// strings.ToValidUTF8 / (codes.Code).String as assumed in std.spec.
func TestValidUTF8(t *testing.T) {
	r := rng()
	for i := 0; i < 20000; i++ {
		b := make([]byte, r.Intn(12))
		for j := range b {
			if r.Intn(3) == 0 {
				b[j] = byte(0x80 + r.Intn(0x80))
			} else {
				b[j] = byte(r.Intn(0x80))
			}
		}
		s := string(b)
		out := strings.ToValidUTF8(s, "\uFFFD")
		if !utf8.ValidString(out) {
			t.Fatalf("ToValidUTF8(%q) = %q is not valid", s, out)
		}
		if utf8.ValidString(s) && out != s {
			t.Fatalf("ToValidUTF8 changed the valid string %q to %q", s, out)
		}
	}
	for c := 0; c < 40; c++ {
		if !utf8.ValidString(codes.Code(c).String()) {
			t.Fatalf("codes.Code(%d).String() is not valid UTF-8", c)
		}
	}
	if !utf8.ValidString("") || !utf8.ValidString("\uFFFD") || !utf8.ValidString("OK") {
		t.Fatalf("literal axioms")
	}
}

// io.Reader.Read on the byte-stream model (std.spec): delivers a prefix of what is
// left, in order; with nothing left and a non-empty buffer it reports the end error.
func TestReaderRead(t *testing.T) {
	r := rng()
	for i := 0; i < 20000; i++ {
		content := make([]byte, r.Intn(20))
		r.Read(content)
		var rd io.Reader
		switch r.Intn(4) {
		case 0:
			rd = bytes.NewReader(content)
		case 1:
			rd = strings.NewReader(string(content))
		case 2:
			rd = iotest.OneByteReader(bytes.NewReader(content))
		default:
			rd = iotest.HalfReader(bytes.NewReader(content))
		}
		pos := 0
		for step := 0; step < 50; step++ {
			p := make([]byte, r.Intn(8))
			avail := len(content) - pos
			n, err := rd.Read(p)
			if n < 0 || n > len(p) || n > avail {
				t.Fatalf("Read returned n=%d with len(p)=%d avail=%d", n, len(p), avail)
			}
			if !bytes.Equal(p[:n], content[pos:pos+n]) {
				t.Fatalf("Read delivered %x, the stream has %x at %d", p[:n], content[pos:pos+n], pos)
			}
			if avail <= 0 && len(p) > 0 && !(n == 0 && err == io.EOF) {
				t.Fatalf("Read at the end: n=%d err=%v", n, err)
			}
			if err != nil && err != io.EOF {
				t.Fatalf("Read error %v", err)
			}
			pos += n
		}
	}
}

// The cross-site lemma behind C12 over HTTP, which the contracts take "up to path.Join":
// for an absolute base path b (canonical or not) and a well-formed name /svc/M, what the
// client requests, trim_suffix(path.Join("/", b), "/") + "/" + "svc/M", is the route the
// server registers, path.Join(b, "svc/M"); and a name that is not well-formed (empty,
// "." or ".." segments, trailing slash) is never mapped onto such a route.
func TestClientAndServerPathsAgree(t *testing.T) {
	r := rng()
	seg := func() string {
		return []string{"a", "api", "v1", "x.y", "A_b", ".", "..", ""}[r.Intn(8)]
	}
	client := func(base, method string) string {
		return strings.TrimSuffix(path.Join("/", base), "/") + "/" + strings.TrimPrefix(method, "/")
	}
	for i := 0; i < 20000; i++ {
		base := "/"
		for n := r.Intn(4); n > 0; n-- {
			base += seg() + "/"
		}
		if r.Intn(2) == 0 {
			base = strings.TrimSuffix(base, "/")
			if base == "" {
				base = "/"
			}
		}
		svc, m := "pkg.Svc", "Method"
		route := path.Join(base, svc+"/"+m)
		if got := client(base, "/"+svc+"/"+m); got != route {
			t.Fatalf("base %q: client path %q, server route %q", base, got, route)
		}
		for _, bad := range []string{"/x/../" + svc + "/" + m, "/" + svc + "//" + m, "/" + svc + "/./" + m, "/" + svc + "/" + m + "/", "//" + svc + "/" + m} {
			if got := client(base, bad); got == route {
				t.Fatalf("base %q: the unregistered name %q is mapped onto the route %q", base, bad, route)
			}
		}
	}
}
