module govcaudit

go 1.18

require (
	github.com/fullstorydev/grpchan v0.0.0
	google.golang.org/genproto/googleapis/rpc v0.0.0-20240318140521-94a12d6c2237
	google.golang.org/grpc v1.57.1
	google.golang.org/protobuf v1.33.0
)

require (
	github.com/golang/protobuf v1.5.4 // indirect
	golang.org/x/net v0.23.0 // indirect
	golang.org/x/sys v0.18.0 // indirect
	golang.org/x/text v0.14.0 // indirect
)

replace github.com/fullstorydev/grpchan => /repo
