#!/usr/bin/env python3
"""Applies every seeded change to /repo in turn (tools/try_seed.sh), records which obligations report it,
and writes /verif/seeded/README.md. Development tool; the registered checks never depend on it."""
import json, os, re, subprocess
rows=[]
for d in sorted(os.listdir('/verif/seeded')):
    if not os.path.isdir('/verif/seeded/'+d): continue
    prop=d[:3]
    out=subprocess.run(['/verif/tools/try_seed.sh',d,prop],capture_output=True,text=True).stdout
    log=open(f'/tmp/try_seed_{d}.log').read() if os.path.exists(f'/tmp/try_seed_{d}.log') else ''
    obs=[re.sub(r' no-failing-input-found$','',l.split('obligation=')[1]) for l in log.splitlines() if l.startswith('VIOLATION') and 'obligation=' in l]
    m=json.load(open(f'/verif/seeded/{d}/meta.json'))
    ex=re.search(r'exit=(\d+)',out)
    rows.append((d,prop,m.get('files_changed',[]),m.get('what_it_breaks','').strip().split('. ')[0][:260],ex.group(1) if ex else '?',obs))
with open('/verif/seeded/README.md','w') as f:
    f.write("# Seeded property-breaking changes\n\nEach directory holds `patch.diff` (or `patch.rebased.diff` after the `fix:` commits), the demonstration test and `meta.json` "
            "of one change produced by a fresh sub-agent that saw only the property text and a scratch worktree, confirmed in a scratch worktree "
            "(builds, existing suite green, demonstration fails with / passes without). `Cxx` = first round, `Cxx_r2` = second round. "
            "Regenerate this table with `tools/seed_matrix.py`.\n\n| seed | files | change (first sentence of the author's description) | check exit | obligations that report it |\n|---|---|---|---|---|\n")
    for d,prop,files,what,ex,obs in rows:
        f.write(f"| {d} | {', '.join(files)} | {what.replace('|','/')} | {ex} | {'<br>'.join('`'+o+'`' for o in obs[:4])}{' …' if len(obs)>4 else ''} |\n")
print(sum(1 for r in rows if r[4]=='1'), "of", len(rows), "reported")
