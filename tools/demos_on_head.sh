#!/bin/bash
# Runs the demonstration test of every seeded change against /repo's HEAD WITHOUT its patch
# (scratch worktree, removed afterwards): each must pass. A failure means that a later
# change of /repo (a fix) broke behaviour that a demonstration relies on.
export GOFLAGS=-mod=mod GOPROXY=off GOSUMDB=off GOTOOLCHAIN=local
WT=/tmp/demos-on-head
git -C /repo worktree remove --force $WT 2>/dev/null
git -C /repo worktree add -q --detach $WT HEAD || exit 2
fail=0
for D in /verif/seeded/*/; do
  S=$(basename $D)
  [ -f $D/zz_seed_demo_test.go ] || continue
  PKG=$(python3 -c "import json;print(json.load(open('$D/meta.json')).get('demo_pkg_dir','.'))"); PKG=${PKG#./}; [ -z "$PKG" ] && PKG=.
  cp $D/zz_seed_demo_test.go $WT/$PKG/
  out=$(cd $WT && go test -vet=off -count=1 -run ZZSeedDemo ./$PKG/ 2>&1 | tail -4)
  rm -f $WT/$PKG/zz_seed_demo_test.go
  if echo "$out" | grep -q "^ok"; then :; else echo "DEMO FAILS ON HEAD: $S"; echo "$out" | head -4; fail=$((fail+1)); fi
done
git -C /repo worktree remove --force $WT
echo "demos failing on HEAD: $fail"
