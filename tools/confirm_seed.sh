#!/bin/bash
# usage: confirm_seed.sh <seed>  -- confirms in a scratch worktree of /repo HEAD that the seeded change
# builds, keeps the existing suite green, and that its demonstration fails with it and passes without it.
S="$1"
export GOFLAGS=-mod=mod GOPROXY=off GOSUMDB=off GOTOOLCHAIN=local
D=/verif/seeded/$S
PATCH=$D/patch.diff; [ -f $D/patch.rebased.diff ] && PATCH=$D/patch.rebased.diff
WT=/tmp/confirm-$S
git -C /repo worktree remove --force $WT 2>/dev/null
git -C /repo worktree add -q --detach $WT HEAD || exit 2
PKG=$(python3 -c "import json;print(json.load(open('$D/meta.json')).get('demo_pkg_dir','.'))")
PKG=${PKG#./}; [ -z "$PKG" ] && PKG=.
cp $D/zz_seed_demo_test.go $WT/$PKG/ 2>/dev/null
cd $WT
without=$(go test -vet=off -count=1 -run ZZSeedDemo ./$PKG/ 2>&1 | tail -3)
wo_ok=no; echo "$without" | grep -q "^ok" && wo_ok=yes
if ! git apply --check $PATCH 2>/dev/null; then echo "seed=$S APPLY-FAILS"; cd /; git -C /repo worktree remove --force $WT; exit 2; fi
git apply $PATCH
build=no; go build ./... 2>/dev/null && build=yes
with=$(go test -vet=off -count=1 -run ZZSeedDemo ./$PKG/ 2>&1 | tail -3)
w_fail=no; echo "$with" | grep -q "FAIL" && w_fail=yes
rm -f $WT/$PKG/zz_seed_demo_test.go
suite=$(go test -vet=off -count=1 ./... 2>&1 | grep -c "^FAIL\|^---")
cd /; git -C /repo worktree remove --force $WT
echo "seed=$S base=$(git -C /repo log -1 --format=%h) builds=$build suite_failures=$suite demo_passes_without=$wo_ok demo_fails_with=$w_fail"
