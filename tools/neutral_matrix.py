#!/usr/bin/env python3
"""Run every behaviour-preserving refactoring in /verif/neutral against all 20
checks (development measurement, never part of a registered command).

Each patch is applied to a scratch copy of /repo under /tmp (removed
afterwards), `govc check -repo <copy> -property all -no-evidence` is run, and
the verdict lines are collected.  A VIOLATION line here is a false alarm.

usage: neutral_matrix.py [workers] [name-prefix ...]
"""
import glob, os, shutil, subprocess, sys, tempfile, json
from concurrent.futures import ThreadPoolExecutor

ENV = dict(os.environ, GOFLAGS="-mod=mod", GOPROXY="off", GOSUMDB="off", GOTOOLCHAIN="local")


def run(patch):
    name = os.path.basename(patch)[:-5]
    scratch = tempfile.mkdtemp(prefix="neutral_")
    work = os.path.join(scratch, "repo")
    try:
        subprocess.run(["rsync", "-a", "--exclude", ".git", "/repo/", work], check=True)
        r = subprocess.run(["git", "apply", "--unsafe-paths", "--directory", work, patch], cwd="/", capture_output=True, text=True)
        if r.returncode != 0:
            r = subprocess.run(["patch", "-p1", "-s", "-d", work, "-i", patch], capture_output=True, text=True)
            if r.returncode != 0:
                return name, None, ["does not apply: " + r.stdout[:200] + r.stderr[:200]]
        r = subprocess.run([os.environ.get("GOVC_BIN", "/verif/bin/govc"), "check", "-repo", work, "-property", "all", "-no-evidence", "-outdir", os.path.join(scratch, "out")], capture_output=True, text=True, env=ENV)
        lines = [l for l in r.stdout.splitlines() + r.stderr.splitlines() if l.startswith(("VIOLATION", "UNDECIDED", "ENGINE-ERROR"))]
        return name, r.returncode, lines
    finally:
        shutil.rmtree(scratch, ignore_errors=True)


def main():
    workers = 4
    args = sys.argv[1:]
    if args and args[0].isdigit():
        workers = int(args.pop(0))
    patches = sorted(glob.glob("/verif/neutral/*.diff"))
    if args:
        patches = [p for p in patches if any(os.path.basename(p).startswith(a) for a in args)]
    out = {}
    with ThreadPoolExecutor(workers) as ex:
        for name, rc, lines in ex.map(run, patches):
            v = sum(1 for l in lines if l.startswith("VIOLATION"))
            ud = sum(1 for l in lines if l.startswith("UNDECIDED"))
            e = sum(1 for l in lines if l.startswith("ENGINE-ERROR"))
            out[name] = {"exit": rc, "violations": v, "undecided": ud, "engine_errors": e}
            print(f"{name} exit={rc} viol={v} undec={ud} eng={e}", flush=True)
            seen = set()
            for l in lines:
                import re
                l = re.sub(r"replay=\S+ ", "", l)
                l = re.sub(r"^(\w+(?:-\w+)?) property=C\d\d ", r"\1 ", l)
                if l not in seen:
                    seen.add(l)
                    print("   ", l[:230])
    json.dump(out, open("/tmp/neutral_matrix.json", "w"), indent=1)


main()
