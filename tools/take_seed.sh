#!/bin/bash
# usage: take_seed.sh <Cxx> <suffix>  -- takes /tmp/seed2-out/Cxx into /verif/seeded/Cxx_<suffix>, confirms it, tries it
P=$1; SUF=$2; SRC=${SEEDSRC:-/tmp/seed3-out}/$P; D=/verif/seeded/${P}_$SUF
[ -f $SRC/patch.diff ] || { echo "$P: no patch"; exit 2; }
mkdir -p $D; cp $SRC/patch.diff $SRC/zz_seed_demo_test.go $SRC/meta.json $D/ 2>/dev/null
/verif/tools/confirm_seed.sh ${P}_$SUF
/verif/tools/try_seed.sh ${P}_$SUF $P | tail -4
