#!/usr/bin/env python3
"""Parallel variant of seed_matrix.py: every seeded change is applied to a scratch
copy of /repo under the system temp directory (removed afterwards) and the check of its
property is run against the copy (`govc check -repo <copy> -no-evidence`). Writes
/verif/seeded/README.md unless a name prefix is given. Development tool.

usage: seed_matrix_par.py [workers] [name-prefix ...]      env GOVC_BIN=<binary>
"""
import glob, json, os, re, shutil, subprocess, sys, tempfile
from concurrent.futures import ThreadPoolExecutor

ENV = dict(os.environ, GOFLAGS="-mod=mod", GOPROXY="off", GOSUMDB="off", GOTOOLCHAIN="local")
BIN = os.environ.get("GOVC_BIN", "/verif/bin/govc")


def run(d):
    sd = "/verif/seeded/" + d
    patch = sd + "/patch.rebased.diff" if os.path.exists(sd + "/patch.rebased.diff") else sd + "/patch.diff"
    m = json.load(open(sd + "/meta.json"))
    prop = m.get("property", d[:3])
    scratch = tempfile.mkdtemp(prefix="seedm_")
    work = os.path.join(scratch, "repo")
    try:
        subprocess.run(["rsync", "-a", "--exclude", ".git", "/repo/", work], check=True)
        r = subprocess.run(["git", "apply", "--unsafe-paths", "--directory", work, patch], cwd="/", capture_output=True, text=True)
        if r.returncode != 0:
            return d, prop, m, "n/a", ["does not apply"]
        r = subprocess.run([BIN, "check", "-repo", work, "-property", prop, "-tier", "quick", "-no-evidence", "-outdir", os.path.join(scratch, "out")], capture_output=True, text=True, env=ENV)
        lines = r.stdout.splitlines() + r.stderr.splitlines()
        obs = [re.sub(r" no-failing-input-found$", "", l.split("obligation=")[1]) for l in lines if l.startswith("VIOLATION") and "obligation=" in l]
        other = [l[:200] for l in lines if l.startswith(("UNDECIDED", "ENGINE-ERROR"))]
        return d, prop, m, str(r.returncode), obs if obs else other
    finally:
        shutil.rmtree(scratch, ignore_errors=True)


def main():
    args = sys.argv[1:]
    workers = 5
    if args and args[0].isdigit():
        workers = int(args.pop(0))
    seeds = sorted(x for x in os.listdir("/verif/seeded") if os.path.isdir("/verif/seeded/" + x))
    if args:
        seeds = [s for s in seeds if any(s.startswith(a) for a in args)]
    with ThreadPoolExecutor(workers) as ex:
        rows = list(ex.map(run, seeds))
    for d, prop, m, ex_, obs in rows:
        print(f"{d} property={prop} exit={ex_} {obs[:2]}")
    rep = sum(1 for r in rows if r[3] == "1")
    print(rep, "of", len(rows), "reported")
    if not args:
        with open("/verif/seeded/README.md", "w") as f:
            f.write("# Seeded property-breaking changes\n\nEach directory holds `patch.diff` (or `patch.rebased.diff` after the `fix:` commits), the demonstration test and `meta.json` "
                    "of one change produced by a fresh sub-agent that saw only the property text and a scratch worktree (`Cxx_fixNN`: reversion of a `fix:` commit, written by me), confirmed in a scratch worktree "
                    "(builds, existing suite green, demonstration fails with / passes without). `Cxx` = first round, `Cxx_rN` = round N. "
                    "Regenerate this table with `tools/seed_matrix_par.py`.\n\n| seed | files | change (first sentence of the author's description) | check exit | obligations that report it |\n|---|---|---|---|---|\n")
            for d, prop, m, ex_, obs in rows:
                what = m.get("what_it_breaks", "").strip().split(". ")[0][:260].replace("|", "/")
                f.write(f"| {d} | {', '.join(m.get('files_changed', []))} | {what} | {ex_} | {'<br>'.join('`' + o + '`' for o in obs[:4])}{' …' if len(obs) > 4 else ''} |\n")
            f.write(f"\n{rep} of {len(rows)} reported (exit 1); exit 3 = cannot decide.\n")


main()
