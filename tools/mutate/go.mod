module mutate

go 1.18
