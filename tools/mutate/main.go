// mutate: enumerates / applies small syntactic mutations of one Go source file.
//   mutate -file F -list            prints "<index>\t<line>\t<operator>\t<description>"
//   mutate -file F -apply N -out G  writes the N-th mutant of F to G
// Development tool for measuring detection power (DESIGN Part II); not used by any registered check.
package main

import (
	"bytes"
	"flag"
	"fmt"
	"go/ast"
	"go/parser"
	"go/printer"
	"go/token"
	"os"
	"strconv"
)

type mutation struct {
	line int
	op   string
	desc string
	do   func()
}

func main() {
	file := flag.String("file", "", "")
	list := flag.Bool("list", false, "")
	apply := flag.Int("apply", -1, "")
	out := flag.String("out", "", "")
	flag.Parse()
	fset := token.NewFileSet()
	f, err := parser.ParseFile(fset, *file, nil, parser.ParseComments)
	if err != nil {
		fmt.Fprintln(os.Stderr, err)
		os.Exit(2)
	}
	var muts []mutation
	add := func(pos token.Pos, op, desc string, do func()) {
		muts = append(muts, mutation{fset.Position(pos).Line, op, desc, do})
	}
	swap := map[token.Token]token.Token{token.EQL: token.NEQ, token.NEQ: token.EQL, token.LSS: token.LEQ, token.LEQ: token.LSS, token.GTR: token.GEQ, token.GEQ: token.GTR, token.LAND: token.LOR, token.LOR: token.LAND, token.ADD: token.SUB, token.SUB: token.ADD}
	var visitStmts func(list *[]ast.Stmt)
	visitStmts = func(list *[]ast.Stmt) {
		for i := range *list {
			i := i
			st := (*list)[i]
			switch x := st.(type) {
			case *ast.ExprStmt:
				if _, ok := x.X.(*ast.CallExpr); ok {
					add(x.Pos(), "delete-call", nodeStr(fset, x), func() { (*list)[i] = &ast.EmptyStmt{Semicolon: x.Pos()} })
				}
			case *ast.AssignStmt:
				if x.Tok == token.ASSIGN && len(x.Lhs) == 1 {
					if _, isIdent := x.Lhs[0].(*ast.Ident); !isIdent {
						add(x.Pos(), "delete-assign", nodeStr(fset, x), func() { (*list)[i] = &ast.EmptyStmt{Semicolon: x.Pos()} })
					}
				}
			case *ast.IncDecStmt:
				add(x.Pos(), "delete-incdec", nodeStr(fset, x), func() { (*list)[i] = &ast.EmptyStmt{Semicolon: x.Pos()} })
			case *ast.DeferStmt:
				add(x.Pos(), "delete-defer", nodeStr(fset, x), func() { (*list)[i] = &ast.EmptyStmt{Semicolon: x.Pos()} })
			case *ast.BranchStmt:
				if x.Tok == token.CONTINUE || x.Tok == token.BREAK {
					add(x.Pos(), "delete-branch", nodeStr(fset, x), func() { (*list)[i] = &ast.EmptyStmt{Semicolon: x.Pos()} })
				}
			}
		}
	}
	ast.Inspect(f, func(n ast.Node) bool {
		switch x := n.(type) {
		case *ast.BlockStmt:
			visitStmts(&x.List)
		case *ast.CaseClause:
			visitStmts(&x.Body)
		case *ast.CommClause:
			visitStmts(&x.Body)
		case *ast.IfStmt:
			cond := x.Cond
			add(x.Pos(), "negate-if", nodeStr(fset, cond), func() { x.Cond = &ast.UnaryExpr{Op: token.NOT, X: &ast.ParenExpr{X: cond}} })
		case *ast.BinaryExpr:
			if to, ok := swap[x.Op]; ok {
				from := x.Op
				add(x.OpPos, "binop", fmt.Sprintf("%s: %s -> %s", nodeStr(fset, x), from, to), func() { x.Op = to })
			}
		case *ast.BasicLit:
			if x.Kind == token.STRING && len(x.Value) > 2 && x.Value[0] == '"' {
				old := x.Value
				add(x.Pos(), "string-lit", old+" -> one character appended", func() { x.Value = old[:len(old)-1] + "x\"" })
			}
			if x.Kind == token.INT {
				if v, err := strconv.ParseInt(x.Value, 0, 64); err == nil {
					old := x.Value
					add(x.Pos(), "int-lit", fmt.Sprintf("%s -> %d", old, v+1), func() { x.Value = strconv.FormatInt(v+1, 10) })
				}
			}
		case *ast.Ident:
			if x.Name == "true" || x.Name == "false" {
				old := x.Name
				nw := "true"
				if old == "true" {
					nw = "false"
				}
				add(x.Pos(), "bool-lit", old+" -> "+nw, func() { x.Name = nw })
			}
		case *ast.CallExpr:
			// swap two adjacent arguments that are both plain identifiers or selectors (wrong-variable slips)
			for i := 0; i+1 < len(x.Args); i++ {
				i := i
				if simpleOperand(x.Args[i]) && simpleOperand(x.Args[i+1]) && nodeStr(fset, x.Args[i]) != nodeStr(fset, x.Args[i+1]) {
					add(x.Pos(), "swap-args", fmt.Sprintf("%s: args %d,%d", nodeStr(fset, x), i, i+1), func() { x.Args[i], x.Args[i+1] = x.Args[i+1], x.Args[i] })
				}
			}
		case *ast.UnaryExpr:
			if x.Op == token.NOT {
				inner := x.X
				add(x.Pos(), "drop-not", nodeStr(fset, x), func() { x.X = &ast.UnaryExpr{Op: token.NOT, X: &ast.ParenExpr{X: inner}} })
			}
		case *ast.ReturnStmt:
			// return ..., err  ->  return ..., nil
			if len(x.Results) > 0 {
				last := x.Results[len(x.Results)-1]
				if id, ok := last.(*ast.Ident); ok && (id.Name == "err") {
					idx := len(x.Results) - 1
					add(x.Pos(), "return-nil-error", nodeStr(fset, x), func() { x.Results[idx] = ast.NewIdent("nil") })
				}
			}
		}
		return true
	})
	// wrong-variable slips: a use of one parameter replaced by another parameter of the same type
	for _, d := range f.Decls {
		fd, ok := d.(*ast.FuncDecl)
		if !ok || fd.Body == nil || fd.Type.Params == nil {
			continue
		}
		byType := map[string][]string{}
		for _, fl := range fd.Type.Params.List {
			ts := nodeStr(fset, fl.Type)
			for _, n := range fl.Names {
				if n.Name != "_" {
					byType[ts] = append(byType[ts], n.Name)
				}
			}
		}
		other := map[string]string{}
		for _, names := range byType {
			if len(names) >= 2 {
				for i, n := range names {
					other[n] = names[(i+1)%len(names)]
				}
			}
		}
		if len(other) == 0 {
			continue
		}
		lhs := map[*ast.Ident]bool{}
		ast.Inspect(fd.Body, func(n ast.Node) bool {
			if as, ok := n.(*ast.AssignStmt); ok {
				for _, l := range as.Lhs {
					if id, ok := l.(*ast.Ident); ok {
						lhs[id] = true
					}
				}
			}
			if kv, ok := n.(*ast.KeyValueExpr); ok {
				if id, ok := kv.Key.(*ast.Ident); ok {
					lhs[id] = true
				}
			}
			if se, ok := n.(*ast.SelectorExpr); ok {
				lhs[se.Sel] = true
			}
			return true
		})
		ast.Inspect(fd.Body, func(n ast.Node) bool {
			id, ok := n.(*ast.Ident)
			if !ok || lhs[id] {
				return true
			}
			if o, ok := other[id.Name]; ok && id.Obj != nil && id.Obj.Kind == ast.Var {
				old := id.Name
				add(id.Pos(), "wrong-param", fmt.Sprintf("%s: use of %s -> %s", fd.Name.Name, old, o), func() { id.Name = o })
			}
			return true
		})
	}
	if *list {
		for i, m := range muts {
			fmt.Printf("%d\t%d\t%s\t%s\n", i, m.line, m.op, m.desc)
		}
		return
	}
	if *apply < 0 || *apply >= len(muts) {
		fmt.Fprintln(os.Stderr, "no such mutation")
		os.Exit(2)
	}
	muts[*apply].do()
	var buf bytes.Buffer
	if err := (&printer.Config{Mode: printer.UseSpaces | printer.TabIndent, Tabwidth: 8}).Fprint(&buf, fset, f); err != nil {
		fmt.Fprintln(os.Stderr, err)
		os.Exit(2)
	}
	if err := os.WriteFile(*out, buf.Bytes(), 0o644); err != nil {
		fmt.Fprintln(os.Stderr, err)
		os.Exit(2)
	}
}

func nodeStr(fset *token.FileSet, n ast.Node) string {
	var b bytes.Buffer
	printer.Fprint(&b, fset, n)
	s := b.String()
	s = string(bytes.ReplaceAll([]byte(s), []byte("\n"), []byte(" ")))
	s = string(bytes.ReplaceAll([]byte(s), []byte("\t"), []byte(" ")))
	if len(s) > 110 {
		s = s[:110] + "…"
	}
	return s
}

func simpleOperand(e ast.Expr) bool {
	switch x := e.(type) {
	case *ast.Ident:
		return x.Name != "nil" && x.Name != "true" && x.Name != "false"
	case *ast.SelectorExpr:
		return simpleOperand(x.X)
	}
	return false
}
