#!/bin/sh
# copies the contract files (single source: /verif/contracts/repo) into /repo; commit there separately
set -e
cd /verif/contracts/repo
find . -name zz_contracts_verif.go | while read f; do
  head -1 "$f" | grep -q '^//go:build verif$' || { echo "missing build tag in $f"; exit 1; }
  cp "$f" "/repo/$f"
done
git -C /repo status --short
