claim("C14",
  "For every gRPC code (all uint32 values) httpStatusFromCode returns exactly the HTTP status of the documented table and an error status for every non-OK code; codeFromHttpStatus returns OK iff 200<=status<300 for every int; DefaultErrorRenderer calls http.Error exactly once with 499 only for a cancelled request with Canceled/DeadlineExceeded and with the table value otherwise. Proved for all inputs and all paths; violations are replayed on the real functions.",
  "Not decided here: behaviour of net/http's http.Error; status.Status.Code is an uninterpreted pure function; ctx.Err() is modelled as a monotone ghost.",
  ref="8 C14")
