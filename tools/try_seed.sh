#!/bin/sh
# usage: try_seed.sh <seed dir name> [property]  -- applies the seeded patch to /repo, runs the check, reverts
S="$1"; P="${2:-$(echo $S | cut -c1-3)}"
cd /repo || exit 2
PATCH=/verif/seeded/$S/patch.diff
[ -f /verif/seeded/$S/patch.rebased.diff ] && PATCH=/verif/seeded/$S/patch.rebased.diff
if ! git apply --check $PATCH 2>/dev/null; then echo "patch $S does not apply to the current tree (needs patch.rebased.diff)"; exit 2; fi
git apply $PATCH
# development run: never touches the committed evidence files
/verif/bin/govc check -property $P -tier quick -no-evidence -outdir /tmp/try_seed_out_$S > /tmp/try_seed_$S.log 2>&1; rc=$?
rm -rf /tmp/try_seed_out_$S
git -C /repo apply -R $PATCH || { echo "could not revert $S: restoring tracked files"; git -C /repo stash -q; }
grep -E "^(VIOLATION|KNOWN|UNDECIDED|ENGINE|property=)" /tmp/try_seed_$S.log | cut -c1-260
echo "seed=$S property=$P exit=$rc"
