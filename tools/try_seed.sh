#!/bin/sh
# usage: try_seed.sh <seed dir name> [property]  -- applies the seeded patch to /repo, runs the check, reverts
S="$1"; P="${2:-$(echo $S | cut -c1-3)}"
cd /repo || exit 2
if ! git apply --check /verif/seeded/$S/patch.diff 2>/dev/null; then
  if ! git apply --3way /verif/seeded/$S/patch.diff 2>/dev/null; then echo "patch $S does not apply"; git checkout -- . ; exit 2; fi
else
  git apply /verif/seeded/$S/patch.diff
fi
/verif/check.sh $P quick > /tmp/try_seed_$S.log 2>&1; rc=$?
git -C /repo checkout -- . ; git -C /repo reset -q
grep -E "^(VIOLATION|KNOWN|UNDECIDED|ENGINE|property=)" /tmp/try_seed_$S.log | cut -c1-260
echo "seed=$S property=$P exit=$rc"
