#!/usr/bin/env python3
"""Mutation run (development tool): for every syntactic mutant of the library's source files that still builds
and passes the existing test suite, run all property checks against a scratch copy and record whether some check
reports it. Results: /tmp/mut/results.jsonl. Nothing under /verif or /repo is modified."""
import json, os, shutil, subprocess, sys, threading, queue, time
FILES = ["server.go","intercept.go","internal/misc.go","internal/call_options.go","internal/transport_stream.go",
         "httpgrpc/client.go","httpgrpc/server.go","httpgrpc/io.go","httpgrpc/codes.go","httpgrpc/protocol_versions.go",
         "inprocgrpc/in_process.go","inprocgrpc/cloner.go","cmd/protoc-gen-grpchan/protoc-gen-grpchan.go"]
ENV = dict(os.environ, GOFLAGS="-mod=mod", GOPROXY="off", GOSUMDB="off", GOTOOLCHAIN="local")
ROOT = "/tmp/mut"
NW = int(sys.argv[1]) if len(sys.argv) > 1 else 6
only = sys.argv[2:]  # optional file filter
os.makedirs(ROOT, exist_ok=True)
done = set()
res_path = ROOT + "/results.jsonl"
if os.path.exists(res_path):
    for l in open(res_path):
        r = json.loads(l); done.add((r["file"], r["index"]))
jobs = queue.Queue()
for f in FILES:
    if only and f not in only: continue
    out = subprocess.run(["/verif/bin/mutate", "-file", "/repo/" + f, "-list"], capture_output=True, text=True).stdout
    for l in out.splitlines():
        i, line, op, desc = l.split("\t", 3)
        if os.environ.get("MUT_OPS") and op not in os.environ["MUT_OPS"].split(","):
            continue
        if (f, int(i)) not in done:
            jobs.put((f, int(i), int(line), op, desc))
print("jobs:", jobs.qsize(), flush=True)
lock = threading.Lock()
def run(cmd, cwd, timeout):
    try:
        p = subprocess.run(cmd, cwd=cwd, env=ENV, capture_output=True, text=True, timeout=timeout)
        return p.returncode, p.stdout + p.stderr
    except subprocess.TimeoutExpired:
        return 124, "timeout"
def worker(k):
    wdir = f"{ROOT}/w{k}"
    repo = wdir + "/repo"
    shutil.rmtree(wdir, ignore_errors=True)
    shutil.copytree("/repo", repo, ignore=shutil.ignore_patterns(".git"))
    while True:
        try:
            f, i, line, op, desc = jobs.get_nowait()
        except queue.Empty:
            break
        rec = {"file": f, "index": i, "line": line, "op": op, "desc": desc}
        target = repo + "/" + f
        rc, out = run(["/verif/bin/mutate", "-file", "/repo/" + f, "-apply", str(i), "-out", target], "/", 30)
        if rc != 0:
            rec["status"] = "mutate-error"
        else:
            rc, out = run(["go", "build", "./..."], repo, 180)
            if rc != 0:
                rec["status"] = "nobuild"
            else:
                rc, out = run(["go", "test", "-vet=off", "-count=1", "-timeout", "120s", "./..."], repo, 200)
                if rc != 0:
                    rec["status"] = "killed-by-tests"
                else:
                    shutil.rmtree(wdir + "/out", ignore_errors=True)
                    rc, out = run([os.environ.get("GOVC_BIN", "/verif/bin/govc"), "check", "-property", "all", "-repo", repo, "-no-evidence", "-outdir", wdir + "/out"], "/verif", 600)
                    viol = sorted(set(l.split("obligation=")[1].replace(" no-failing-input-found", "") for l in out.splitlines() if l.startswith("VIOLATION") and "obligation=" in l))
                    props = sorted(set(l.split()[1].split("=")[1] for l in out.splitlines() if l.startswith("VIOLATION")))
                    errs = [l for l in out.splitlines() if l.startswith("ENGINE-ERROR") or l.startswith("UNDECIDED")]
                    rec["govc_exit"] = rc
                    rec["props"] = props
                    rec["obligations"] = viol[:6]
                    rec["engine"] = errs[:3]
                    rec["status"] = "detected" if viol else ("undecided" if rc != 0 else "survived")
        shutil.copyfile("/repo/" + f, target)
        with lock:
            with open(res_path, "a") as fh:
                fh.write(json.dumps(rec) + "\n")
    shutil.rmtree(wdir, ignore_errors=True)
ths = [threading.Thread(target=worker, args=(k,)) for k in range(NW)]
t0 = time.time()
for t in ths: t.start()
for t in ths: t.join()
print("done in %.0fs" % (time.time() - t0))
