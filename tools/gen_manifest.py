#!/usr/bin/env python3
"""Regenerates /verif/MANIFEST.json from the table below (single source)."""
import json, subprocess

TRUST = ("Trusted: go/packages+go/ssa (x/tools v0.29.0) build the IR of /repo's working tree; govc's per-instruction "
         "semantics (DESIGN App. A); soundness of z3 5.1.0 / z3 4.8.12 / cvc5 1.0.3 on unsat; assumed contracts on "
         "dependencies in contracts/extern/*.spec (listed in each evidence file); integers are exact machine integers. ")

CLAIMED = {}
def claim(pid, text, note, technique="contract-based deductive verification: WP/symbolic-execution VCs over go/ssa of the real code, discharged by z3/cvc5", ref="8"):
    CLAIMED[pid] = dict(text=text, note=note, technique=technique, ref=ref)

NOT_YET = {}

exec(open('/verif/tools/manifest_table.py').read())

props = [json.loads(l) for l in open('/verif/properties.jsonl')]
hooks_commits = [l.strip() for l in open('/verif/tools/hook_commits.txt')] if __import__('os').path.exists('/verif/tools/hook_commits.txt') else []
m = {
  "version": 1,
  "setup_cmd": "cd /verif/engine && GOFLAGS=-mod=mod GOPROXY=off GOSUMDB=off GOTOOLCHAIN=local go build -o /verif/bin/govc .",
  "hooks": {
    "guard": "verif",
    "enable": "go build -tags verif ./... (adds only comment-only contract files zz_contracts_verif.go; compiled code is byte-identical)",
    "baseline_off_cmd": "cd /repo && GOFLAGS=-mod=mod GOPROXY=off GOSUMDB=off go test -json -vet=off -count=1 -timeout 25m ./...",
    "source_commits": hooks_commits,
    "add_only": True
  },
  "engines": [{
    "name": "govc",
    "path": "/verif/engine",
    "serves_properties": sorted(CLAIMED),
    "kind_free_text": "own verification-condition generator: symbolic execution of go/ssa (NaiveForm) of /repo per function under contract, contracts as //@ comments in build-tag-guarded files, obligations discharged by an incremental z3 4.8.12 session per function, with z3 5.1.0, z3 4.8.12 and cvc5 raced on standalone files for anything not immediately unsat on anything not immediately unsat"
  }],
  "checks": [],
  "not_applicable": [],
  "notes": "Technique family: contract-based deductive verification of the real code. Exit codes of every check: 0 all claimed obligations discharged; 1 + VIOLATION line(s); 3 (no VIOLATION line) when the check cannot decide (engine error, vacuity guard, renamed contract target)."
}
for p in props:
    pid = p['id']
    if pid in CLAIMED:
        c = CLAIMED[pid]
        m["checks"].append({
          "property_id": pid,
          "quick_cmd": f"/verif/check.sh {pid} quick",
          "thorough_cmd": f"/verif/check.sh {pid} thorough",
          "evidence_file": f"/verif/evidence/{pid}.json",
          "replay_cmd_template": "cat {path}",
          "engine": "govc",
          "level_claimed": {"category": "proof", "text": c['text'], "design_ref": "DESIGN.md §" + c['ref']},
          "level_note": TRUST + c['note'],
          "technique": c['technique'],
        })
    else:
        m["not_applicable"].append({"property_id": pid, "reason": NOT_YET.get(pid, "contracts for this property are not yet built in this framework (work in progress; see DESIGN.md §8)")})
json.dump(m, open('/verif/MANIFEST.json','w'), indent=1)
print("claimed:", sorted(CLAIMED), "not claimed:", [x['property_id'] for x in m['not_applicable']])
